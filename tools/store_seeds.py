#!/usr/bin/env python3
"""store_seeds.py <src root> [--offset N] [--jobs J] [props...]

For every <src root>/Cxx/seed/<n>:
  1. confirm it in a scratch git worktree of /repo (outside /repo and /verif): the demonstration passes on the clean
     tree, fails with the change, and the pinned suite still passes with the change      (parallel, J at a time)
  2. apply it to /repo itself (git -C /repo apply), run all 19 registered quick checks against /repo, undo it
     straight afterwards (git -C /repo checkout -- .)                                      (one seed at a time)
  3. store it as /verif/seeded/Cxx-<n+offset>/{patch.diff, demo.py, meta.json}
"""
import glob
import json
import os
import shutil
import subprocess
import sys
import tempfile
from concurrent.futures import ThreadPoolExecutor

PROPS = [f'C{i:02d}' for i in range(1, 21)]


def sh(cmd, cwd=None, env=None, timeout=3600):
    p = subprocess.run(cmd, shell=True, cwd=cwd, env=env, capture_output=True, text=True, timeout=timeout)
    return p.returncode, (p.stdout + p.stderr)


def confirm(seed):
    patch, demo = os.path.join(seed, 'patch.diff'), os.path.join(seed, 'demo.py')
    out = {}
    wt = tempfile.mkdtemp(prefix='seedwt_')
    os.rmdir(wt)
    sh(f'git -C /repo worktree add -q {wt} HEAD')
    try:
        env = dict(os.environ, PYTHONPATH=f'{wt}/src')
        rc0, o0 = sh(f'/venv/bin/python {demo}', cwd=wt, env=env)
        out['demo_clean'] = rc0
        rc, o = sh(f'git apply {patch}', cwd=wt)
        out['apply'] = rc
        rc1, o1 = sh(f'/venv/bin/python {demo}', cwd=wt, env=env)
        out['demo_patched'] = rc1
        rc2, o2 = sh('/venv/bin/python -m pytest -q -p no:cacheprovider --timeout=900', cwd=wt, env=env)
        out['suite_patched'] = (o2.strip().splitlines() or ['?'])[-1]
    finally:
        sh(f'git -C /repo worktree remove --force {wt}')
        shutil.rmtree(wt, ignore_errors=True)
    return seed, out


def run_check(pid):
    rc, o = sh(f'/venv/bin/python -m sa.check {pid} --tier quick', cwd='/verif')
    lines = [l for l in o.splitlines() if l.startswith('VIOLATION') or l.startswith('  ') or l.startswith('ANALYSIS-ERROR')]
    return pid, rc, lines


def main():
    argv = sys.argv[1:]
    offset, jobs = 0, 8
    if '--offset' in argv:
        i = argv.index('--offset'); offset = int(argv[i + 1]); del argv[i:i + 2]
    if '--jobs' in argv:
        i = argv.index('--jobs'); jobs = int(argv[i + 1]); del argv[i:i + 2]
    root, only = argv[0], argv[1:]
    seeds = [d for d in sorted(glob.glob(os.path.join(root, 'C*', 'seed', '[0-9]')))
             if not only or d.split('/')[-3] in only]
    with ThreadPoolExecutor(max_workers=jobs) as ex:
        confirmed = dict(ex.map(confirm, seeds))
    rc, o = sh('git -C /repo status --short -- src')
    if o.strip():
        print('REPO NOT CLEAN', o); sys.exit(3)
    for seed in seeds:
        prop, n = seed.split('/')[-3], int(seed.split('/')[-1])
        res = confirmed[seed]
        patch = os.path.join(seed, 'patch.diff')
        fired = {}
        rc, o = sh(f'git -C /repo apply {patch}')
        repo_apply_failed = rc != 0
        try:
            if not repo_apply_failed:
                with ThreadPoolExecutor(max_workers=16) as ex:
                    for pid, rc_, lines in ex.map(run_check, PROPS):
                        if rc_ != 0:
                            fired[pid] = {'exit': rc_, 'lines': lines[:6]}
        finally:
            sh('git -C /repo checkout -- .')
            sh('git -C /verif checkout -- evidence')
        dst = f'/verif/seeded/{prop}-{n + offset}'
        os.makedirs(dst, exist_ok=True)
        shutil.copy(patch, dst)
        shutil.copy(os.path.join(seed, 'demo.py'), dst)
        meta = {}
        try:
            meta = json.load(open(os.path.join(seed, 'meta.json')))
        except Exception:
            pass
        ok = res.get('demo_clean') == 0 and res.get('demo_patched') == 1 and \
            str(res.get('suite_patched', '')).startswith('111 passed')
        meta.update({
            'property': prop,
            'origin': 'independent sub-agent given only the property text and a scratch worktree',
            'confirmed_by_me': {
                'demo_on_clean_tree_exit': res.get('demo_clean'), 'demo_with_change_exit': res.get('demo_patched'),
                'suite_with_change': res.get('suite_patched'), 'ok': ok,
                'ran': ['git worktree add <tmp> HEAD; PYTHONPATH=<tmp>/src /venv/bin/python demo.py (clean)',
                        'git apply patch.diff; demo.py (with change); pytest -q (with change)',
                        'git -C /repo apply patch.diff; /venv/bin/python -m sa.check Cnn --tier quick (all 19); '
                        'git -C /repo checkout -- .']},
            'caught_by': {k: [l.strip() for l in v['lines'] if l.startswith('  ') or l.startswith('ANALYSIS')][:2]
                          for k, v in fired.items()},
            'exit_codes': {k: v['exit'] for k, v in fired.items()},
            'detected': any(v['exit'] == 1 for v in fired.values()),
            'repo_apply_failed': repo_apply_failed,
        })
        json.dump(meta, open(os.path.join(dst, 'meta.json'), 'w'), indent=1)
        print(prop, n + offset, 'confirmed' if ok else f'NOT-CONFIRMED {res}', 'caught by',
              {k: v['exit'] for k, v in fired.items()} or 'NOTHING', flush=True)


main()
