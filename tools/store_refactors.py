#!/usr/bin/env python3
"""store_refactors.py <src root>: confirm behaviour-preserving refactorings written by sub-agents (demo passes on the clean
tree AND with the change, suite at 111 passed with the change) in scratch worktrees and store them under
/verif/refactors/<Cnn>-<n>/ (patch.diff, demo.py, meta.json).  They are replayed by the thorough tier as
behaviour-preserving variants: the findings of every property must not change."""
import glob, json, os, shutil, subprocess, sys, tempfile
from concurrent.futures import ThreadPoolExecutor


def sh(cmd, cwd=None, env=None, timeout=3600):
    p = subprocess.run(cmd, shell=True, cwd=cwd, env=env, capture_output=True, text=True, timeout=timeout)
    return p.returncode, p.stdout + p.stderr


def confirm(seed):
    patch, demo = os.path.join(seed, 'patch.diff'), os.path.join(seed, 'demo.py')
    out = {}
    if not os.path.exists(patch):
        return seed, {'missing': True}
    wt = tempfile.mkdtemp(prefix='refwt_'); os.rmdir(wt)
    sh(f'git -C /repo worktree add -q {wt} HEAD')
    try:
        env = dict(os.environ, PYTHONPATH=f'{wt}/src')
        out['demo_clean'] = sh(f'/venv/bin/python {demo}', cwd=wt, env=env)[0]
        out['apply'] = sh(f'git apply {patch}', cwd=wt)[0]
        out['demo_patched'] = sh(f'/venv/bin/python {demo}', cwd=wt, env=env)[0]
        rc, o = sh('/venv/bin/python -m pytest -q -p no:cacheprovider --timeout=900', cwd=wt, env=env)
        out['suite_patched'] = (o.strip().splitlines() or ['?'])[-1]
    finally:
        sh(f'git -C /repo worktree remove --force {wt}'); shutil.rmtree(wt, ignore_errors=True)
    return seed, out


def main():
    root = sys.argv[1]
    offset = int(sys.argv[sys.argv.index('--offset') + 1]) if '--offset' in sys.argv else 0
    seeds = sorted(glob.glob(os.path.join(root, 'C*', 'seed', '[0-9]')))
    head = subprocess.run('git -C /repo rev-parse --short HEAD', shell=True, capture_output=True, text=True).stdout.strip()
    with ThreadPoolExecutor(max_workers=8) as ex:
        for seed, res in ex.map(confirm, seeds):
            prop, n = seed.split('/')[-3], seed.split('/')[-1]
            ok = res.get('demo_clean') == 0 and res.get('apply') == 0 and res.get('demo_patched') == 0 and \
                str(res.get('suite_patched', '')).startswith('111 passed')
            print(prop, n, 'confirmed' if ok else f'NOT-CONFIRMED {res}', flush=True)
            if not ok:
                continue
            dst = f'/verif/refactors/{prop}-{int(n) + offset}'
            os.makedirs(dst, exist_ok=True)
            shutil.copy(os.path.join(seed, 'patch.diff'), dst)
            shutil.copy(os.path.join(seed, 'demo.py'), dst)
            meta = {}
            try:
                meta = json.load(open(os.path.join(seed, 'meta.json')))
            except Exception:
                pass
            meta.update({'property': prop, 'kind': 'behaviour-preserving refactoring',
                         'origin': 'independent sub-agent given only the property text and a scratch worktree',
                         'made_against': head,
                         'confirmed_by_me': {'demo_on_clean_tree_exit': 0, 'demo_with_change_exit': 0,
                                             'suite_with_change': res.get('suite_patched')}})
            json.dump(meta, open(os.path.join(dst, 'meta.json'), 'w'), indent=1)


main()
