#!/usr/bin/env python3
"""reconfirm_seeds.py: after repairs in /repo, re-run every stored seed's demonstration in a scratch worktree of the
current HEAD (clean -> must pass, with the change -> must fail).  Records the outcome in meta.json under
`reconfirmed_at_<HEAD>`; a seed whose patch no longer applies, or whose demonstration no longer fails with the change
(the defect it relied on was repaired), is marked `still_manifests: false`."""
import glob, json, os, shutil, subprocess, sys, tempfile
from concurrent.futures import ThreadPoolExecutor


def sh(cmd, cwd=None, env=None, timeout=1800):
    p = subprocess.run(cmd, shell=True, cwd=cwd, env=env, capture_output=True, text=True, timeout=timeout)
    return p.returncode, p.stdout + p.stderr


HEAD = subprocess.run('git -C /repo rev-parse --short HEAD', shell=True, capture_output=True, text=True).stdout.strip()


def one(seed):
    wt = tempfile.mkdtemp(prefix='seedre_'); os.rmdir(wt)
    sh(f'git -C /repo worktree add -q {wt} HEAD')
    out = {'head': HEAD}
    try:
        env = dict(os.environ, PYTHONPATH=f'{wt}/src')
        out['demo_clean'] = sh(f'/venv/bin/python {seed}/demo.py', cwd=wt, env=env)[0]
        out['apply'] = sh(f'git apply {seed}/patch.diff', cwd=wt)[0]
        out['demo_patched'] = sh(f'/venv/bin/python {seed}/demo.py', cwd=wt, env=env)[0] if out['apply'] == 0 else None
    finally:
        sh(f'git -C /repo worktree remove --force {wt}'); shutil.rmtree(wt, ignore_errors=True)
    out['still_manifests'] = out['apply'] == 0 and out['demo_clean'] == 0 and out['demo_patched'] == 1
    return seed, out


def main():
    seeds = sorted(glob.glob('/verif/seeded/C*-*'))
    with ThreadPoolExecutor(max_workers=12) as ex:
        for seed, out in ex.map(one, seeds):
            mp = os.path.join(seed, 'meta.json')
            meta = json.load(open(mp))
            meta['reconfirmed'] = out
            json.dump(meta, open(mp, 'w'), indent=1)
            if not out['still_manifests']:
                print(os.path.basename(seed), out)
    print('done', len(seeds))


main()
