#!/usr/bin/env python3
"""try_seed.py <seed dir> [--props C01,C02|all]: confirm a seeded change (demo fails with it / passes without it, suite green
with it) in a scratch worktree, then apply it to /repo, run the checks, undo it.  Prints a summary JSON."""
import json, os, subprocess, sys, shutil, tempfile

def sh(cmd, cwd=None, env=None, timeout=1200):
    p = subprocess.run(cmd, shell=True, cwd=cwd, env=env, capture_output=True, text=True, timeout=timeout)
    return p.returncode, (p.stdout + p.stderr)

def main():
    seed = os.path.abspath(sys.argv[1])
    props = 'all'
    if '--props' in sys.argv:
        props = sys.argv[sys.argv.index('--props') + 1]
    skip_confirm = '--no-confirm' in sys.argv
    patch = os.path.join(seed, 'patch.diff')
    demo = os.path.join(seed, 'demo.py')
    out = {'seed': seed}
    if not skip_confirm:
        wt = tempfile.mkdtemp(prefix='seedwt_')
        os.rmdir(wt)
        rc, o = sh(f'git -C /repo worktree add -q {wt} HEAD')
        try:
            env = dict(os.environ, PYTHONPATH=f'{wt}/src')
            rc0, o0 = sh(f'/venv/bin/python {demo}', cwd=wt, env=env)
            out['demo_clean'] = (rc0, o0.strip().splitlines()[-1:] )
            rc, o = sh(f'git apply {patch}', cwd=wt)
            out['apply'] = rc
            rc1, o1 = sh(f'/venv/bin/python {demo}', cwd=wt, env=env)
            out['demo_patched'] = (rc1, o1.strip().splitlines()[-1:])
            rc2, o2 = sh('/venv/bin/python -m pytest -q -p no:cacheprovider --timeout=900', cwd=wt, env=env)
            out['suite_patched'] = o2.strip().splitlines()[-1]
        finally:
            sh(f'git -C /repo worktree remove --force {wt}')
    # checks against /repo
    rc, o = sh('git -C /repo status --short -- src')
    if o.strip():
        print('REPO NOT CLEAN', o); sys.exit(3)
    rc, o = sh(f'git -C /repo apply {patch}')
    fired = {}
    try:
        if rc != 0:
            out['repo_apply'] = o
        else:
            ids = [f'C{i:02d}' for i in range(1, 21)] if props == 'all' else props.split(',')
            for pid in ids:
                rc, o = sh(f'/venv/bin/python -m sa.check {pid} --tier quick', cwd='/verif')
                if rc != 0:
                    lines = [l for l in o.splitlines() if l.startswith('VIOLATION') or l.startswith('  ') or l.startswith('ANALYSIS-ERROR')]
                    fired[pid] = {'exit': rc, 'lines': lines[:6]}
    finally:
        sh('git -C /repo checkout -- .')
        # evidence files were rewritten by the runs above: restore the committed ones
        sh('git -C /verif checkout -- evidence')
    out['fired'] = fired
    print(json.dumps(out, indent=1))

main()
