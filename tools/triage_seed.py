#!/venv/bin/python
"""triage_seed.py <seed dir>... : fast triage of seeded changes on scratch copies (HEAD of /repo + patch), all 19 properties
in parallel, never touching /repo or /verif/evidence.  Development aid only: the recorded runs are made by
tools/try_seed.py against /repo itself."""
import json, os, shutil, subprocess, sys, tempfile, warnings
from concurrent.futures import ProcessPoolExecutor

sys.path.insert(0, '/verif')
PROPS = [f'C{i:02d}' for i in range(1, 21)]


def _run(args):
    prop, root = args
    warnings.simplefilter('ignore')
    from sa.check import analyse
    from sa.selftest import _finding_keys
    try:
        rep = analyse(prop, root)
        return prop, _finding_keys(rep), list(rep.errors)
    except Exception as e:  # noqa
        return prop, {}, [f'crash: {type(e).__name__}: {e}']


def scratch(patch=None):
    tmp = tempfile.mkdtemp(prefix='sa_triage_')
    subprocess.run(f'git -C /repo archive HEAD src/peptacular | tar -x -C {tmp}', shell=True, check=True)
    if patch:
        p = subprocess.run(['patch', '-p1', '-s', '-i', patch], cwd=tmp, capture_output=True, text=True)
        if p.returncode != 0:
            shutil.rmtree(tmp)
            raise RuntimeError('patch failed: ' + p.stdout + p.stderr)
    return tmp


def main():
    argv = list(sys.argv[1:])
    props = PROPS
    if '--props' in argv:
        i = argv.index('--props')
        props = argv[i + 1].split(',')
        del argv[i:i + 2]
    seeds = [os.path.abspath(s) for s in argv if not s.startswith('--')]
    base_root = scratch()
    with ProcessPoolExecutor(max_workers=16) as ex:
        base = {p: (k, e) for p, k, e in ex.map(_run, [(p, base_root) for p in props])}
        shutil.rmtree(base_root)
        for seed in seeds:
            try:
                root = scratch(os.path.join(seed, 'patch.diff'))
            except RuntimeError as e:
                print(seed, 'PATCH-FAILED', str(e)[:200]); continue
            try:
                fired = {}
                for p, keys, errs in ex.map(_run, [(p, root) for p in props]):
                    new = [v for k, v in keys.items() if k not in base[p][0]]
                    nerr = [e for e in errs if e not in base[p][1]]
                    if new or nerr:
                        fired[p] = [str(x)[:260] for x in (new + nerr)[:3]]
                tag = '/'.join(seed.split('/')[-3:])
                print(f'== {tag}: ' + (', '.join(sorted(fired)) if fired else 'MISSED'))
                for p, lines in sorted(fired.items()):
                    for l in lines:
                        print(f'     {p}: {l}')
            finally:
                shutil.rmtree(root, ignore_errors=True)


if __name__ == '__main__':
    main()
