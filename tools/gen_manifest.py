#!/usr/bin/env python3
"""Regenerates /verif/MANIFEST.json from the claim table below (kept in one place so it stays valid)."""
import json
import os
import subprocess

VERIF = os.path.dirname(os.path.dirname(os.path.abspath(__file__)))

PY = '/venv/bin/python'

# property -> (technique, claim text, note (assumptions / not decided), design ref)
CLAIMS = {}


def claim(pid, technique, text, note, ref):
    CLAIMS[pid] = (technique, text, note, ref)


def extend(pid, text=None, technique=None):
    """second-session additions to a claim (appended, so the first-session wording stays reviewable)"""
    t, x, n, r = CLAIMS[pid]
    CLAIMS[pid] = (t + ('; ' + technique if technique else ''), x + (' ' + text if text else ''), n, r)


NOT_APPLICABLE = {}


def na(pid, reason):
    NOT_APPLICABLE[pid] = reason


def load_claims():
    here = os.path.join(VERIF, 'tools', 'claims.py')
    ns = {'claim': claim, 'na': na, 'extend': extend}
    with open(here) as fh:
        exec(compile(fh.read(), here, 'exec'), ns)


def fix_commits():
    try:
        out = subprocess.run(['git', '-C', '/repo', 'log', '--format=%H %s'], capture_output=True, text=True).stdout
    except Exception:
        return []
    return [l.split()[0] for l in out.splitlines() if l.split(' ', 1)[1].startswith('fix:')] if out else []


def main():
    load_claims()
    props = [json.loads(l) for l in open(os.path.join(VERIF, 'properties.jsonl'))]
    ids = [p['id'] for p in props]
    checks = []
    for pid in ids:
        if pid not in CLAIMS:
            continue
        technique, text, note, ref = CLAIMS[pid]
        checks.append({
            'property_id': pid,
            'quick_cmd': f'{PY} -m sa.check {pid} --tier quick',
            'thorough_cmd': f'{PY} -m sa.check {pid} --tier thorough',
            'evidence_file': f'/verif/evidence/{pid}.json',
            'replay_cmd_template': f'{PY} -m sa.check {pid} --tier quick  # the replay file {{path}} names rule, construct and file:line',
            'engine': 'sa',
            'level_claimed': {'category': 'other', 'text': text, 'design_ref': ref},
            'level_note': note,
            'technique': technique,
        })
    nas = []
    for pid in ids:
        if pid in CLAIMS:
            continue
        nas.append({'property_id': pid, 'reason': NOT_APPLICABLE.get(
            pid, 'check not built yet (build round in progress); see DESIGN.md section 4 for the planned static rules')})
    m = {
        'version': 1,
        'setup_cmd': 'true',
        'hooks': {
            'guard': 'PEPTACULAR_VERIF',
            'enable': 'none needed: the static analysis reads /repo/src/peptacular from the working tree; no '
                      'instrumentation hooks were added to the repository',
            'baseline_off_cmd': 'cd /repo && /venv/bin/python -m pytest -ra -q -p no:cacheprovider --timeout=900 '
                                '--continue-on-collection-errors',
            'source_commits': fix_commits(),
            'add_only': True,
        },
        'engines': [{
            'name': 'sa', 'path': '/verif/sa', 'serves_properties': [c['property_id'] for c in checks],
            'kind_free_text': 'repository-specific static analysis on the Python ast: typed call resolution, '
                              'flow-sensitive effect/alias analysis with interprocedural summaries, constant '
                              'evaluation of tables, writer/reader table extraction, slicing; never imports or runs '
                              'the package'}],
        'checks': checks,
        'notes': 'Every claim is partial (level other): a check decides the named structural necessary conditions of '
                 'its property and says which clauses it does not decide. source_commits lists the unguarded fix: '
                 'commits (genuine defects repaired); there are no hook commits. See DESIGN.md.',
        'not_applicable': nas,
    }
    with open(os.path.join(VERIF, 'MANIFEST.json'), 'w') as fh:
        json.dump(m, fh, indent=1)
    print(f'{len(checks)} checks, {len(nas)} not_applicable')


if __name__ == '__main__':
    main()
