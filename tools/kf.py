#!/usr/bin/env python3
"""append an entry to known_findings.json: kf.py known|fixed PROP RULE MODULE QUALNAME CONSTRUCT [COMMIT] WHAT"""
import json, sys
p='/verif/known_findings.json'
kf=json.load(open(p))
status=sys.argv[1]
prop,rule,mod,qual,construct=sys.argv[2:7]
if status=='fixed':
    commit,what=sys.argv[7],sys.argv[8]
    e={"status":"fixed","property":prop,"rule":rule,"module":mod,"qualname":qual,"construct":construct,"commit":commit,"what_failed":what,"text":f"fixed: property={prop} {commit} {what}"}
else:
    what=sys.argv[7]
    e={"status":"known","property":prop,"rule":rule,"module":mod,"qualname":qual,"construct":construct,"what_fails":what}
kf['findings']=[x for x in kf['findings'] if not (x['status']==status and x['property']==prop and x['rule']==rule and x['module']==mod and x['qualname']==qual and x['construct']==construct)]
kf['findings'].append(e)
json.dump(kf,open(p,'w'),indent=1)
print('ok',len(kf['findings']))
