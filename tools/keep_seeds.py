#!/usr/bin/env python3
"""keep_seeds.py <src root> : for every <src root>/Cxx/seed/N confirm + test it (tools/try_seed.py) and store it as
/verif/seeded/Cxx-N/{patch.diff, demo.py, meta.json}"""
import json, os, shutil, subprocess, sys, glob
root = sys.argv[1]
only = sys.argv[2:] 
for d in sorted(glob.glob(os.path.join(root, 'C*', 'seed', '[0-9]'))):
    prop = d.split('/')[-3]
    n = d.split('/')[-1]
    if only and prop not in only:
        continue
    out = subprocess.run(['python3', '/verif/tools/try_seed.py', d], capture_output=True, text=True, timeout=3600).stdout
    try:
        res = json.loads(out[out.index('{'):])
    except Exception:
        print('FAILED', d, out[-300:]); continue
    dst = f'/verif/seeded/{prop}-{n}'
    os.makedirs(dst, exist_ok=True)
    shutil.copy(os.path.join(d, 'patch.diff'), dst)
    shutil.copy(os.path.join(d, 'demo.py'), dst)
    meta = {}
    try:
        meta = json.load(open(os.path.join(d, 'meta.json')))
    except Exception:
        pass
    confirmed = res.get('demo_clean', [None])[0] == 0 and res.get('demo_patched', [None])[0] == 1 and \
        str(res.get('suite_patched', '')).startswith('111 passed')
    meta.update({
        'property': prop,
        'origin': 'independent sub-agent given only the property text and a scratch worktree',
        'confirmed_by_me': {
            'demo_on_clean_tree_exit': res.get('demo_clean', [None])[0],
            'demo_with_change_exit': res.get('demo_patched', [None])[0],
            'suite_with_change': res.get('suite_patched'),
            'ok': confirmed,
            'ran': ['git worktree add <tmp> HEAD; PYTHONPATH=<tmp>/src /venv/bin/python demo.py (clean)',
                    'git apply patch.diff; demo.py (with change); pytest -q (with change)',
                    'git -C /repo apply patch.diff; /venv/bin/python -m sa.check Cnn (all 19); git -C /repo checkout -- .'],
        },
        'caught_by': {k: [l.strip() for l in v['lines'] if l.startswith('  ') or l.startswith('ANALYSIS')][:2]
                      for k, v in res.get('fired', {}).items()},
        'detected': bool(res.get('fired')),
        'repo_apply_failed': 'repo_apply' in res,
    })
    json.dump(meta, open(os.path.join(dst, 'meta.json'), 'w'), indent=1)
    print(prop, n, 'confirmed' if confirmed else 'NOT-CONFIRMED', 'caught by', sorted(res.get('fired', {})) or 'NOTHING')
