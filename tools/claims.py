# claim(pid, technique, text, note, design_ref) / na(pid, reason)  -- consumed by gen_manifest.py

claim('C08',
      'interprocedural effect / alias / escape analysis (abstract interpretation of the ast with summaries)',
      'Decides the frame-condition part of C08 for all code paths at once: for every public function and public '
      'method that is not an explicit editor, (a) no path through any depth of resolved calls writes an object '
      'owned by the caller (argument, self, their interior), (b) the returned/yielded value neither is nor contains '
      'a caller-owned mutable object, (c) constructors/setters keep no reference to a mutable argument, (d) nothing '
      'outside the loader API writes module-level state, nothing outside proforma/randomizer.py touches the '
      'process RNG, no memoised function returns a mutable object. A frame condition over all paths implies the one '
      'over all call histories, which is the quantifier the tests cannot reach (they never re-use an object).',
      'Not decided: equality of results across histories beyond absence of shared mutable state; effects through '
      'the (listed, <1%) unresolved call sites are not judged. Trusted: ast, the engine\'s type resolution, the '
      'editor classification (add_*/pop_*/setters/clear_empty_mods/inplace=True) taken from the property statement; '
      'reviewed exemptions: input_convert normalisers (identity on normal input), property getters, '
      'get_internal_mods_by_index, randomizer module, EntryDb loader API.',
      'DESIGN.md section 4 C08')

na('C06', 'every clause is a value relation over runtime integers and regex matches (which spans come out for given '
          'sites, bounds and missed-cleavage counts); no structural necessary condition visible in the code shape; '
          'deciding it needs execution or a solver, which is another technique family (DESIGN.md section 5)')
