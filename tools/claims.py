# claim(pid, technique, text, note, design_ref) / na(pid, reason)  -- consumed by gen_manifest.py

claim('C08',
      'interprocedural effect / alias / escape analysis (abstract interpretation of the ast with summaries)',
      'Decides the frame-condition part of C08 for all code paths at once: for every public function and public '
      'method that is not an explicit editor, (a) no path through any depth of resolved calls writes an object '
      'owned by the caller (argument, self, their interior), (b) the returned/yielded value neither is nor contains '
      'a caller-owned mutable object, (c) constructors/setters keep no reference to a mutable argument, (d) nothing '
      'outside the loader API writes module-level state, nothing outside proforma/randomizer.py touches the '
      'process RNG, no memoised function returns a mutable object. A frame condition over all paths implies the one '
      'over all call histories, which is the quantifier the tests cannot reach (they never re-use an object).',
      'Not decided: equality of results across histories beyond absence of shared mutable state; effects through '
      'the (listed, <1%) unresolved call sites are not judged. Trusted: ast, the engine\'s type resolution, the '
      'editor classification (add_*/pop_*/setters/clear_empty_mods/inplace=True) taken from the property statement; '
      'reviewed exemptions: input_convert normalisers (identity on normal input), property getters, '
      'get_internal_mods_by_index, randomizer module, EntryDb loader API.',
      'DESIGN.md section 4 C08')

na('C06', 'every clause is a value relation over runtime integers and regex matches (which spans come out for given '
          'sites, bounds and missed-cleavage counts); no structural necessary condition visible in the code shape; '
          'deciding it needs execution or a solver, which is another technique family (DESIGN.md section 5)')

claim('C02',
      'mode-flag forwarding + backward slices over the mass call graph, accumulator discipline, path polynomials '
      '(affine normal forms), constant-table evaluation against an outside reference',
      'Decides structural necessary conditions of C02 for every input at once: the monoisotopic/average switch is '
      'forwarded at every resolved call of the mass call graph; mass() reads every modification-bearing field and '
      'adds (+=) every mod_mass result into the accumulator returned through adjust_mass (residue-count factor on '
      'static rules, multiplier at the Mod unwrap); charge, ion_type, isotope, loss, charge_adducts, monoisotopic '
      'are in the backward slice of every value return of mass/mz/adjust_mass/adjust_mz/chem_mass; mono/average '
      'tables are paired wherever the switch selects between tables; per syntactic path adjust_mass returns one of '
      'the six reference affine forms; adduct mass is homogeneous in the ion count; residue compositions, termini, '
      'particle masses and 15 isotope masses equal CODATA/NIST references; derived float tables are comprehensions '
      'over the right composition table in the promised mode. These are the input classes the suite never visits '
      '(average mode x named modification, loss x isotope label, counts != 1).',
      'Not decided: numeric agreement to 1e-5/2e-3 Da for every input, float summation order, every Unimod row. '
      'Known finding: _parse_adduct_mass is not homogeneous in the ion count (two doctests pin the wrong values).',
      'DESIGN.md section 4 C02')

claim('C03',
      'sibling-table evaluation (adduct grammar interpreter vs composition table), accumulator parity with '
      'control-dependence guards, forwarding, dispatch-order comparison of the two resolvers',
      'Decides the points where the two calculators keep one quantity twice: every ion type\'s charge carrier as '
      'adduct string vs as composition (exact), equal key sets and merged tables, derived float tables; the same '
      'modification fields feed the three accumulators and the labile contribution is control-dependent on '
      'ion_type == p in all three; call order condense -> split -> composition in comp_mass; adduct mass degree; '
      'forwarding of monoisotopic/use_isotope_on_mods/isotope_mods/charge_adducts/ion_type/isotope/charge between '
      'the calculators; both Mod unwrap sites scale by the multiplier; estimate_comp and ISOTOPIC_AVERAGINE_MASS '
      'range over the same ratio table; particle keys e/p/n map to their constants; proton mass vs H+ composition; '
      'the mass and composition resolvers test the same vocabularies in the same order.',
      'Not decided: numeric agreement for every annotation, averagine estimation error, table data values. '
      'Known finding shared with C02 (adduct mass for counts != 1).',
      'DESIGN.md section 4 C03')

claim('C05',
      'exact integer-vector identities on the evaluated composition tables + path polynomials of the offset '
      'application',
      'The series relation is linear, so it splits into table identities and an application shape, both decided '
      'for all peptides at once: b+y = M+2H+, a=b-CO, c=b+NH3, x=y+CO-H2, z=y-NH3, immonium=residue-CO+H+, by/ay/cy, '
      'pairing END[f]+START[b] for all nine internal types, every ion singly charged, series sets partition the '
      'valid ion types (evaluated from constants.py, compared with reference chemistry in the checker); per '
      'syntactic path adjust_mass = base + ADJ[ion] + charge carrier + isotope*neutron + loss with (charge-1) '
      'protons + ion offset for fragments; adjust_mz = m/charge; _build_fragments feeds '
      'sum(components[start:stop]) and the loop elements of charges/ion_types/isotopes/losses.',
      'Not decided: hydrogen bookkeeping of internal ions with an x/z N-terminus (not fixed by the statement); '
      'numeric values to 1e-5 Da (depend on chem.txt; listed isotopes are checked under C02).',
      'DESIGN.md section 4 C05')

claim('C10',
      'writer/reader prefix-table extraction, strip-idiom classification against a data fact recomputed from the '
      'bundled OBO files, dispatch-order comparison, look-up-order extraction',
      'Decides: per vocabulary the prefixes recognised, stripped and listed in the delta-mass parser are the same '
      'set, tested case-folded; a prefix stripper keeps the whole remainder after the first colon whenever the '
      'vocabulary\'s bundled name table contains a colon (215 of 1523 Unimod names today); mass and composition '
      'resolvers test the same vocabularies with tag-strip, number, PSI-MOD, Unimod in the same order and both take '
      'the first resolvable | alternative; id -> name (-> synonym) look-up order in both resolvers; monoisotopic '
      'forwarded through the vocabulary resolvers; both unwrap sites scale by the multiplier.',
      'Not decided: that each of ~4600 rows gives the same number through each spelling; numeric self-consistency '
      'of tabulated mass vs composition (data values).',
      'DESIGN.md section 4 C10')

claim('C01',
      'writer/reader delimiter-table extraction by path condition, field-coverage slices, forwarding',
      'Decides necessary conditions of the round trip for every string at once: the table feature -> (bracket pair, '
      'marker literal, link token) extracted from the serializer is accepted by the parser for the same feature '
      '(extracted from the cursor-character equalities that dominate each _add_<feature> call); feature selectors '
      'are disjoint; all 11 annotation fields flow through the parser result builder, the per-chain reset, the '
      'serializer, __eq__ and dict(); Interval/Mod fields through serializer, __eq__, __hash__; include_plus reaches '
      'every Mod.serialize; interval bounds are Boundaries and residue modifications Positions on both sides.',
      'Not decided: that parse builds exactly the denoted structure for every grammatical string, '
      'parse(serialize(a)) == a, index bookkeeping, value canonicalisation (value-level over an unbounded language). '
      'Known finding: the serializer joins cross-linked chains with two backslashes while the parser recognises // '
      '(pinned by tests).',
      'DESIGN.md section 4 C01')

claim('C09',
      'cursor typestate analysis over the parser class, Union-field guard rule, raise/handler discipline over the '
      'resolved call graph, loop-progress check on every syntactic path',
      'Every operation that can raise in the call graph rooted at parse() is an obligation discharged for all '
      'inputs: reads at the cursor happen only in a bounds-checked state (typestate with inferred method '
      'summaries), str-only operations on Mod.val are guarded by isinstance, every explicit raise is in the '
      'ValueError family, every cursor loop advances/returns/raises/breaks on each syntactic path and the start '
      'phase returns without consuming only on characters the middle phase consumes (termination). Deferred clause: '
      'in the graphs rooted at mod_mass/mod_comp/_parse_mod_delta_mass_only raises are ValueError subclasses, '
      'handlers re-raise or are in the reviewed table, the resolvers end in a raise, accumulating callers wrap no '
      'resolver call in a swallowing handler.',
      'Not decided: serialisability of every returned annotation; exceptions of the charge-adduct sub-grammar at '
      'mass time. Assumes advancing helper calls consume at least one character when guarded by their cursor test.',
      'DESIGN.md section 4 C09')
