# claim(pid, technique, text, note, design_ref) / na(pid, reason)  -- consumed by gen_manifest.py

claim('C08',
      'interprocedural effect / alias / escape analysis (abstract interpretation of the ast with summaries)',
      'Decides the frame-condition part of C08 for all code paths at once: for every public function and public '
      'method that is not an explicit editor, (a) no path through any depth of resolved calls writes an object '
      'owned by the caller (argument, self, their interior), (b) the returned/yielded value neither is nor contains '
      'a caller-owned mutable object, (c) constructors/setters keep no reference to a mutable argument, (d) nothing '
      'outside the loader API writes module-level state, nothing outside proforma/randomizer.py touches the '
      'process RNG, no memoised function returns a mutable object. A frame condition over all paths implies the one '
      'over all call histories, which is the quantifier the tests cannot reach (they never re-use an object).',
      'Not decided: equality of results across histories beyond absence of shared mutable state; effects through '
      'the (listed, <1%) unresolved call sites are not judged. Trusted: ast, the engine\'s type resolution, the '
      'editor classification (add_*/pop_*/setters/clear_empty_mods/inplace=True) taken from the property statement; '
      'reviewed exemptions: input_convert normalisers (identity on normal input), property getters, '
      'get_internal_mods_by_index, randomizer module, EntryDb loader API.',
      'DESIGN.md section 4 C08')

claim('C06',
      'option forwarding over the digest call graph, guards decided over the orderings of a span length against the '
      'two bounds, affine normal forms of the missed-cleavage window, function specialisation under the semi / '
      'complete_digestion switches, name-based backward slices of the yielded values',
      'Decides ONLY the parts of C06 that are visible in the shape of the code and without which the value relation '
      'cannot hold: the site finder applies its offset exactly once on every yield path; every option travels from '
      'digest / digest_from_config / sequential_digest to build_spans and between the span builders bound to the '
      'parameter of the same name, later sequential stages are re-based by the start of their parent; every length '
      'test that guards a produced span keeps the closed interval [min_len, max_len] (lengths one below, at and one '
      'above each bound); the end sites of a start site are the slice [i + 1 : i + missed_cleavages + 2] of the sorted, '
      'de-duplicated site list closed with 0 and max_index, and the number reported with a span is its position in '
      'that slice; the all-positions shortcut counts distinct sites and the non-specific builder reports 0; every '
      'other value build_spans yields depends on missed_cleavages; under semi the strict spans within the bounds and '
      'the left and right semi spans of the unbounded strict spans are yielded, a semi span keeps the shared end and '
      'the number of its parent; partial digestion adds exactly (0, len, 0), complete digestion adds nothing.',
      'Not decided (and not claimed): which integer triples come out -- the window arithmetic of the grouped semi '
      'builders (de-duplication by the next shorter parent), bounds encoded in range() limits, regular-expression '
      'semantics, output order; these are value relations over runtime integers and need execution or a solver '
      '(seed C06-1, an off-by-one in that arithmetic, is out of reach and recorded as such). Known finding: the '
      'all-positions shortcut ignores missed_cleavages for specific rules that together hit every position '
      "(digest('KKK', ['lys-n', 'lys-c'], missed_cleavages=0)).",
      'DESIGN.md section 10.11')

claim('C02',
      'mode-flag forwarding + backward slices over the mass call graph, accumulator discipline, path polynomials '
      '(affine normal forms), constant-table evaluation against an outside reference',
      'Decides structural necessary conditions of C02 for every input at once: the monoisotopic/average switch is '
      'forwarded at every resolved call of the mass call graph; mass() reads every modification-bearing field and '
      'adds (+=) every mod_mass result into the accumulator returned through adjust_mass (residue-count factor on '
      'static rules, multiplier at the Mod unwrap); charge, ion_type, isotope, loss, charge_adducts, monoisotopic '
      'are in the backward slice of every value return of mass/mz/adjust_mass/adjust_mz/chem_mass; mono/average '
      'tables are paired wherever the switch selects between tables; per syntactic path adjust_mass returns one of '
      'the six reference affine forms; adduct mass is homogeneous in the ion count; residue compositions, termini, '
      'particle masses and 15 isotope masses equal CODATA/NIST references; derived float tables are comprehensions '
      'over the right composition table in the promised mode. These are the input classes the suite never visits '
      '(average mode x named modification, loss x isotope label, counts != 1).',
      'Not decided: numeric agreement to 1e-5/2e-3 Da for every input, float summation order, every Unimod row. '
      'Known finding: _parse_adduct_mass is not homogeneous in the ion count (two doctests pin the wrong values).',
      'DESIGN.md section 4 C02')

claim('C03',
      'sibling-table evaluation (adduct grammar interpreter vs composition table), accumulator parity with '
      'control-dependence guards, forwarding, dispatch-order comparison of the two resolvers',
      'Decides the points where the two calculators keep one quantity twice: every ion type\'s charge carrier as '
      'adduct string vs as composition (exact), equal key sets and merged tables, derived float tables; the same '
      'modification fields feed the three accumulators and the labile contribution is control-dependent on '
      'ion_type == p in all three; call order condense -> split -> composition in comp_mass; adduct mass degree; '
      'forwarding of monoisotopic/use_isotope_on_mods/isotope_mods/charge_adducts/ion_type/isotope/charge between '
      'the calculators; both Mod unwrap sites scale by the multiplier; estimate_comp and ISOTOPIC_AVERAGINE_MASS '
      'range over the same ratio table; particle keys e/p/n map to their constants; proton mass vs H+ composition; '
      'the mass and composition resolvers test the same vocabularies in the same order.',
      'Not decided: numeric agreement for every annotation, averagine estimation error, table data values. '
      'Known finding shared with C02 (adduct mass for counts != 1).',
      'DESIGN.md section 4 C03')

claim('C05',
      'exact integer-vector identities on the evaluated composition tables + path polynomials of the offset '
      'application',
      'The series relation is linear, so it splits into table identities and an application shape, both decided '
      'for all peptides at once: b+y = M+2H+, a=b-CO, c=b+NH3, x=y+CO-H2, z=y-NH3, immonium=residue-CO+H+, by/ay/cy, '
      'pairing END[f]+START[b] for all nine internal types, every ion singly charged, series sets partition the '
      'valid ion types (evaluated from constants.py, compared with reference chemistry in the checker); per '
      'syntactic path adjust_mass = base + ADJ[ion] + charge carrier + isotope*neutron + loss with (charge-1) '
      'protons + ion offset for fragments; adjust_mz = m/charge; _build_fragments feeds '
      'sum(components[start:stop]) and the loop elements of charges/ion_types/isotopes/losses.',
      'Not decided: hydrogen bookkeeping of internal ions with an x/z N-terminus (not fixed by the statement); '
      'numeric values to 1e-5 Da (depend on chem.txt; listed isotopes are checked under C02).',
      'DESIGN.md section 4 C05')

claim('C10',
      'writer/reader prefix-table extraction, strip-idiom classification against a data fact recomputed from the '
      'bundled OBO files, dispatch-order comparison, look-up-order extraction',
      'Decides: per vocabulary the prefixes recognised, stripped and listed in the delta-mass parser are the same '
      'set, tested case-folded; a prefix stripper keeps the whole remainder after the first colon whenever the '
      'vocabulary\'s bundled name table contains a colon (215 of 1523 Unimod names today); mass and composition '
      'resolvers test the same vocabularies with tag-strip, number, PSI-MOD, Unimod in the same order and both take '
      'the first resolvable | alternative; id -> name (-> synonym) look-up order in both resolvers; monoisotopic '
      'forwarded through the vocabulary resolvers; both unwrap sites scale by the multiplier.',
      'Not decided: that each of ~4600 rows gives the same number through each spelling; numeric self-consistency '
      'of tabulated mass vs composition (data values).',
      'DESIGN.md section 4 C10')

claim('C01',
      'writer/reader delimiter-table extraction by path condition, field-coverage slices, forwarding',
      'Decides necessary conditions of the round trip for every string at once: the table feature -> (bracket pair, '
      'marker literal, link token) extracted from the serializer is accepted by the parser for the same feature '
      '(extracted from the cursor-character equalities that dominate each _add_<feature> call); feature selectors '
      'are disjoint; all 11 annotation fields flow through the parser result builder, the per-chain reset, the '
      'serializer, __eq__ and dict(); Interval/Mod fields through serializer, __eq__, __hash__; include_plus reaches '
      'every Mod.serialize; interval bounds are Boundaries and residue modifications Positions on both sides.',
      'Not decided: that parse builds exactly the denoted structure for every grammatical string, '
      'parse(serialize(a)) == a, index bookkeeping, value canonicalisation (value-level over an unbounded language). '
      'Known finding: the serializer joins cross-linked chains with two backslashes while the parser recognises // '
      '(pinned by tests).',
      'DESIGN.md section 4 C01')

claim('C09',
      'cursor typestate analysis over the parser class, Union-field guard rule, raise/handler discipline over the '
      'resolved call graph, loop-progress check on every syntactic path',
      'Every operation that can raise in the call graph rooted at parse() is an obligation discharged for all '
      'inputs: reads at the cursor happen only in a bounds-checked state (typestate with inferred method '
      'summaries), str-only operations on Mod.val are guarded by isinstance, every explicit raise is in the '
      'ValueError family, every cursor loop advances/returns/raises/breaks on each syntactic path and the start '
      'phase returns without consuming only on characters the middle phase consumes (termination). Deferred clause: '
      'in the graphs rooted at mod_mass/mod_comp/_parse_mod_delta_mass_only raises are ValueError subclasses, '
      'handlers re-raise or are in the reviewed table, the resolvers end in a raise, accumulating callers wrap no '
      'resolver call in a swallowing handler.',
      'Not decided: serialisability of every returned annotation; exceptions of the charge-adduct sub-grammar at '
      'mass time. Assumes advancing helper calls consume at least one character when guarded by their cursor test.',
      'DESIGN.md section 4 C09')

claim('C04',
      'projection agreement by symbolic substitution of constructor bindings into derived properties, exhaustive '
      'dispatch, forwarding completeness, strip rule computed from slice/mass field sets',
      'Decides: the five non-fragment return types append exactly the projections (number/label via substituted '
      'property bodies, mass, mz, tuples) of the Fragment the fragment branch builds, with local aliases resolved '
      'to their provenance; all six return types handled; Fragmenter forwards every parameter under its own name '
      'and builds its cache with the same expression as fragment(); loss/isotope/charge/ion_type reach every value '
      'return of mass(); series routing uses the same partitioning sets as get_number with forward number = end and '
      'backward number = n - start; before mass() is summed over one-residue pieces every whole-peptide field that '
      'slice copies to each piece and mass() reads is popped, overridden or rejected.',
      'Not decided: number of spans per series, uniqueness of ions, float equality of the incremental sum with the '
      'direct calculator.',
      'DESIGN.md section 4 C04')

claim('C07',
      'branch-agreement extraction on the return-type dispatcher, exhaustive dispatch, forwarding completeness, '
      'inplace-twin and index-kind rules on slice, effect summaries',
      'Decides: every peptide-producing expression of the dispatcher (9) cuts with exactly (span[0], span[1]) over '
      'all spans, the string fast path is taken only under `not annotation.has_mods()`, tuple forms carry the span '
      'the peptide was cut with, result forms match the return type; all five return types handled; '
      'digest_from_config / sequential_digest (both call sites identical) / the three generators / '
      'span_to_sequence forward every parameter; slice re-bases Positions and Boundaries correctly, rewrites exactly '
      'the position-bearing fields and behaves identically in place; the subsequence search enumerates overlapping '
      'occurrences; the digest functions neither write the protein annotation nor hand out aliases of it.',
      'Not decided: that slice re-indexes correctly for every (s, e), mass conservation across a digest, that the '
      'search re-locates every peptide (value-level).',
      'DESIGN.md section 4 C07')

claim('C11',
      'inplace-twin comparison (field-update multisets + read-after-overwrite), index-kind polynomials '
      '(Position vs Boundary), field-rewrite sets, effect summaries, forwarding',
      'Decides: for the 7 methods with an inplace switch the in-place branch applies the same field updates as the '
      'copy branch and reads no field of self after overwriting it; reverse maps Positions p -> n-1-p and interval '
      'Boundaries (s,e) -> (n-e, n-s), slice re-bases p -> p-start on start <= p < stop and b -> max(0, b-start), '
      'shift maps p -> (p-k) mod n with the residues rotated by the same k (as polynomial normal forms); each '
      'reordering method rewrites exactly the position-bearing fields, termini swap only under swap_terms; the '
      'non-inplace forms do not write self and no reordering uses the process RNG; the module wrappers forward '
      'include_plus/swap_terms/seed/n.',
      'Not decided: that the index maps are the right permutations for every input, slice composition, '
      'split-then-join identity, mass invariance (value-level index arithmetic).',
      'DESIGN.md section 4 C11')

claim('C12',
      'sibling-literal and shape comparison across the three static-rule interpreters, control-dependence of the '
      'isotope substitution, separator-table extraction, route condition + backward slices',
      'Decides: mass fast path, composition path and condensation read the same two special targets, skip exactly '
      'them in the residue loop, count every occurrence of a targeted residue and parse the static_mods field; the '
      'isotope substitution labels the sequence composition on both branches and the modification composition only '
      'under use_isotope_on_mods (flag forwarded mass -> comp_mass -> _sequence_comp) and moves the whole element '
      'count; static-rule writer/parser agree on @ , and []; D/T are filed under H and the element is the label '
      'minus digits; mass() takes the composition route exactly when labels are present and every parameter '
      'reaches both returns.',
      'Not decided: equality of masses/compositions/fragments between global and explicit form for every rule; '
      'per-residue pieces carrying terminal static rules (value-level consequence of slice semantics).',
      'DESIGN.md section 4 C12')

claim('C13',
      'dispatch-chain extraction on `mode` with adder-flag comparison, exhaustive dispatch against the literal, '
      'site-computation call rules, effect summaries, forwarding',
      'Decides: in all four mode chains overwrite -> adder(append=False), append -> adder(append=True), skip -> '
      'continue, unmodified site -> appended, else -> raise ValueError, handled set == ModMode == MOD_MODE_VALUES; '
      'all four site computations call get_regex_match_indices(annotation.sequence, rule, offset=-1); terminal rules '
      'test index 0 / len-1; the builders edit and hand out only copies; mode/return_type/max_mods are forwarded.',
      'Not decided: that the recursion enumerates every eligible subset exactly once, max_mods accounting with '
      'pre-existing modifications, idempotence of skip mode (combinatorial, value-level).',
      'DESIGN.md section 4 C13')

claim('C14',
      'must-use rule on the particle-offset definition (allowed control dependences), forwarding completeness by '
      'parameter name, sibling table selection, effect summaries',
      'Decides: the e/p/n mass offset is built from all three counts with the matching constants and every use of '
      'it is control dependent only on the output-mode switches (not on whether the formula is fractional); '
      'estimate_isotopic_distribution passes each of its ten options to the same-named parameter; the two isotope '
      'tables are selected by one use_neutron_count test; sum-normalisation only under is_abundance_sum and '
      'unconditional scaling by distribution_abundance; arguments are not edited.',
      'Not decided: normalisation, sortedness, the mean identity, multinomial comparison, binning (numeric '
      'properties of convolutions). Known finding: in the neutron-offset view with output masses the offset is '
      'still applied only for fractional formulas (a doctest pins that view).',
      'DESIGN.md section 4 C14')

claim('C15',
      'token-pattern constants evaluated against the writer\'s key/count alphabet, predicate normal forms compared '
      'across three sites, accumulate-idiom rule on the parser loops',
      'Decides: every unbracketed key the writer can emit (all bundled element symbols + e/p/n) is tokenised whole '
      'by the reader pattern with signed int and decimal counts, element and count alphabets are disjoint, '
      'bracketed components are split off and dispatched to the isotope parser; the isotope-key predicate is the '
      'same in the writer, in chem_mass and (D/T) in the component parser and the writer brackets exactly under it; '
      'every store into a formula result dictionary accumulates; zero counts are dropped on both writer branches; '
      'chem_mass(str) parses with the caller\'s separator; glycan look-ups go name then synonym in both resolvers '
      'and the glycan writer always writes the count.',
      'Not decided: equality of the re-parsed composition for every composition, additivity of float masses. The '
      'pattern constants are evaluated with the stdlib regex engine on a finite symbol table (a table check).',
      'DESIGN.md section 4 C15')

claim('C16',
      'call-site rule on occurrence-enumerating regex scans (with reviewed exemption table), forwarding, sibling '
      'range comparison, effect summaries',
      'Decides: the scans that enumerate occurrences of the query in the target (is_subsequence, find_indices, '
      'get_regex_match_indices) pass overlapped=True and any new finditer/findall site outside the reviewed table '
      'must too; ignore_mods is forwarded percent_coverage -> coverage -> find_subsequence_indices and strips both '
      'operands; the query searches itself in the target; accumulate and binary coverage mark the same half-open '
      'range [i, i+len(query)); the search and counting functions do not write their arguments.',
      'Not decided: coverage arithmetic, percent in [0,1], multiset containment semantics (value-level).',
      'DESIGN.md section 4 C16')

claim('C17',
      'attribute-resolution rule on typed receivers, validated-vs-handled value sets, forwarding, effect summaries',
      'Decides: every attribute read on a value of a repository class in score.py resolves to a member of that '
      'class; match_spectra handles exactly the modes it validates and get_fragment_matches validates the same set; '
      'tolerance_type is validated against {ppm, th}; tolerance_value/tolerance_type/mode/intensity_spectra are '
      'forwarded through the matching chain and peaks are sorted together with their intensities; the caller\'s '
      'lists are not reordered.',
      'Not decided: correctness of the two-pointer sweep, tie handling, inclusiveness of bounds, fraction in [0,1].',
      'DESIGN.md section 4 C17')

claim('C18',
      'strip rule computed from slice/mass field sets, provenance of written values, forwarding/backward slices, '
      'effect summary',
      'Decides: before mass(piece) - mass(stripped piece) is summed, every whole-peptide field that slice copies '
      'to every piece and mass() reads (labile, unknown-position, charge, adducts) is popped; the result starts from '
      'strip() and every modification written into it is round(<mass>, precision); include_plus reaches the '
      'serializer, precision every rounding; the argument annotation is not written.',
      'Not decided: mass preservation within rounding for every annotation (float); intervals (clipped, not '
      'copied, by slicing) are outside the rule.',
      'DESIGN.md section 4 C18')

claim('C19',
      'call-mapping rule (method name -> itertools function and arguments), alpha-normalised clone comparison of '
      'the four method bodies, key agreement with pop_mods, effect summaries',
      'Decides: each method enumerates with the itertools function of its own name on (serialized residue pieces, '
      'size|repeat), None means len(self), each module function delegates to the same-named method with its size; '
      'the four bodies are identical modulo the itertools function and local names; start/end text are serialized '
      'from self before anything is popped and every result is parse(start + join(pieces) + end); the residue '
      'modifications are read back under the key pop_mods files them under; self is not edited.',
      'Not decided: the counts n!/(n-k)!, C(n,k), ..., ordering, that every result parses.',
      'DESIGN.md section 4 C19')

claim('C20',
      'produced-vs-consumed key tables, field-coverage slices, hash/eq field parity, effect summaries',
      'Decides: every key mod_dict() or pop_mods() can produce is consumed by add_mod_dict() and routed to the same '
      'field (integer keys to residue modifications); __eq__ and dict() cover all 11 fields, mod_dict / pop_mods / '
      'strip(inplace) / has_mods / clear_empty_mods the 10 modification fields, create_annotation passes all 11; '
      'Mod/Interval __hash__ use exactly the fields __eq__ compares, interval hash is order-insensitive, list '
      'equality is a Counter comparison; copy()/dict()/mod_dict() share nothing with self, setters store copies, '
      'create_annotation does not capture.',
      'Not decided: add_mods(strip(s), get_mods(s)) == s for every s; that equality distinguishes every '
      'perturbation (value-level).',
      'DESIGN.md section 4 C20')


# ---- second build session (DESIGN.md 10.7): guards decided over finite orderings, role-anchored rules -------------
G = 'guards evaluated three-valued over a finite set of orderings (sa/guards.py)'
extend('C02', 'Also: a choice between a monoisotopic and an average table is decided by the monoisotopic switch alone; '
              'every modification source (six fields, three kinds of static target) has an additive mod_mass term; '
              'the table builders of element_setup.py key each element by the most abundant isotope (recognised by '
              'role, not by variable name).')
extend('C03', 'Also: mass() and _sequence_comp resolve modifications from the same nine sources; the averagine '
              'estimate is the plain product ratio x mass / ISOTOPIC_AVERAGINE_MASS (no clamp, rounding or offset); '
              'Unimod composition tokens that are also element symbols are read the way that reproduces the '
              'entry\'s own tabulated mass.')
extend('C04', 'Also: read once per return type by path specialisation (== chains, `in` tests and merged branches '
              'alike); get_losses enumerates combinations of every size 2..max_losses whenever max_losses > 1 '
              '(guards decided over max_losses x matching sites); a return of _get_mass_components that bypasses '
              'mass() is guarded on every modification field not popped before; has_mods covers all ten fields.', G)
extend('C05', 'Also: no return of _get_mass_components bypasses mass() unless guarded on every remaining '
              'modification field.')
extend('C07', 'Also: slice keeps exactly start <= k < stop (decided over all orderings of k, start, stop in a small '
              'range) and leaves the loop over the unordered position map early only over sorted(...); "not found" '
              'exits of the search do not depend on modifications elsewhere in the target; equality does not tell '
              'an empty position map from an absent one; has_mods covers all ten fields.', G)
extend('C09', 'Also: look-ahead reads self.sequence[self.position + k] are dominated by a test of that index against '
              'the length.')
extend('C10', 'Also: prefix strippers cut the remainder from the caller\'s text, not from the case-folded copy '
              '(data fact: bundled names with capitals).')
extend('C11', 'Also: the filter and the early-exit condition of slice are decided over a finite set of orderings; '
              'index maps are anchored by role (the key stored into the new position map, the Interval(...) '
              'arguments), not by variable names.', G)
extend('C12', 'Also: the isotope relabelling runs for every listed element with a non-zero count, negative counts '
              'included (guards decided over count signs); no loop stores one rule list under several targets.', G)
extend('C13', 'Also: in every mode chain the conflict test has_<site>... guards the adder add_<site>... of the same '
              'site.')
extend('C14', 'Also: a labelled isotope is a single peak at offset 0 in the neutron-offset table and at its own mass in '
              'the mass table; the merged pattern starts empty and every pattern passes through the same '
              'round-then-accumulate loop.')
extend('C15', 'Also: the caller\'s separator never reaches a regular expression unescaped; the default count 1 is '
              'chosen by the presence of the count text, so an explicit 0 (bundled H0O3S1) stays 0.')
extend('C16', 'Also: coverage searches every listed subsequence with 1 <= len(query) <= len(target) (skip guards '
              'decided over (q, n)); "not found" exits do not depend on modifications elsewhere in the target; '
              'equality does not tell an empty position map from an absent one.', G)
extend('C17', 'Also: every comparison against a tolerance window keeps equality inside the closed window (peak < lower '
              'skips, peak <= upper includes, windows are disjoint only if lower > other upper); operands are '
              'classified by role (lower/upper bound, peak).')
extend('C18', 'Also: the mass inside the final round(..., precision) does not itself depend on precision (rounded '
              'once); has_mods covers all ten fields (it guards the fast path of slice/split used here).')
extend('C20', 'Also: equality does not separate annotations by presence of the position map while slice can leave an '
              'empty one.')


# ---- third and fourth build sessions (DESIGN.md 10.9, 10.10) -------------------------------------------------------
E_ = 'emission tree of the serializer parts (sa/emit.py: helpers inlined, aliases substituted, guard clauses and ' \
     'conditional expressions normalised) evaluated by the checker on small representative annotations and compared ' \
     'with the text the parser reads the same structure from'
extend('C01', 'Also: the middle serializer writes, for every set of up to three distinct non-overlapping intervals over '
              'three residues (adjacent and empty ones included, every residue modified) in every order of the '
              'interval list, exactly the reference text built from the parser\'s own markers: closings of intervals '
              'opened earlier, then empty intervals whole, then openings, then the residue, then its modifications; '
              'an absent or empty interval list / position map writes the residues only; per-interval parser state is '
              'bound anew when an interval opens; no fixed-digit rounding or format spec on a value path.', E_)
extend('C02', 'Also: every read of a MONOISOTOPIC_*/AVERAGE_* table in a function that takes the switch is control '
              'dependent on a test of the switch; a subtotal that is added to and used inside one loop is bound anew '
              'in that loop (mass_calc, chem_calc); a returned value that does not depend on the switch is built from '
              'the parameters and built-ins only.')
extend('C03', 'Also: charge_adducts is tested only for presence/type where default carriers are decided; a delta-mass '
              'modification is multiplied by its ^n multiplier in both calculators; `D[K] = D.get(K, 0) + ...` reads '
              'the entry it writes; a subtotal used inside the loop that adds to it is reset per iteration.')
extend('C04', 'Also: terminal targets of static rules, interval modifications and a global label on terminal groups are '
              'neutralised before per-residue masses are summed (premises read from mass() and slice() on every run); '
              'each fragment builder receives the ion types of its own series; a __post_init__ that rewrites a field '
              'is substituted into the projection rule.')
extend('C09', 'Also: a handler is accepted when the guarded block calls nothing but built-in conversions (no resolver '
              'error can arrive there) -- the reviewed table keeps only handlers around repository calls; a helper '
              'parser moves its position cursor exactly once per iteration; the front ends end in a raise of a '
              'ValueError subclass or in `return x` right after `if x is None: raise`.')
extend('C10', 'Also: dispatch tables of (predicate, handler) rows are read as the if-chain they stand for '
              '(sa/unroll.py); startswith with a tuple of prefixes; the first resolvable `|` alternative as a loop or '
              'as next(<results that are not None>).')
extend('C11', 'Also: the serializer rule above for every order of the interval list (reverse() leaves it descending); '
              'the end Boundary map of shift; the semantic terminal swap of reverse(swap_terms).', E_)
extend('C12', 'Also: condense_static_mods writes the rule list itself (unfiltered); static interpreters agree on the '
              'keys they accept.')
extend('C13', 'Also: decision table over mode x already-modified site by specialisation; the conflict test is asked of '
              'the input, not of the copy being edited; the per-site store accumulates; on every yield path the index '
              'is <match start> + offset.')
extend('C14', 'Also: the function specialised for use_neutron_count in {True, False} reads the neutron-offset table / the '
              'mass table and no table in both; the average atomic mass is the abundance-weighted sum over the isotope '
              'rows the patterns are built from.', 'specialisation of the function under both values of the option')
extend('C15', 'Also: two adjacent (key, count)(key, count) components are tokenised as two (240 pairs including the '
              'electron key); a fresh count per component.')
extend('C16', 'Also: multiset size and support size are not equated in the containment test; no equality test walks '
              'two collections with a truncating zip.')
extend('C17', 'Also: the chosen peak is located inside the window and re-based by the window start; matched peaks are '
              'identified by the observed m/z.')
extend('C18', 'Also: the rounded value is read through locals and small helpers; interval modifications are condensed '
              'on the interval; terminal static targets once.')
extend('C19', 'Also: per-method summaries instead of body comparison: the pieces enumerated, how residue '
              'modifications get back onto the working copy, the template every result is parsed from '
              '(concatenation and f-strings flattened), the size handed to itertools for None/3/9 (specialisation); '
              'every return hands back the list built from the itertools enumeration (no shortcut result).',
       'per-method summaries by symbolic resolution and specialisation')
extend('C20', 'Also: the serializer rule above (positions, any order, absent vs empty containers); has_mods covers all '
              'ten fields; produced and consumed keys of pop_mods/add_mod_dict also when table-driven.', E_)


# ---- fifth / sixth rounds (DESIGN.md 10.11, 10.12) ------------------------------------------------------------------
N_ = 'functions that differ from the reference inventory are normalised first (sa/normalise.py: new helpers, generators, ' \
     'records, tables and functional forms are read through; nothing is executed)'
for _pid in ('C01', 'C02', 'C03', 'C04', 'C05', 'C07', 'C09', 'C10', 'C11', 'C12', 'C13', 'C14', 'C15', 'C16', 'C17', 'C18',
             'C19', 'C20', 'C06', 'C08'):
    extend(_pid, None, N_)
extend('C02', 'Also: a parameter declared Optional[int|float] (precision, charge, ...) is only compared with None, never '
              'used as a truth value (0 is a value); a memo key determines the memoised value.')
extend('C09', 'Also: the scanning loop of the formula tokenizer moves its cursor for every class of the current character '
              '(each literal it is compared with, and any other) -- decided by case analysis, the character being touched '
              'only through comparisons.', 'case analysis over the character classes of a scanning loop')
extend('C12', 'Also: atoms of the ion-type adjustment and of the charge carriers are added to the always-labelled '
              'accumulator before the isotope substitution.')
extend('C13', 'Also: a terminal form made by apply_static_mods(BASE, ..) is expanded only under a comparison with BASE; '
              'the +1 shift of a consuming match is decided on the match whose index is yielded.')
extend('C18', 'Also: optional numbers compared with None only; memo keys determine the memoised value.')


# ---- seventh / eighth rounds (DESIGN.md 10.13, 10.14) -----------------------------------------------------------------
extend('C03', 'Also: the guard in front of the labile modifications is true exactly for the precursor ion type (decided per '
              'ion type of the repository\'s table); a module-level dictionary written and read in one function is a memo '
              'whose key must determine the value; the mass the averagine composition is scaled by is the parameter itself.')
extend('C06', 'Also: a return that hands out bare residues next to a general return through slice/split/serialize is taken '
              'only when none of the ten has_<kind>() questions is true (guard evaluated on the ten single-kind cases).',
       'guards evaluated on the finite set of single-kind annotations')
extend('C09', 'Also: the multiplier handed to Mod(..) is 1 or int(<text>) on every path; in mass()/comp() no test that decides '
              'whether the resolver runs reads the sequence (an unresolvable static rule raises whether or not its residue '
              'occurs); look-ahead reads indexed by the variable of a range loop bounded by the input length are accepted.')
extend('C10', 'Also: a memo shared by several vocabularies has the vocabulary in its key (key determines value).')
extend('C15', 'Also: the key a formula component is stored under is followed back from the store to the match: a literal '
              'table on the way is the identity on every valid symbol / isotope key, a case conversion leaves them unchanged.',
       'provenance of dictionary keys (def-use closure, literal tables evaluated on the key alphabet)')
extend('C16', 'Also: where C-terminal modifications of X are dropped under a length test the length is X\'s; unmodified fast '
              'paths are guarded against all ten kinds; rows written in place are separate objects (no dict.fromkeys(K, '
              '<mutable>) / [<mutable>] * n under an element write).')
extend('C17', 'Also: coverage rows written in place are separate objects.')
extend('C20', 'Also: __eq__ walks the modified positions of both operands (or compares the key sets outright); copy()/dict()/'
              'mod_dict() share nothing with self one level further down (interval modification lists); a bound check on '
              'intervals accepts the half-open end == len(sequence) the parser produces.')
extend('C17', 'Also: no look-up table of fragments / peaks is keyed by a measured value alone (m/z, mass, intensity).')
extend('C13', 'Also: the conflict mode of the static builder is evaluated with the module-level list of valid modes known, '
              'through helpers that return on part of their paths.')
extend('C04', 'Also: the per-site loss list may be built with repeat(loss, len(findall(..))); rules about fragment() fail '
              'closed when the series builders are not called from it in a form that is read.')
