#!/venv/bin/python
"""seed_index.py: recompute, with the checker as it is now, which properties report a VIOLATION (new finding) for each
stored seeded change; writes /verif/seeded/index.json, which the thorough tier replays as kill variants.
Scratch copies only (HEAD of /repo + patch); /repo and /verif/evidence are not touched."""
import glob, json, os, shutil, sys, warnings
from concurrent.futures import ProcessPoolExecutor
sys.path.insert(0, '/verif')
sys.path.insert(0, '/verif/tools')
from triage_seed import scratch, _run, PROPS


def main():
    seeds = sorted(glob.glob('/verif/seeded/C*-*'))
    only = [a for a in sys.argv[1:] if not a.startswith('-')]      # seed_index.py C17 C06-5 ...: recompute those only
    if only:
        seeds = [s for s in seeds if any(os.path.basename(s) == o or os.path.basename(s).startswith(o + '-') for o in only)]
    base_root = scratch()
    index = {}
    with ProcessPoolExecutor(max_workers=16) as ex:
        base = {p: (k, e) for p, k, e in ex.map(_run, [(p, base_root) for p in PROPS])}
        shutil.rmtree(base_root)
        for seed in seeds:
            sid = os.path.basename(seed)
            try:
                root = scratch(os.path.join(seed, 'patch.diff'))
            except RuntimeError as e:
                index[sid] = {'applies': False, 'violations': [], 'errors_only': []}
                print(sid, 'patch does not apply to HEAD'); continue
            try:
                viol, err = [], []
                for p, keys, errs in ex.map(_run, [(p, root) for p in PROPS]):
                    new = [k for k in keys if k not in base[p][0]]
                    nerr = [e for e in errs if e not in base[p][1]]
                    if new:
                        viol.append(p)
                    elif nerr:
                        err.append(p)
                index[sid] = {'applies': True, 'violations': viol, 'errors_only': err}
                print(sid, viol or 'MISSED', ('errors only: ' + str(err)) if err else '', flush=True)
            finally:
                shutil.rmtree(root, ignore_errors=True)
    if only:
        full = json.load(open('/verif/seeded/index.json'))
        full.update(index)
        index = full
    json.dump(index, open('/verif/seeded/index.json', 'w'), indent=1, sort_keys=True)


if __name__ == '__main__':
    main()
