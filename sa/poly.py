"""
poly: polynomial normal forms of straight-line arithmetic, per syntactic path through `if` / conditional
expressions.  Names are indeterminates, table look-ups and calls are opaque atoms.  No solver, no feasibility
reasoning: this is value numbering over an abstract domain.
"""
import ast
from fractions import Fraction
from typing import Dict, List, Tuple, Optional

from .loader import norm_stmt, AnalysisError

Mono = Tuple[Tuple[str, int], ...]
Poly = Dict[Mono, Fraction]


def const(c) -> Poly:
    c = Fraction(c).limit_denominator(10 ** 12) if not isinstance(c, Fraction) else c
    return {(): c} if c != 0 else {}


def atom(name: str) -> Poly:
    return {((name, 1),): Fraction(1)}


def padd(a: Poly, b: Poly, sign: int = 1) -> Poly:
    out = dict(a)
    for m, c in b.items():
        out[m] = out.get(m, Fraction(0)) + sign * c
        if out[m] == 0:
            del out[m]
    return out


def pmul(a: Poly, b: Poly) -> Poly:
    out: Poly = {}
    for m1, c1 in a.items():
        for m2, c2 in b.items():
            d: Dict[str, int] = {}
            for n, p in m1 + m2:
                d[n] = d.get(n, 0) + p
            m = tuple(sorted((n, p) for n, p in d.items() if p != 0))
            out[m] = out.get(m, Fraction(0)) + c1 * c2
            if out[m] == 0:
                del out[m]
    return out


def pdiv_atom(a: Poly, name: str) -> Poly:
    return pmul(a, {((name, -1),): Fraction(1)})


def fmt(p: Poly) -> str:
    if not p:
        return '0'
    parts = []
    for m, c in sorted(p.items(), key=lambda kv: (len(kv[0]), kv[0])):
        mono = '*'.join(n if e == 1 else f'{n}^{e}' for n, e in m)
        if mono:
            parts.append(f'{"" if c == 1 else ("-" if c == -1 else str(c) + "*")}{mono}')
        else:
            parts.append(str(c))
    return ' + '.join(parts).replace('+ -', '- ')


class PathEval:
    """enumerates (path condition, returned polynomial) pairs of a loop-free function"""

    def __init__(self, fnode: ast.FunctionDef, assume: Dict[str, bool], opaque_calls=True, resolver=None, depth=0):
        self.fnode = fnode
        # normalised condition text -> truth value (branches not explored); keys are canonicalised like the tests
        self.assume = {}
        for k, v in assume.items():
            try:
                t, pol = self.canon(ast.parse(k, mode='eval').body)
                self.assume[t] = v if pol else (not v)
            except SyntaxError:
                self.assume[k] = v
        self.resolver = resolver  # name -> ast.FunctionDef of a helper defined next to this function (or None)
        self.depth = depth
        self.arg_polys = None
        self.results: List[Tuple[Tuple[Tuple[str, bool], ...], Poly]] = []

    def run(self):
        env = {a.arg: atom(a.arg) for a in self.fnode.args.args + self.fnode.args.kwonlyargs}
        if self.arg_polys:
            env.update(self.arg_polys)
        self._block(list(self.fnode.body), env, ())
        return self.results

    def _block(self, stmts, env, cond):
        if not stmts:
            return
        st, rest = stmts[0], stmts[1:]
        if isinstance(st, ast.Expr) and isinstance(st.value, ast.Constant):
            return self._block(rest, env, cond)
        if isinstance(st, ast.Expr) and isinstance(st.value, ast.Yield) and st.value.value is not None:
            # a generator: every yielded value is a result; the path goes on
            for c2, v in self._expr(st.value.value, env, cond):
                self.results.append((c2, v))
            return self._block(rest, env, cond)
        if isinstance(st, ast.Expr) and isinstance(st.value, ast.Call):
            return self._block(rest, env, cond)  # a call for its effect (warnings.warn, logging): no value
        if isinstance(st, ast.Assign) and len(st.targets) == 1 and isinstance(st.targets[0], ast.Name):
            for c2, v in self._expr(st.value, env, cond):
                e2 = dict(env)
                e2[st.targets[0].id] = v
                self._block(rest, e2, c2)
            return
        if isinstance(st, ast.Assign) and len(st.targets) == 1 and isinstance(st.targets[0], ast.Tuple) and \
                all(isinstance(t_, ast.Name) for t_ in st.targets[0].elts):
            e2 = dict(env)
            if isinstance(st.value, ast.Tuple) and len(st.value.elts) == len(st.targets[0].elts):
                combos = [(cond, e2)]
                for t_, v_ in zip(st.targets[0].elts, st.value.elts):
                    combos = [(c2, dict(en, **{t_.id: pv})) for c1, en in combos for c2, pv in self._expr(v_, env, c1)]
                for c2, en in combos:
                    self._block(rest, en, c2)
                return
            for i, t_ in enumerate(st.targets[0].elts):   # a, b = f(x): opaque components of one value
                e2[t_.id] = atom(f'{norm_stmt(st.value)}[{i}]')
            return self._block(rest, e2, cond)
        if isinstance(st, ast.AugAssign) and isinstance(st.target, ast.Name):
            cur = env.get(st.target.id)
            if cur is None:
                raise AnalysisError(f'poly: augmented assignment to unknown name in {norm_stmt(st)}')
            for c2, v in self._expr(st.value, env, cond):
                e2 = dict(env)
                if isinstance(st.op, ast.Add):
                    e2[st.target.id] = padd(cur, v)
                elif isinstance(st.op, ast.Sub):
                    e2[st.target.id] = padd(cur, v, -1)
                elif isinstance(st.op, ast.Mult):
                    e2[st.target.id] = pmul(cur, v)
                else:
                    raise AnalysisError(f'poly: operator not modelled in {norm_stmt(st)}')
                self._block(rest, e2, c2)
            return
        if isinstance(st, ast.If):
            t, pol, known = self._decide(st.test, cond)
            if known is True:
                return self._block(list(st.body) + rest, env, cond)
            if known is False:
                return self._block(list(st.orelse) + rest, env, cond)
            self._block(list(st.body) + rest, dict(env), cond + ((t, pol),))
            self._block(list(st.orelse) + rest, dict(env), cond + ((t, not pol),))
            return
        if isinstance(st, ast.Return):
            if st.value is None:
                return
            for c2, v in self._expr(st.value, env, cond):
                self.results.append((c2, v))
            return
        if isinstance(st, (ast.Raise, ast.Continue, ast.Break, ast.Pass)):
            if isinstance(st, ast.Pass):
                return self._block(rest, env, cond)
            return
        if isinstance(st, ast.For) and not st.orelse:
            # one symbolic iteration: the loop variables are fresh atoms; values yielded / returned inside are results;
            # afterwards the names bound in the body are unknown (atoms of their own)
            e2 = dict(env)
            for x in ast.walk(st.target):
                if isinstance(x, ast.Name):
                    e2[x.id] = atom(x.id)
            self._block(list(st.body), e2, cond)
            e3 = dict(env)
            for x in ast.walk(st):
                if isinstance(x, ast.Name) and isinstance(x.ctx, ast.Store):
                    e3[x.id] = atom(x.id)
            return self._block(rest, e3, cond)
        raise AnalysisError(f'poly: statement not modelled: {norm_stmt(st)}')

    def _assumed(self, text: str) -> Optional[bool]:
        return self.assume.get(text)

    @staticmethod
    def canon(test) -> Tuple[str, bool]:
        """canonical (text, polarity) of a test: `x is True`, `x == True`, `not x`, `x is False` all speak of x"""
        pol = True
        while True:
            if isinstance(test, ast.UnaryOp) and isinstance(test.op, ast.Not):
                test, pol = test.operand, not pol
                continue
            if isinstance(test, ast.Compare) and len(test.ops) == 1 and isinstance(test.comparators[0], ast.Constant) \
                    and isinstance(test.comparators[0].value, bool):
                v = test.comparators[0].value
                if isinstance(test.ops[0], (ast.Is, ast.Eq)):
                    test, pol = test.left, (pol if v else not pol)
                    continue
                if isinstance(test.ops[0], (ast.IsNot, ast.NotEq)):
                    test, pol = test.left, (not pol if v else pol)
                    continue
            # `x is not None` / `x != None`  ==  not (`x is None`)
            if isinstance(test, ast.Compare) and len(test.ops) == 1 and isinstance(test.comparators[0], ast.Constant) \
                    and test.comparators[0].value is None and isinstance(test.ops[0], (ast.IsNot, ast.NotEq)):
                test = ast.Compare(left=test.left, ops=[ast.Is()], comparators=[test.comparators[0]])
                pol = not pol
                continue
            if isinstance(test, ast.Compare) and len(test.ops) == 1 and isinstance(test.comparators[0], ast.Constant) \
                    and test.comparators[0].value is None and isinstance(test.ops[0], ast.Eq):
                test = ast.Compare(left=test.left, ops=[ast.Is()], comparators=[test.comparators[0]])
                continue
            break
        return norm_stmt(test), pol

    def _decide(self, test, cond):
        """-> (text, polarity, decided truth or None)"""
        t, pol = self.canon(test)
        known = self.assume.get(t)
        if known is None:
            for ct, cv in cond:
                if ct == t:
                    known = cv
        if known is None:
            return t, pol, None
        return t, pol, (known if pol else not known)

    def _expr(self, e, env, cond) -> List[Tuple[tuple, Poly]]:
        if isinstance(e, ast.Constant) and isinstance(e.value, (int, float)) and not isinstance(e.value, bool):
            return [(cond, const(Fraction(str(e.value))))]
        if isinstance(e, ast.Constant) and (e.value is None or isinstance(e.value, (bool, str))):
            return [(cond, atom(repr(e.value)))]      # not a number: an opaque value (a "not decided yet" marker)
        if isinstance(e, ast.Name):
            if e.id in env:
                return [(cond, env[e.id])]
            return [(cond, atom(e.id))]
        if isinstance(e, ast.BinOp):
            out = []
            for c1, a in self._expr(e.left, env, cond):
                for c2, b in self._expr(e.right, env, c1):
                    if isinstance(e.op, ast.Add):
                        out.append((c2, padd(a, b)))
                    elif isinstance(e.op, ast.Sub):
                        out.append((c2, padd(a, b, -1)))
                    elif isinstance(e.op, ast.Mult):
                        out.append((c2, pmul(a, b)))
                    elif isinstance(e.op, ast.Div):
                        if len(b) == 1 and list(b.values())[0] == 1 and len(list(b)[0]) == 1 and list(b)[0][0][1] == 1:
                            out.append((c2, pdiv_atom(a, list(b)[0][0][0])))
                        elif len(b) == 1 and () in b:
                            out.append((c2, pmul(a, const(1 / b[()]))))
                        else:
                            out.append((c2, pmul(a, atom(f'1/({fmt(b)})'))))
                    else:
                        raise AnalysisError(f'poly: operator not modelled in {norm_stmt(e)}')
            return out
        if isinstance(e, ast.UnaryOp) and isinstance(e.op, ast.USub):
            return [(c, pmul(v, const(-1))) for c, v in self._expr(e.operand, env, cond)]
        if isinstance(e, ast.IfExp):
            t, pol, known = self._decide(e.test, cond)
            if known is True:
                return self._expr(e.body, env, cond)
            if known is False:
                return self._expr(e.orelse, env, cond)
            return self._expr(e.body, env, cond + ((t, pol),)) + self._expr(e.orelse, env, cond + ((t, not pol),))
        if isinstance(e, ast.Subscript) and isinstance(e.value, ast.Name):
            if e.value.id in env:
                # a local that stands for a table (`t = A if flag else B; t[k]`): the table it is bound to on this path
                p_ = env[e.value.id]
                if len(p_) == 1 and list(p_.values())[0] == 1 and len(list(p_)[0]) == 1 and list(p_)[0][0][1] == 1:
                    return [(cond, atom(f'{list(p_)[0][0][0]}[{norm_stmt(e.slice)}]'))]
            return [(cond, atom(f'{e.value.id}[{norm_stmt(e.slice)}]'))]
        if isinstance(e, ast.Call):
            fn = norm_stmt(e.func)
            if fn == 'round' and e.args:
                return self._expr(e.args[0], env, cond)  # rounding is not part of the affine shape
            helper = self.resolver(fn) if (self.resolver is not None and isinstance(e.func, ast.Name)) else None
            if helper is not None and self.depth < 3 and not any(isinstance(a, ast.Starred) for a in e.args):
                # a private helper defined next to the function: its paths are evaluated with the arguments bound
                params = [a.arg for a in helper.args.args]
                binds = [(cond, {})]
                for i, a in enumerate(e.args):
                    if i < len(params):
                        binds = [(c2, dict(b, **{params[i]: v})) for c1, b in binds for c2, v in self._expr(a, env, c1)]
                for kw in e.keywords:
                    if kw.arg in params:
                        binds = [(c2, dict(b, **{kw.arg: v})) for c1, b in binds for c2, v in self._expr(kw.value, env, c1)]
                out = []
                defaults = dict(zip(params[len(params) - len(helper.args.defaults):], helper.args.defaults))
                for c1, b in binds:
                    sub = PathEval(helper, {}, resolver=self.resolver, depth=self.depth + 1)
                    sub.assume = dict(self.assume)
                    for pn, dv in defaults.items():
                        if pn not in b and isinstance(dv, ast.Constant) and isinstance(dv.value, (int, float)) and \
                                not isinstance(dv.value, bool):
                            b[pn] = const(Fraction(str(dv.value)))
                    sub.arg_polys = b
                    sub.results = []
                    sub._block(list(helper.body), dict({p_: atom(p_) for p_ in params}, **b), c1)
                    out += sub.results
                if out:
                    return out
            args = []
            for a in e.args:
                args.append(norm_stmt(a))
            for kw in e.keywords:
                args.append(f'{kw.arg}={norm_stmt(kw.value)}')
            return [(cond, atom(f'{fn}({", ".join(args)})'))]
        raise AnalysisError(f'poly: expression not modelled: {norm_stmt(e)}')
