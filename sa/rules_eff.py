"""
R-EFF: frame conditions at the public API, from the summaries computed by absint.

  (a) a non-editor entry point must not write any object owned by the caller (argument, self, or their interior)
  (b) a non-editor entry point must not return (or yield) an object that is, or contains, a caller-owned
      mutable object
  (c) constructors and property setters must not keep a reference to a caller's mutable argument
  (d) no entry point outside the database-loader API writes module-level state; nothing outside
      proforma/randomizer.py uses the process-wide random generator; no mutable default argument is written
      or handed out; no memoising decorator on a function that returns a mutable object

Findings are keyed by the *culprit statement* (deepest public non-editor frame of the witness path), with the
entry points that expose it listed as witnesses -- one defect, one finding.
"""
import ast
from typing import Dict, List, Tuple, Optional, Set

from .loader import Program, FuncInfo, ClassInfo, norm_stmt
from .absint import Analyzer, Summary, Witness
from . import types as ty

IN_SCOPE_CLASSES = ['ProFormaAnnotation', 'MultiProFormaAnnotation', 'Mod', 'Interval', 'Fragment', 'FragmentMatch',
                    'Fragmenter', 'EnzymeConfig']

# reviewed exemptions ---------------------------------------------------------------------------------------
RANDOMIZER_MODULE = 'peptacular.proforma.randomizer'  # exists to draw from the RNG and to decorate annotations
LOADER_MODULE = 'peptacular.mods.mod_db_setup'  # EntryDb + reload_*/reset_* are the database loader API
NORMALISER_MODULE = 'peptacular.proforma.input_convert'  # identity on already-normalised input is the contract
ACCESSOR_METHODS = {'get_internal_mods_by_index', '__iter__'}  # documented accessors of the object's own storage
DUNDER_PUBLIC = {'__eq__', '__hash__', '__len__', '__repr__', '__lt__', '__iter__', '__contains__', '__getitem__',
                 '__str__', '__ne__'}


class Surface:
    def __init__(self, program: Program):
        self.program = program
        self.entries: List[Tuple[FuncInfo, tuple, str]] = []  # (func, spec, label)
        self.public_fqs: Set[str] = set()
        self.editor_fqs: Set[str] = set()
        for f in program.public_functions():
            self.public_fqs.add(f.fq)
            if self.is_editor(f):
                self.editor_fqs.add(f.fq)
        for cname in IN_SCOPE_CLASSES:
            ci = program.find_class(cname)
            if ci is None:
                continue
            for n, m in ci.methods.items():
                if n.startswith('_') and n not in DUNDER_PUBLIC:
                    continue
                self.public_fqs.add(m.fq)
                if self.is_editor(m):
                    self.editor_fqs.add(m.fq)
            for n, m in ci.setters.items():
                self.editor_fqs.add(m.fq)
        for f in program.public_functions():
            if f.fq in self.editor_fqs:
                continue
            self.entries.append((f, self.public_spec(f), f.fq))
        for cname in IN_SCOPE_CLASSES:
            ci = program.find_class(cname)
            if ci is None:
                continue
            for n, m in ci.methods.items():
                if m.fq not in self.public_fqs or m.fq in self.editor_fqs:
                    continue
                self.entries.append((m, self.public_spec(m), m.fq))

    @staticmethod
    def public_spec(f: FuncInfo) -> tuple:
        if any(p.name == 'inplace' for p in f.params):
            return (('inplace', False),)
        return ()

    @staticmethod
    def is_editor(f: FuncInfo) -> bool:
        n = f.name
        if f.is_setter:
            return True
        if n.startswith('add_') or n.startswith('pop_'):
            return True
        if n in ('clear_empty_mods', '__init__', '__post_init__'):
            return True
        return False


def frames(w: Witness) -> List[Tuple[str, str, str]]:
    """outermost first: (function fq, loc, statement text)"""
    return list(w.path) + [(w.root_fq, w.root_loc, w.root_stmt)]


def culprit(entry_fq: str, w: Witness, surface: Surface) -> Tuple[str, str, str]:
    fr = [(entry_fq, None, None)]
    # each path element is (function in which the call occurs, loc, call text)
    fl = frames(w)
    best = fl[0]
    for fq, loc, text in fl:
        if fq in surface.public_fqs and fq not in surface.editor_fqs:
            best = (fq, loc, text)
        elif fq == entry_fq:
            best = (fq, loc, text)
    return best


class EffResult:
    def __init__(self):
        self.findings: Dict[tuple, dict] = {}  # key -> {rule, module, qualname, construct, loc, message, entries:[...]}
        self.entries_checked = 0
        self.summaries = 0
        self.obligations: List[dict] = []
        self.unknown_alias_notes: List[str] = []


def _add(res: EffResult, rule: str, fq: str, construct: str, loc: str, message: str, entry: str, extra: dict,
         clause: str):
    mod, qual = fq.split(':')
    key = (rule, mod, qual, construct)
    d = res.findings.get(key)
    if d is None:
        d = {'rule': rule, 'module': mod, 'qualname': qual, 'construct': construct, 'loc': loc, 'message': message,
             'entries': [], 'clause': clause}
        res.findings[key] = d
    e = dict(extra)
    e['entry'] = entry
    if e not in d['entries']:
        d['entries'].append(e)


def evaluate(program: Program, an: Analyzer) -> EffResult:
    surf = Surface(program)
    res = EffResult()
    res.summaries = len(an.summaries)
    for f, spec, label in surf.entries:
        s = an.summaries.get((f.fq, spec)) or an.summaries.get((f.fq, ()))
        if s is None:
            continue
        res.entries_checked += 1
        modname = f.module.name
        in_randomizer = modname == RANDOMIZER_MODULE
        in_loader = modname == LOADER_MODULE
        # (a) mutation of arguments
        bad_params = []
        if not in_randomizer and not in_loader and not f.is_cached_property:
            for j, wd in s.mutates.items():
                pname = f.params[j].name if j < len(f.params) else f'#{j}'
                for w in wd.values():
                    cfq, cloc, ctext = culprit(f.fq, w, surf)
                    _add(res, 'EFF-mutates-argument', cfq, ctext, cloc,
                         f'a caller-owned object is written by a call that is not an in-place editor '
                         f'(root store: {w.root_fq} `{w.root_stmt}`, {w.what})',
                         f.fq, {'param': pname, 'witness': w.to_json()}, 'C08a')
                    bad_params.append(pname)
        res.obligations.append({'rule': 'EFF-mutates-argument', 'construct': f'{f.fq} spec={dict(spec)}',
                                'loc': f.loc(), 'ok': not bad_params,
                                'reason': 'no parameter (incl. self) is written on any path' if not bad_params else
                                f'writes {sorted(set(bad_params))}'})
        # (b) aliasing of results
        alias_bad = []
        exempt_alias = (modname == NORMALISER_MODULE or f.is_property or f.name in ACCESSOR_METHODS or in_loader
                        or in_randomizer)
        if not exempt_alias:
            rt_mut = ty.maybe_mutable(s.ret_types)
            for o in s.ret:
                if o[0] in ('P', 'I'):
                    pname = f.params[o[1]].name
                    if rt_mut is True and not ty.shallow_immutable(s.ret_types):
                        what = 'is' if o[0] == 'P' else 'is an object stored inside'
                        _add(res, 'EFF-returns-argument', f.fq, f'returns {"" if o[0] == "P" else "interior of "}'
                                                                 f'parameter {pname}', f.loc(),
                             f'the returned object {what} the caller\'s argument `{pname}`: editing the result '
                             f'edits the argument', f.fq, {'param': pname}, 'C08b')
                        alias_bad.append(pname)
                    elif rt_mut is None:
                        res.unknown_alias_notes.append(f'{f.fq}: returns origin of {pname} with unknown type')
                elif o[0] == 'G' and rt_mut is True and not o[1].startswith('default:'):
                    _add(res, 'EFF-returns-global', f.fq, f'returns module-level object {o[1]}', f.loc(),
                         f'the returned object is the module-level object {o[1]}: editing the result changes '
                         f'process-wide state', f.fq, {}, 'C08d')
                    alias_bad.append(o[1])
                elif o[0] == 'G' and o[1].startswith('default:'):
                    _add(res, 'EFF-mutable-default', f.fq, f'returns mutable default {o[1]}', f.loc(),
                         'a mutable default argument is handed out to the caller (shared across calls)', f.fq, {},
                         'C08d')
                    alias_bad.append(o[1])
            for o in s.ret_inner_known:
                if o[0] in ('P', 'I'):
                    pname = f.params[o[1]].name
                    if f'{pname}' in alias_bad:
                        continue
                    _add(res, 'EFF-result-shares-argument', f.fq,
                         f'result contains {"" if o[0] == "P" else "interior of "}parameter {pname}', f.loc(),
                         f'the returned/yielded value holds a reference to the caller\'s mutable `{pname}` '
                         f'(no copy): editing one changes the other', f.fq, {'param': pname}, 'C08b')
                    alias_bad.append(pname)
                elif o[0] == 'G' and not o[1].startswith('default:'):
                    _add(res, 'EFF-returns-global', f.fq, f'result contains module-level object {o[1]}', f.loc(),
                         f'the returned value holds a reference to module-level object {o[1]}', f.fq, {}, 'C08d')
                    alias_bad.append(o[1])
        res.obligations.append({'rule': 'EFF-result-aliasing', 'construct': f'{f.fq} spec={dict(spec)}',
                                'loc': f.loc(), 'ok': not alias_bad,
                                'reason': ('exempt: ' + ('normaliser' if modname == NORMALISER_MODULE else
                                                         'accessor/loader/randomizer')) if exempt_alias else
                                ('result has no origin in a parameter' if not alias_bad else
                                 f'aliases {sorted(set(alias_bad))}')})
        # (d) process-wide state
        glob_bad = []
        if not in_loader:
            for k, w in s.globals.items():
                gname = k[0]
                cfq, cloc, ctext = culprit(f.fq, w, surf)
                rule = 'EFF-mutable-default' if gname.startswith('default:') else 'EFF-writes-global'
                _add(res, rule, cfq, ctext, cloc,
                     f'module-level state {gname} is written (root store: {w.root_fq} `{w.root_stmt}`)',
                     f.fq, {'global': gname, 'witness': w.to_json()}, 'C08d')
                glob_bad.append(gname)
        if not in_randomizer:
            for k, w in s.rng.items():
                cfq, cloc, ctext = culprit(f.fq, w, surf)
                _add(res, 'EFF-process-rng', w.root_fq, w.root_stmt, w.root_loc,
                     f'{w.what}: the result depends on and/or disturbs the caller\'s random generator',
                     f.fq, {'witness': w.to_json()}, 'C08d')
                glob_bad.append('random')
        res.obligations.append({'rule': 'EFF-process-state', 'construct': f'{f.fq} spec={dict(spec)}',
                                'loc': f.loc(), 'ok': not glob_bad,
                                'reason': 'no write to module-level state, no use of the process RNG' if not glob_bad
                                else f'touches {sorted(set(glob_bad))}'})

    # (c) constructors and setters
    for cname in IN_SCOPE_CLASSES:
        ci = program.find_class(cname)
        if ci is None:
            continue
        cands = []
        init = ci.methods.get('__init__')
        if init is not None:
            cands.append(init)
        cands.extend(ci.setters.values())
        for m in cands:
            s = an.summaries.get((m.fq, ()))
            if s is None:
                continue
            ptypes = an.param_types(m)
            bad = []
            for (src, dst) in s.captures:
                if dst != 0:
                    continue
                j = src[1]
                if j >= len(m.params):
                    continue
                t = ptypes[j]
                if t and ty.maybe_mutable(t) is False:
                    continue
                if src[0] == 'I' and not an_known_mutable_interior(t):
                    continue
                w = s.capture_w.get((src, dst))
                pname = m.params[j].name
                _add(res, 'EFF-captures-argument', m.fq, f'stores parameter {pname} without copying',
                     w.root_loc if w else m.loc(),
                     f'`{w.root_stmt if w else "?"}` keeps a reference to the caller\'s mutable `{pname}` in the '
                     f'object: later edits of either are visible through the other', m.fq,
                     {'param': pname, 'witness': w.to_json() if w else None}, 'C08c')
                bad.append(pname)
            res.obligations.append({'rule': 'EFF-captures-argument', 'construct': m.fq, 'loc': m.loc(),
                                    'ok': not bad,
                                    'reason': 'every stored argument is copied or immutable' if not bad else
                                    f'captures {bad}'})

    # (d) syntactic companions: global statements, memoising decorators, mutable defaults that are written
    for f in program.all_functions():
        for d in f.decorators:
            t = d.func if isinstance(d, ast.Call) else d
            name = ast.unparse(t)
            if name.split('.')[-1] in ('lru_cache', 'cache'):
                s = an.summaries.get((f.fq, ()))
                rt = s.ret_types if s else ty.EMPTY
                if ty.maybe_mutable(rt) is not False and not (rt and ty.shallow_immutable(rt)):
                    _add(res, 'EFF-memoised-mutable', f.fq, f'@{name}', f.loc(),
                         'a memoising decorator on a function that returns a (possibly) mutable object: every '
                         'caller receives the same object, so one caller\'s edit changes later results', f.fq, {},
                         'C08d')
        for n in ast.walk(f.node):
            if isinstance(n, (ast.Global, ast.Nonlocal)) and f.module.name not in (LOADER_MODULE,):
                if isinstance(n, ast.Global):
                    _add(res, 'EFF-writes-global', f.fq, norm_stmt(n), f.loc(n),
                         'a `global` declaration: the function rebinds module-level state', f.fq, {}, 'C08d')
    return res


def an_known_mutable_interior(t) -> bool:
    if not t:
        return False
    for term in t:
        if term[0] in ('list', 'set', 'tuple', 'gen'):
            if term[1] and ty.maybe_mutable(term[1]) is True:
                return True
        elif term[0] == 'dict':
            if term[2] and ty.maybe_mutable(term[2]) is True:
                return True
    return False
