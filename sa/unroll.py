"""
unroll: table-driven loops written out.

    for test, parse in ((is_a, parse_a), (is_b, parse_b)):        if is_a(x):
        if test(x):                                         ==>        return parse_a(x)
            return parse(x)                                         if is_b(x):
                                                                        return parse_b(x)

A `for` over a *literal* tuple/list (directly, or through a local that is bound exactly once to such a literal) whose
body neither breaks nor continues is replaced by one copy of its body per row, the loop targets substituted by the row's
elements.  After substitution, calls of parameterless lambdas are replaced by the lambda's body and tests on literals
(`None is None`, `<function name> is None`) are decided, so a dispatch table of (predicate, handler) rows reads as the
if-chain it stands for.  Nothing is evaluated: the rows are syntax.
"""
import ast
import copy
from typing import Dict, List, Optional


class _Sub(ast.NodeTransformer):
    def __init__(self, env: Dict[str, ast.AST]):
        self.env = env

    def visit_Name(self, n):
        if isinstance(n.ctx, ast.Load) and n.id in self.env:
            return ast.copy_location(copy.deepcopy(self.env[n.id]), n)
        return n


class _Beta(ast.NodeTransformer):
    """(lambda: e)() -> e ; `None is None` -> True ; `<global name> is None` -> False ; IfExp on a decided test"""

    def __init__(self, locals_: set):
        self.locals = locals_

    def visit_Call(self, n):
        n = self.generic_visit(n)
        if isinstance(n.func, ast.Lambda) and not n.args and not n.keywords and not n.func.args.args and \
                not n.func.args.kwonlyargs and n.func.args.vararg is None and n.func.args.kwarg is None:
            return ast.copy_location(n.func.body, n)
        return n

    def _decide(self, t) -> Optional[bool]:
        if isinstance(t, ast.Constant) and isinstance(t.value, bool):
            return t.value
        if isinstance(t, ast.Compare) and len(t.ops) == 1 and isinstance(t.ops[0], (ast.Is, ast.IsNot)):
            a, b = t.left, t.comparators[0]
            for x, y in ((a, b), (b, a)):
                if isinstance(y, ast.Constant) and y.value is None:
                    v = None
                    if isinstance(x, ast.Constant):
                        v = x.value is None
                    elif isinstance(x, ast.Name) and x.id not in self.locals:
                        v = False     # a module-level function / class / imported name
                    elif isinstance(x, ast.Lambda):
                        v = False
                    if v is not None:
                        return v if isinstance(t.ops[0], ast.Is) else not v
        if isinstance(t, ast.UnaryOp) and isinstance(t.op, ast.Not):
            v = self._decide(t.operand)
            return None if v is None else not v
        return None

    def visit_IfExp(self, n):
        n = self.generic_visit(n)
        v = self._decide(n.test)
        if v is None:
            return n
        return ast.copy_location(n.body if v else n.orelse, n)

    def visit_If(self, n):
        n = self.generic_visit(n)
        v = self._decide(n.test)
        if v is None:
            return n
        return (n.body if v else n.orelse) or [ast.copy_location(ast.Pass(), n)]


def _literal_rows(it: ast.AST, single: Dict[str, ast.AST]) -> Optional[List[ast.AST]]:
    if isinstance(it, ast.Name) and it.id in single:
        it = single[it.id]
    if isinstance(it, (ast.Tuple, ast.List)) and it.elts and not any(isinstance(e, ast.Starred) for e in it.elts):
        return list(it.elts)
    return None


def _single_assignments(fnode) -> Dict[str, ast.AST]:
    count: Dict[str, int] = {}
    val: Dict[str, ast.AST] = {}
    for n in ast.walk(fnode):
        if isinstance(n, ast.Name) and isinstance(n.ctx, (ast.Store, ast.Del)):
            count[n.id] = count.get(n.id, 0) + 1
        if isinstance(n, ast.Assign) and len(n.targets) == 1 and isinstance(n.targets[0], ast.Name):
            val[n.targets[0].id] = n.value
    args = {a.arg for a in ast.walk(fnode) if isinstance(a, ast.arg)}
    return {k: v for k, v in val.items() if count.get(k) == 1 and k not in args}


def _own_break_or_continue(body) -> bool:
    def rec(nodes) -> bool:
        for s in nodes:
            if isinstance(s, (ast.Break, ast.Continue)):
                return True
            if isinstance(s, (ast.For, ast.While, ast.FunctionDef, ast.Lambda)):
                continue
            for fld in ('body', 'orelse', 'finalbody', 'handlers'):
                sub = getattr(s, fld, None)
                if sub and rec([x for x in sub if isinstance(x, ast.AST)]):
                    return True
        return False
    return rec(body)


def unroll(fnode: ast.FunctionDef, max_rows: int = 24) -> ast.FunctionDef:
    """copy of the function with its literal-table loops written out"""
    fnode = copy.deepcopy(fnode)
    _unroll(fnode, max_rows)
    return fnode


def unroll_in_place(fnode: ast.FunctionDef, max_rows: int = 24, extra_tables=None) -> bool:
    return _unroll(fnode, max_rows, extra_tables)


def _unroll(fnode: ast.FunctionDef, max_rows: int = 24, extra_tables=None) -> bool:
    single = _single_assignments(fnode)
    locals_ = {n.id for n in ast.walk(fnode) if isinstance(n, ast.Name) and isinstance(n.ctx, ast.Store)} | \
        {a.arg for a in ast.walk(fnode) if isinstance(a, ast.arg)}
    for k_, v_ in (extra_tables or {}).items():
        if k_ not in locals_:
            single.setdefault(k_, v_)
    changed = [False]

    def block(stmts: List[ast.stmt]) -> List[ast.stmt]:
        out: List[ast.stmt] = []
        for st in stmts:
            for fld in ('body', 'orelse', 'finalbody'):
                sub = getattr(st, fld, None)
                if isinstance(sub, list) and sub and isinstance(sub[0], ast.stmt):
                    setattr(st, fld, block(sub))
            for h in getattr(st, 'handlers', []) or []:
                h.body = block(h.body)
            if isinstance(st, ast.For) and not st.orelse and not _own_break_or_continue(st.body):
                rows = _literal_rows(st.iter, single)
                tnames = [t.id for t in st.target.elts] if isinstance(st.target, ast.Tuple) and all(
                    isinstance(t, ast.Name) for t in st.target.elts) else \
                    [st.target.id] if isinstance(st.target, ast.Name) else None
                if rows is not None and tnames is not None and len(rows) <= max_rows:
                    ok = True
                    envs = []
                    for r in rows:
                        if isinstance(st.target, ast.Tuple):
                            if not (isinstance(r, (ast.Tuple, ast.List)) and len(r.elts) == len(tnames)):
                                ok = False
                                break
                            envs.append(dict(zip(tnames, r.elts)))
                        else:
                            envs.append({tnames[0]: r})
                    # the targets must not be rebound inside the body
                    if ok and not any(isinstance(x, ast.Name) and isinstance(x.ctx, ast.Store) and x.id in tnames
                                      for s in st.body for x in ast.walk(s)):
                        for env in envs:
                            for s in st.body:
                                s2 = _Sub(env).visit(copy.deepcopy(s))
                                s2 = _Beta(locals_ - set(tnames)).visit(s2)
                                if isinstance(s2, list):
                                    out += s2
                                else:
                                    out.append(s2)
                        changed[0] = True
                        continue
            out.append(st)
        return out
    fnode.body = block(fnode.body)
    ast.fix_missing_locations(fnode)
    return changed[0]
