"""
R-MEMO: a memoised value must be keyed by everything it is computed from.

Pattern (the only memo idioms that occur in, or are plausible for, this code base):
    if K not in C: C[K] = V        /   C.setdefault(K, V)   /   V = C.get(K) ... C[K] = V
with C a dict that lives longer than one evaluation of V (a module-level object, or a local created outside the
loop that evaluates V).  Necessary condition for the cached result to equal the uncached one:
  * parameter level (module-level caches): every parameter V depends on is in the dependency set of K;
  * field level: if V hands an object X whole to a repository function g, K must be derived from X whole
    (X itself, X.serialize(), str(X), repr(X)) or must read every field of X that g reads on the way to its result.
"""
import ast
from typing import Dict, List, Optional, Set, Tuple

from .loader import norm_stmt, walk_own, FuncInfo, AnalysisError

WHOLE_METHODS = {'serialize', '__repr__', '__str__', 'dict', 'copy'}


def _single_assign(f: FuncInfo, name: str) -> Optional[ast.AST]:
    vals = [n.value for n in walk_own(f.node) if isinstance(n, ast.Assign) and len(n.targets) == 1 and
            isinstance(n.targets[0], ast.Name) and n.targets[0].id == name]
    return vals[0] if len(vals) == 1 else None


def _whole_uses(key_expr, var: str) -> bool:
    """the key contains `var` whole: bare, or through a whole-object projection"""
    parents = {}
    for n in ast.walk(key_expr):
        for ch in ast.iter_child_nodes(n):
            parents[id(ch)] = n
    for n in ast.walk(key_expr):
        if isinstance(n, ast.Name) and n.id == var:
            par = parents.get(id(n))
            if isinstance(par, ast.Attribute):
                gp = parents.get(id(par))
                if isinstance(gp, ast.Call) and gp.func is par and par.attr in WHOLE_METHODS:
                    return True
                continue
            return True
    return False


def _fields_read(key_expr, var: str) -> Set[str]:
    out = set()
    for n in ast.walk(key_expr):
        if isinstance(n, ast.Attribute) and isinstance(n.value, ast.Name) and n.value.id == var:
            out.add(n.attr.lstrip('_'))
    return out


def find_memos(f: FuncInfo):
    """-> [(cache name, key expr, value expr, store stmt)]"""
    out = []
    for n in walk_own(f.node):
        if isinstance(n, ast.If) and isinstance(n.test, ast.Compare) and len(n.test.ops) == 1 and \
                isinstance(n.test.ops[0], ast.NotIn) and isinstance(n.test.comparators[0], ast.Name):
            cache = n.test.comparators[0].id
            for st in n.body:
                if isinstance(st, ast.Assign) and isinstance(st.targets[0], ast.Subscript) and \
                        isinstance(st.targets[0].value, ast.Name) and st.targets[0].value.id == cache and \
                        norm_stmt(st.targets[0].slice) == norm_stmt(n.test.left):
                    out.append((cache, n.test.left, st.value, st))
        if isinstance(n, ast.If) and isinstance(n.test, ast.Compare) and len(n.test.ops) == 1 and \
                isinstance(n.test.ops[0], ast.In) and isinstance(n.test.comparators[0], ast.Name) and \
                any(isinstance(s, ast.Return) for s in n.body):
            # if K in C: return C[K] ... C[K] = V later in the function
            cache = n.test.comparators[0].id
            for st in walk_own(f.node):
                if isinstance(st, ast.Assign) and isinstance(st.targets[0], ast.Subscript) and \
                        isinstance(st.targets[0].value, ast.Name) and st.targets[0].value.id == cache and \
                        norm_stmt(st.targets[0].slice) == norm_stmt(n.test.left):
                    out.append((cache, n.test.left, st.value, st))
        if isinstance(n, ast.Call) and isinstance(n.func, ast.Attribute) and n.func.attr == 'setdefault' and \
                isinstance(n.func.value, ast.Name) and len(n.args) == 2 and isinstance(n.args[1], ast.Call):
            out.append((n.func.value.id, n.args[0], n.args[1], n))
        # v = C.get(K) ... if v is None: [v =] C[K] = V      (also as a chained assignment)
        if isinstance(n, ast.Assign):
            for t in n.targets:
                if isinstance(t, ast.Subscript) and isinstance(t.value, ast.Name):
                    cache, ktxt = t.value.id, norm_stmt(t.slice)
                    looked_up = any(isinstance(g, ast.Call) and isinstance(g.func, ast.Attribute) and g.func.attr == 'get'
                                    and isinstance(g.func.value, ast.Name) and g.func.value.id == cache and g.args and
                                    norm_stmt(g.args[0]) == ktxt for g in walk_own(f.node))
                    if looked_up and not any(o[3] is n for o in out):
                        out.append((cache, t.slice, n.value, n))
    return out


def check_memos(ctx, funcs: List[FuncInfo]):
    """-> list of (ok, fq, construct, reason, loc)"""
    an, program = ctx.analyzer, ctx.program
    results = []
    for f in funcs:
        for cache, key, val, st in find_memos(f):
            key_e = key
            if isinstance(key, ast.Name):
                a = _single_assign(f, key.id)
                if a is not None:
                    key_e = a
            is_param = f.param(cache) is not None
            local_def = _single_assign(f, cache) if not is_param else None
            module_level = (not is_param) and local_def is None and cache in f.module.assigns
            # the repository calls inside the memoised value
            calls = [c for c in ast.walk(val) if isinstance(c, ast.Call)]
            if not any(isinstance(c.func, (ast.Name, ast.Attribute)) for c in calls) and not module_level:
                continue      # (a module-level cache is checked at parameter level whatever the stored expression is)
            recs = [r for r in an.sub_records.get((f.fq, ()), []) if r[0] is st]
            kdeps = set()
            vdeps = set()
            for _st, kd, vd, _o in recs:
                kdeps |= set(kd)
                vdeps |= set(vd)
            if isinstance(key, ast.Name) and not recs:
                pass
            problems = []
            if module_level and recs:
                pk = {d for d in kdeps if not d.startswith('@')}
                pv = {d for d in vdeps if not d.startswith('@')}
                missing = sorted(pv - pk)
                if missing:
                    problems.append(f'the value depends on parameter(s) {missing} that the key does not contain')
            # field level
            for c in calls:
                r = None
                if isinstance(c.func, ast.Name):
                    r = program.resolve_name(f.module.name, c.func.id)
                if not r or r[0] != 'func':
                    continue
                g = r[1]
                tags = set()
                for node, av, kind in an.ret_records.get((g.fq, ()), []):
                    tags |= {d[1:] for d in av.deps if d.startswith('@')}
                for a in list(c.args) + [kw.value for kw in c.keywords]:
                    if not isinstance(a, ast.Name):
                        continue
                    x = a.id
                    if f.param(x) is not None and not module_level:
                        continue  # constant during one call: a local cache need not key on it
                    if x in (kw.arg for kw in c.keywords if kw.value is not a) and False:
                        continue
                    fields = _fields_read(key_e, x)
                    if not fields and not _whole_uses(key_e, x):
                        if _is_scalar_param(f, x):
                            continue
                        if module_level or _varies_in_loop(f, x):
                            problems.append(f'`{x}` is handed whole to {g.name}() but does not occur in the key')
                        continue
                    if _whole_uses(key_e, x):
                        continue
                    cls_fields = _class_fields(program, tags)
                    need = sorted((tags & cls_fields) - fields)
                    if need:
                        problems.append(f'`{x}` is handed whole to {g.name}(), which reads its fields {need}, but the '
                                        f'key only reads {sorted(fields)}')
            construct = f'memo {cache}[{norm_stmt(key_e)[:60]}] = {norm_stmt(val)[:60]}'
            results.append((not problems, f.fq, construct,
                            'the key covers every input of the memoised computation' if not problems else
                            '; '.join(problems) + ': two different inputs share one cache slot, the second one '
                            'receives the first one\'s result', f.loc(st)))
    return results


def _class_fields(program, tags: Set[str]) -> Set[str]:
    out = set()
    for c in program.all_classes():
        if c.is_dataclass:
            out |= {n.lstrip('_') for n in c.field_names()}
    return out


def _is_scalar_param(f: FuncInfo, x: str) -> bool:
    p = f.param(x)
    if p is None or p.annotation is None:
        return False
    return norm_stmt(p.annotation) in ('bool', 'int', 'float', 'str', 'Optional[int]', 'Optional[float]')


def _varies_in_loop(f: FuncInfo, x: str) -> bool:
    for n in walk_own(f.node):
        if isinstance(n, (ast.For, ast.comprehension)):
            if any(isinstance(t, ast.Name) and t.id == x for t in ast.walk(n.target)):
                return True
    return False
