"""
loader: parse every module of the package under <root>/src/peptacular and build
the program model the rules work on (modules, functions, classes, imports,
module-level assignments, public API through the star-import chain).

Nothing is imported or executed; only `ast.parse` on the working-tree sources.
"""
import ast
import os
import hashlib
from typing import Dict, List, Optional, Tuple

PKG = 'peptacular'


class AnalysisError(Exception):
    """The analysis itself cannot proceed (missing anchor, unparsable unit...). Exit code 2."""


def repo_root() -> str:
    return os.environ.get('VERIF_REPO_ROOT', '/repo')


def norm_stmt(node: ast.AST) -> str:
    """Normalised one-line text of a statement/expression (ast.unparse removes layout and comments)."""
    try:
        s = ast.unparse(node)
    except Exception:  # pragma: no cover
        s = ast.dump(node)
    return ' '.join(s.split())


class Param:
    __slots__ = ('name', 'annotation', 'default', 'kind', 'index')

    def __init__(self, name, annotation, default, kind, index):
        self.name = name
        self.annotation = annotation  # ast expr or None
        self.default = default  # ast expr or None
        self.kind = kind  # 'pos', 'vararg', 'kwonly', 'kwarg'
        self.index = index

    def __repr__(self):
        return f'Param({self.name})'


class FuncInfo:
    def __init__(self, module: 'Module', qualname: str, node: ast.AST, cls: Optional['ClassInfo'],
                 parent: Optional['FuncInfo'] = None):
        self.module = module
        self.qualname = qualname
        self.node = node
        self.cls = cls
        self.parent = parent
        self.name = node.name
        self.decorators = [d for d in node.decorator_list]
        self.params: List[Param] = []
        a = node.args
        posargs = list(a.posonlyargs) + list(a.args)
        defaults = [None] * (len(posargs) - len(a.defaults)) + list(a.defaults)
        idx = 0
        for arg, d in zip(posargs, defaults):
            self.params.append(Param(arg.arg, arg.annotation, d, 'pos', idx))
            idx += 1
        if a.vararg:
            self.params.append(Param(a.vararg.arg, a.vararg.annotation, None, 'vararg', idx))
            idx += 1
        for arg, d in zip(a.kwonlyargs, a.kw_defaults):
            self.params.append(Param(arg.arg, arg.annotation, d, 'kwonly', idx))
            idx += 1
        if a.kwarg:
            self.params.append(Param(a.kwarg.arg, a.kwarg.annotation, None, 'kwarg', idx))
            idx += 1
        self.returns = node.returns
        self.nested: Dict[str, 'FuncInfo'] = {}
        self._is_gen = None

    # decorator helpers -------------------------------------------------
    def _deco_names(self) -> List[str]:
        out = []
        for d in self.decorators:
            t = d.func if isinstance(d, ast.Call) else d
            try:
                out.append(ast.unparse(t))
            except Exception:
                out.append('?')
        return out

    @property
    def is_property(self) -> bool:
        return any(n in ('property', 'cached_property', 'functools.cached_property') for n in self._deco_names())

    @property
    def is_cached_property(self) -> bool:
        return any(n in ('cached_property', 'functools.cached_property') for n in self._deco_names())

    @property
    def is_setter(self) -> bool:
        return any(n.endswith('.setter') for n in self._deco_names())

    @property
    def is_staticmethod(self) -> bool:
        return 'staticmethod' in self._deco_names()

    @property
    def is_classmethod(self) -> bool:
        return 'classmethod' in self._deco_names()

    @property
    def is_method(self) -> bool:
        return self.cls is not None and self.parent is None

    @property
    def is_generator(self) -> bool:
        if self._is_gen is None:
            self._is_gen = False
            for n in walk_own(self.node):
                if isinstance(n, (ast.Yield, ast.YieldFrom)):
                    self._is_gen = True
                    break
        return self._is_gen

    def param(self, name: str) -> Optional[Param]:
        for p in self.params:
            if p.name == name:
                return p
        return None

    @property
    def fq(self) -> str:
        return f'{self.module.name}:{self.qualname}'

    @property
    def lineno(self) -> int:
        return self.node.lineno

    def loc(self, node: Optional[ast.AST] = None) -> str:
        ln = getattr(node, 'lineno', None) if node is not None else self.node.lineno
        return f'{self.module.relpath}:{ln}'

    def __repr__(self):
        return f'<Func {self.fq}>'


def walk_own(fnode: ast.AST):
    """Walk the body of a function without descending into nested function/class definitions or lambdas."""
    stack = list(ast.iter_child_nodes(fnode))
    while stack:
        n = stack.pop()
        yield n
        if isinstance(n, (ast.FunctionDef, ast.AsyncFunctionDef, ast.ClassDef, ast.Lambda)):
            continue
        stack.extend(ast.iter_child_nodes(n))


class ClassInfo:
    def __init__(self, module: 'Module', node: ast.ClassDef):
        self.module = module
        self.node = node
        self.name = node.name
        self.bases = [ast.unparse(b) for b in node.bases]
        self.methods: Dict[str, FuncInfo] = {}
        self.setters: Dict[str, FuncInfo] = {}
        self.fields: List[Tuple[str, Optional[ast.AST], Optional[ast.AST]]] = []  # (name, annotation, default)
        self.class_attrs: Dict[str, ast.AST] = {}
        deco = []
        for d in node.decorator_list:
            t = d.func if isinstance(d, ast.Call) else d
            deco.append(ast.unparse(t))
        self.is_dataclass = any(x in ('dataclass', 'dataclasses.dataclass') for x in deco)
        self.frozen = False
        for d in node.decorator_list:
            if isinstance(d, ast.Call):
                for kw in d.keywords:
                    if kw.arg == 'frozen' and isinstance(kw.value, ast.Constant) and kw.value.value is True:
                        self.frozen = True
        for st in node.body:
            if isinstance(st, ast.AnnAssign) and isinstance(st.target, ast.Name):
                self.fields.append((st.target.id, st.annotation, st.value))
            elif isinstance(st, ast.Assign):
                for t in st.targets:
                    if isinstance(t, ast.Name):
                        self.class_attrs[t.id] = st.value

    @property
    def fq(self) -> str:
        return f'{self.module.name}:{self.name}'

    def field_names(self) -> List[str]:
        return [f[0] for f in self.fields]

    def __repr__(self):
        return f'<Class {self.fq}>'


class Module:
    def __init__(self, name: str, path: str, relpath: str, src: str):
        self.name = name
        self.path = path
        self.relpath = relpath
        self.src = src
        self.tree = ast.parse(src, filename=path)
        self.normalised: Dict[str, List[str]] = {}
        if os.environ.get('SA_NO_NORMALISE') != '1':
            from .normalise import normalise_module
            self.normalised = normalise_module(self.tree, name)
        # program order of every node (depth first, as written): rules that ask "which comes first" use this and not
        # line numbers, because statements read through from a helper keep the helper's line numbers
        _k = [0]

        def _number(node):
            node.order = _k[0]
            _k[0] += 1
            for ch in ast.iter_child_nodes(node):
                _number(ch)
        _number(self.tree)
        self.functions: Dict[str, FuncInfo] = {}  # qualname -> FuncInfo (all, including methods and nested)
        self.classes: Dict[str, ClassInfo] = {}
        self.imports: Dict[str, Tuple[str, Optional[str]]] = {}  # local -> (module dotted, name or None for module)
        self.star_imports: List[str] = []
        self.assigns: Dict[str, ast.AST] = {}  # module-level name -> value expr (last assignment)
        self.assign_nodes: Dict[str, ast.AST] = {}
        self.toplevel_names: List[str] = []
        self.is_package = os.path.basename(path) == '__init__.py'
        self._collect()

    def _abs_module(self, level: int, mod: Optional[str]) -> str:
        if level == 0:
            return mod or ''
        parts = self.name.split('.')
        if not self.is_package:
            parts = parts[:-1]
        if level > 1:
            parts = parts[:-(level - 1)]
        if mod:
            parts = parts + mod.split('.')
        return '.'.join(parts)

    def _collect(self):
        def add_func(node, qual, cls, parent):
            fi = FuncInfo(self, qual, node, cls, parent)
            self.functions[qual] = fi
            if parent is not None:
                parent.nested[node.name] = fi
            for n in walk_defs(node):
                if isinstance(n, (ast.FunctionDef, ast.AsyncFunctionDef)):
                    add_func(n, f'{qual}.<locals>.{n.name}', cls, fi)
            return fi

        def walk_defs(fnode):
            # direct nested defs (not inside further nested defs)
            stack = list(ast.iter_child_nodes(fnode))
            while stack:
                n = stack.pop()
                if isinstance(n, (ast.FunctionDef, ast.AsyncFunctionDef)):
                    yield n
                    continue
                if isinstance(n, (ast.ClassDef, ast.Lambda)):
                    continue
                stack.extend(ast.iter_child_nodes(n))

        def visit_body(body):
            for st in body:
                if isinstance(st, (ast.FunctionDef, ast.AsyncFunctionDef)):
                    add_func(st, st.name, None, None)
                    self.toplevel_names.append(st.name)
                elif isinstance(st, ast.ClassDef):
                    ci = ClassInfo(self, st)
                    self.classes[st.name] = ci
                    self.toplevel_names.append(st.name)
                    for sub in st.body:
                        if isinstance(sub, (ast.FunctionDef, ast.AsyncFunctionDef)):
                            fi = add_func(sub, f'{st.name}.{sub.name}', ci, None)
                            if fi.is_setter:
                                ci.setters[sub.name] = fi
                                # keep getter under methods; store the setter under a distinct qualname
                                self.functions[f'{st.name}.{sub.name}.setter'] = fi
                                fi.qualname = f'{st.name}.{sub.name}.setter'
                                # restore the getter entry if it was overwritten
                                if sub.name in ci.methods:
                                    self.functions[f'{st.name}.{sub.name}'] = ci.methods[sub.name]
                            else:
                                ci.methods[sub.name] = fi
                elif isinstance(st, ast.Import):
                    for al in st.names:
                        local = al.asname or al.name.split('.')[0]
                        target = al.name if al.asname else al.name.split('.')[0]
                        self.imports[local] = (target, None)
                        self.toplevel_names.append(local)
                elif isinstance(st, ast.ImportFrom):
                    mod = self._abs_module(st.level, st.module)
                    for al in st.names:
                        if al.name == '*':
                            self.star_imports.append(mod)
                        else:
                            self.imports[al.asname or al.name] = (mod, al.name)
                            self.toplevel_names.append(al.asname or al.name)
                elif isinstance(st, ast.Assign):
                    for t in st.targets:
                        for nm in _target_names(t):
                            self.assigns[nm] = st.value
                            self.assign_nodes[nm] = st
                            self.toplevel_names.append(nm)
                elif isinstance(st, ast.AnnAssign) and isinstance(st.target, ast.Name) and st.value is not None:
                    self.assigns[st.target.id] = st.value
                    self.assign_nodes[st.target.id] = st
                    self.toplevel_names.append(st.target.id)
                elif isinstance(st, (ast.If, ast.Try, ast.For, ast.With)):
                    # module-level control flow: collect definitions inside conservatively
                    for fld in ('body', 'orelse', 'finalbody'):
                        visit_body(getattr(st, fld, []) or [])
                    for h in getattr(st, 'handlers', []) or []:
                        visit_body(h.body)

        visit_body(self.tree.body)


def _target_names(t):
    if isinstance(t, ast.Name):
        yield t.id
    elif isinstance(t, (ast.Tuple, ast.List)):
        for e in t.elts:
            yield from _target_names(e)


class Program:
    def __init__(self, root: Optional[str] = None):
        self.root = root or repo_root()
        self.pkg_dir = os.path.join(self.root, 'src', PKG)
        if not os.path.isdir(self.pkg_dir):
            raise AnalysisError(f'package directory not found: {self.pkg_dir}')
        self.modules: Dict[str, Module] = {}
        self.digest = hashlib.sha256()
        for dirpath, dirnames, filenames in sorted(os.walk(self.pkg_dir)):
            dirnames[:] = sorted(d for d in dirnames if d != '__pycache__')
            for fn in sorted(filenames):
                if not fn.endswith('.py'):
                    continue
                path = os.path.join(dirpath, fn)
                rel = os.path.relpath(path, self.root)
                modrel = os.path.relpath(path, os.path.join(self.root, 'src'))[:-3]
                parts = modrel.split(os.sep)
                if parts[-1] == '__init__':
                    parts = parts[:-1]
                name = '.'.join(parts)
                with open(path, 'r', encoding='utf-8') as f:
                    src = f.read()
                self.digest.update(rel.encode() + b'\0' + src.encode())
                try:
                    self.modules[name] = Module(name, path, rel, src)
                except SyntaxError as e:
                    raise AnalysisError(f'cannot parse {rel}: {e}')
        self._export_cache: Dict[str, Dict[str, Tuple[str, str]]] = {}

    # ------------------------------------------------------------------
    def all_functions(self) -> List[FuncInfo]:
        out = []
        for m in self.modules.values():
            seen = set()
            absorbed = set(m.normalised.get('__absorbed__', ()))
            for q, f in m.functions.items():
                if id(f) not in seen:
                    seen.add(id(f))
                    # a new private helper read through at every use is analysed inside its callers, not by itself
                    if q in absorbed or any(q.startswith(a + '.<locals>.') for a in absorbed):
                        continue
                    out.append(f)
        return out

    def all_classes(self) -> List[ClassInfo]:
        return [c for m in self.modules.values() for c in m.classes.values()]

    def func(self, fq: str) -> FuncInfo:
        mod, qual = fq.split(':')
        if not mod.startswith(PKG):
            mod = f'{PKG}.{mod}' if mod else PKG
        m = self.modules.get(mod)
        if m is None or qual not in m.functions:
            raise AnalysisError(f'anchor function missing: {fq}')
        return m.functions[qual]

    def find_func(self, fq: str) -> Optional[FuncInfo]:
        try:
            return self.func(fq)
        except AnalysisError:
            return None

    def cls(self, fq: str) -> ClassInfo:
        mod, name = fq.split(':')
        if not mod.startswith(PKG):
            mod = f'{PKG}.{mod}' if mod else PKG
        m = self.modules.get(mod)
        if m is None or name not in m.classes:
            raise AnalysisError(f'anchor class missing: {fq}')
        return m.classes[name]

    def module(self, name: str) -> Module:
        if not name.startswith(PKG):
            name = f'{PKG}.{name}' if name else PKG
        m = self.modules.get(name)
        if m is None:
            raise AnalysisError(f'anchor module missing: {name}')
        return m

    # name resolution -----------------------------------------------------
    def exports(self, modname: str) -> Dict[str, Tuple[str, str]]:
        """Names visible in module `modname` -> (defining module, name). Follows import and star-import chains."""
        if modname in self._export_cache:
            return self._export_cache[modname]
        self._export_cache[modname] = {}  # cycle guard
        m = self.modules.get(modname)
        out: Dict[str, Tuple[str, str]] = {}
        if m is None:
            return out
        for star in m.star_imports:
            if star in self.modules:
                for k, v in self.exports(star).items():
                    if not k.startswith('_'):
                        out[k] = v
        for local, (mod, name) in m.imports.items():
            if name is None:
                out[local] = (mod, '')  # a module object
            elif mod in self.modules:
                sub = f'{mod}.{name}'
                if sub in self.modules and name not in self.modules[mod].functions and \
                        name not in self.modules[mod].classes and name not in self.modules[mod].assigns:
                    out[local] = (sub, '')  # `from . import submodule`
                else:
                    tgt = self.exports(mod).get(name)
                    out[local] = tgt if tgt is not None else (mod, name)
            else:
                out[local] = (mod, name)  # external
        for q, f in m.functions.items():
            if '.' not in q:
                out[q] = (modname, q)
        for c in m.classes:
            out[c] = (modname, c)
        for a in m.assigns:
            out[a] = (modname, a)
        self._export_cache[modname] = out
        return out

    def resolve_name(self, modname: str, name: str):
        """-> ('func', FuncInfo) | ('class', ClassInfo) | ('global', module, name, expr) | ('module', dotted)
              | ('external', module, name) | None"""
        tgt = self.exports(modname).get(name)
        if tgt is None:
            return None
        mod, nm = tgt
        if nm == '':
            return ('module', mod)
        m = self.modules.get(mod)
        if m is None:
            return ('external', mod, nm)
        if nm in m.functions:
            return ('func', m.functions[nm])
        if nm in m.classes:
            return ('class', m.classes[nm])
        if nm in m.assigns:
            return ('global', mod, nm, m.assigns[nm])
        return ('external', mod, nm)

    def public_names(self) -> Dict[str, Tuple[str, str]]:
        """Everything reachable as peptacular.<name> and not starting with '_'."""
        return {k: v for k, v in self.exports(PKG).items() if not k.startswith('_')}

    def public_functions(self) -> List[FuncInfo]:
        out = []
        seen = set()
        for k, (mod, nm) in sorted(self.public_names().items()):
            m = self.modules.get(mod)
            if m is not None and nm in m.functions and '.' not in nm:
                f = m.functions[nm]
                if id(f) not in seen:
                    seen.add(id(f))
                    out.append(f)
        return out

    def find_class(self, name: str) -> Optional[ClassInfo]:
        for m in self.modules.values():
            if name in m.classes:
                return m.classes[name]
        return None

    def method(self, cls: ClassInfo, name: str) -> Optional[FuncInfo]:
        c = cls
        seen = set()
        while c is not None and c.fq not in seen:
            seen.add(c.fq)
            if name in c.methods:
                return c.methods[name]
            nxt = None
            for b in c.bases:
                r = self.resolve_name(c.module.name, b.split('.')[-1])
                if r and r[0] == 'class':
                    nxt = r[1]
                    break
            c = nxt
        return None

    def class_mro_names(self, cls: ClassInfo) -> List[str]:
        out = [cls.name]
        c = cls
        seen = set()
        while c is not None and c.fq not in seen:
            seen.add(c.fq)
            nxt = None
            for b in c.bases:
                bn = b.split('.')[-1]
                r = self.resolve_name(c.module.name, bn)
                if r and r[0] == 'class':
                    nxt = r[1]
                    out.append(nxt.name)
                    break
                else:
                    out.append(bn)
            c = nxt
        return out
