"""
absint: flow-sensitive abstract interpretation of every function of the package.

For each function (and for each constant value of an `inplace` parameter) it computes
  * types of locals (union of terms, narrowed by isinstance / None tests),
  * origins of values: parameter object P(i), interior of a parameter I(i), fresh allocation F(site),
    module-level object G(name), unknown U; fresh objects have a heap entry listing what was stored inside,
  * events: stores into caller-owned objects, stores into module-level objects, uses of the process RNG,
    captures of an argument into a longer-lived object,
  * a summary (mutated parameters, origin of the returned/yielded value, captures, global effects) that is
    substituted at call sites; summaries are iterated to a fixed point over the whole package,
  * the resolved call sites (callee + parameter binding) that the other rules consume.

The interpretation never executes repository code.
"""
import ast
from typing import Dict, List, Optional, Tuple, Set, FrozenSet

from .loader import Program, FuncInfo, ClassInfo, Module, norm_stmt, AnalysisError
from . import types as ty
from .types import Types, EMPTY, T

NOCONST = object()

SPEC_PARAMS = ('inplace',)

# --------------------------------------------------------------------------------------------------------------
# origins
def P(i): return ('P', i)
def I(i): return ('I', i)
def F(k): return ('F', k)
def G(n): return ('G', n)
U = ('U',)


class AV:
    """abstract value"""
    __slots__ = ('types', 'origins', 'const', 'callee', 'deps')

    def __init__(self, types: Types = EMPTY, origins=frozenset(), const=NOCONST, callee=None, deps=frozenset()):
        self.deps = deps  # names of the parameters this value is data/control dependent on (syntactic slice)
        if types and ty.maybe_mutable(types) is False:
            origins = frozenset()
        elif types and origins and ty.shallow_immutable(types):
            # frozen dataclass instances owned by the caller: sharing them is not sharing mutable state
            origins = frozenset(o for o in origins if o[0] not in ('P', 'I'))
        self.types = types
        self.origins = frozenset(origins)
        self.const = const
        # for function-valued values: list of alternatives ('func', FuncInfo) / ('lambda', node) ...
        self.callee = [callee] if isinstance(callee, tuple) else callee

    def join(self, other: 'AV') -> 'AV':
        if other is None:
            return self
        c = self.const if (self.const is not NOCONST and other.const is not NOCONST and
                           type(self.const) is type(other.const) and self.const == other.const) else NOCONST
        types = self.types | other.types if (self.types and other.types) else EMPTY
        av = AV.__new__(AV)
        av.types = types
        av.deps = self.deps | other.deps
        av.origins = self.origins | other.origins
        if types and ty.maybe_mutable(types) is False:
            av.origins = frozenset()
        elif types and ty.shallow_immutable(types):
            av.origins = frozenset(o for o in av.origins if o[0] not in ('P', 'I'))
        av.const = c
        if self.callee is None:
            av.callee = other.callee
        elif other.callee is None:
            av.callee = self.callee
        else:
            av.callee = list(self.callee)
            for c in other.callee:
                if not any(c is d or _callee_eq(c, d) for d in av.callee):
                    av.callee.append(c)
        return av

    def with_deps(self, deps) -> 'AV':
        if deps == self.deps:
            return self
        av = AV.__new__(AV)
        av.types, av.origins, av.const, av.callee, av.deps = self.types, self.origins, self.const, self.callee, deps
        return av

    def __eq__(self, other):
        return isinstance(other, AV) and self.types == other.types and self.origins == other.origins and \
            self.deps == other.deps and \
            ((self.const is NOCONST and other.const is NOCONST) or
             (self.const is not NOCONST and other.const is not NOCONST and self.const == other.const))

    def __repr__(self):
        return f'AV({ty.fmt_types(self.types)}, {sorted(self.origins)})'


def _callee_eq(a, b) -> bool:
    if a[0] != b[0] or len(a) != len(b):
        return False
    for x, y in zip(a[1:], b[1:]):
        if isinstance(x, AV) or isinstance(y, AV):
            if not (isinstance(x, AV) and isinstance(y, AV) and x == y):
                return False
        elif x is not y and x != y:
            return False
    return True


UNKNOWN = AV()
IMM = AV(T(ty.INT))  # some immutable value


def const_av(v) -> AV:
    if v is None:
        return AV(T(ty.NONE), const=None)
    if isinstance(v, bool):
        return AV(T(ty.BOOL), const=v)
    if isinstance(v, int):
        return AV(T(ty.INT), const=v)
    if isinstance(v, float):
        return AV(T(ty.FLOAT), const=v)
    if isinstance(v, str):
        return AV(T(ty.STR), const=v)
    if isinstance(v, bytes):
        return AV(T(ty.BYTES), const=v)
    return UNKNOWN


class Witness:
    """where an effect comes from: root primitive statement + call path leading to it"""
    __slots__ = ('root_fq', 'root_stmt', 'root_loc', 'path', 'what', 'on', 'heads')

    def __init__(self, root_fq, root_stmt, root_loc, path=(), what='', on='I', heads=None):
        self.root_fq = root_fq
        self.root_stmt = root_stmt
        self.root_loc = root_loc
        self.path = tuple(path)
        self.what = what
        self.on = on  # 'P': the parameter object itself is written, 'I': something inside it
        self.heads = heads  # type heads of the written object when known (for 'P')

    def via(self, caller_fq: str, loc: str, text: str, on='I', heads=None) -> 'Witness':
        return Witness(self.root_fq, self.root_stmt, self.root_loc, ((caller_fq, loc, text),) + self.path, self.what,
                       on, heads)

    def key(self):
        return (self.root_fq, self.root_stmt, self.what, self.on, self.heads)

    def better_than(self, other: 'Witness') -> bool:
        return (len(self.path), repr(self.key())) < (len(other.path), repr(other.key()))

    def to_json(self):
        return {'root_function': self.root_fq, 'root_statement': self.root_stmt, 'root_loc': self.root_loc,
                'what': self.what,
                'call_path': [{'in': p[0], 'at': p[1], 'call': p[2]} for p in self.path]}


class Summary:
    def __init__(self):
        self.mutates: Dict[int, Dict[tuple, Witness]] = {}  # param index -> {root key -> witness}
        self.ret: Set[tuple] = set()  # ext origins: ('P',j) ('I',j) ('F',) ('G',n) ('U',)
        # contents of the returned fresh object(s): direct children, and children of nested fresh objects
        # (all nested fresh objects are collapsed into one node ('N',))
        self.ret_top_inner: Set[tuple] = set()
        self.ret_nested_inner: Set[tuple] = set()
        self.ret_inner_known: Set[tuple] = set()  # subset of the two above whose type is known to be mutable
        self.ret_types: Types = EMPTY
        self.ret_tags: Set[str] = set()  # '@field' tags in the slice of any returned value (transitive)
        self.captures: Set[Tuple[tuple, int]] = set()  # (('P'|'I', src), dst)
        self.capture_w: Dict[Tuple[tuple, int], Witness] = {}
        self.globals: Dict[tuple, Witness] = {}  # (gname, root key) -> witness
        self.rng: Dict[tuple, Witness] = {}
        self.resolved_nodes: Set[int] = set()
        self.unresolved_nodes: Dict[int, str] = {}
        self.raises_only = False

    @property
    def ret_inner(self) -> Set[tuple]:
        return {o for o in (self.ret_top_inner | self.ret_nested_inner) if o != ('N',)}

    @property
    def resolved(self) -> int:
        return len(self.resolved_nodes)

    @property
    def unresolved_sites(self) -> List[str]:
        return sorted(v for k, v in self.unresolved_nodes.items() if k not in self.resolved_nodes)

    @property
    def unresolved(self) -> int:
        return len(self.unresolved_sites)

    def signature(self):
        return (tuple(sorted((k, tuple(sorted(v, key=repr))) for k, v in self.mutates.items())),
                tuple(sorted(self.ret)), tuple(sorted(self.ret_top_inner)), tuple(sorted(self.ret_nested_inner)),
                tuple(sorted(self.ret_inner_known)), self.ret_types, tuple(sorted(self.ret_tags)),
                tuple(sorted(self.captures, key=repr)), tuple(sorted(self.globals, key=repr)),
                tuple(sorted(self.rng, key=repr)))


class CallRecord:
    __slots__ = ('node', 'caller', 'callee', 'ext', 'binding', 'recv', 'by_name', 'args_av', 'spec')

    def __init__(self, node, caller, callee=None, ext=None, binding=None, recv=None, by_name=False):
        self.node = node
        self.caller = caller
        self.callee = callee  # FuncInfo or None
        self.ext = ext  # dotted external name / builtin model name or None
        self.binding = binding or {}  # param name -> ast expr (or ('recv',) marker for self)
        self.recv = recv
        self.by_name = by_name
        self.args_av = {}
        self.spec = ()


# --------------------------------------------------------------------------------------------------------------
PURE_BUILTINS = {
    'len', 'sum', 'abs', 'round', 'int', 'float', 'str', 'bool', 'isinstance', 'issubclass', 'any', 'all', 'range',
    'print', 'repr', 'hash', 'type', 'id', 'ord', 'chr', 'format', 'hasattr', 'callable', 'divmod', 'pow', 'bytes',
    'hex', 'bin', 'oct', 'input', 'vars', 'dir', 'super', 'complex', 'ValueError', 'TypeError', 'KeyError',
    'IndexError', 'Exception', 'ImportError', 'NotImplementedError', 'RuntimeError', 'AttributeError', 'IOError',
    'FileNotFoundError', 'StopIteration', 'AssertionError',
}
BUILTIN_RET = {'len': ty.INT, 'int': ty.INT, 'float': ty.FLOAT, 'str': ty.STR, 'bool': ty.BOOL, 'abs': ty.FLOAT,
               'round': ty.FLOAT, 'isinstance': ty.BOOL, 'any': ty.BOOL, 'all': ty.BOOL, 'repr': ty.STR,
               'hash': ty.INT, 'id': ty.INT, 'ord': ty.INT, 'chr': ty.STR, 'format': ty.STR, 'hasattr': ty.BOOL,
               'callable': ty.BOOL, 'sum': ty.FLOAT, 'pow': ty.FLOAT}
CONTAINER_BUILDERS = {'list': 'list', 'tuple': 'tuple', 'set': 'set', 'frozenset': 'set', 'sorted': 'list',
                      'reversed': 'gen', 'enumerate': 'gen', 'zip': 'gen', 'iter': 'gen', 'filter': 'gen',
                      'map': 'gen', 'dict': 'dict'}

LIST_MUTATORS = {'append', 'extend', 'insert', 'remove', 'pop', 'clear', 'sort', 'reverse', '__setitem__',
                 '__delitem__'}
DICT_MUTATORS = {'pop', 'popitem', 'clear', 'update', 'setdefault', '__setitem__', '__delitem__', 'subtract'}
SET_MUTATORS = {'add', 'discard', 'remove', 'pop', 'clear', 'update', 'difference_update', 'intersection_update',
                'symmetric_difference_update'}
STR_METHODS = {'split', 'rsplit', 'strip', 'lstrip', 'rstrip', 'lower', 'upper', 'startswith', 'endswith', 'join',
               'replace', 'find', 'rfind', 'index', 'rindex', 'count', 'format', 'isdigit', 'isalpha', 'isalnum',
               'isupper', 'islower', 'partition', 'rpartition', 'splitlines', 'encode', 'decode', 'title',
               'capitalize', 'zfill', 'ljust', 'rjust', 'center', 'isspace', 'isnumeric', 'casefold', 'swapcase',
               'removeprefix', 'removesuffix', 'translate', 'expandtabs', 'isdecimal', 'isidentifier'}
BUILTIN_METHOD_NAMES = (LIST_MUTATORS | DICT_MUTATORS | SET_MUTATORS | STR_METHODS |
                        {'get', 'items', 'keys', 'values', 'copy', 'index', 'count', 'union', 'intersection',
                         'difference', 'issubset', 'issuperset', 'most_common', 'elements', 'total', 'start', 'end',
                         'group', 'groups', 'span', 'finditer', 'findall', 'match', 'search', 'sub', 'fullmatch',
                         'read', 'write', 'seek', 'close', 'open', 'is_file'})

RNG_FUNCS = {'seed', 'random', 'randint', 'choice', 'choices', 'sample', 'shuffle', 'uniform', 'randrange',
             'gauss', 'getrandbits', 'setstate', 'getstate', 'betavariate', 'expovariate', 'normalvariate',
             'triangular', 'randbytes'}


class Analyzer:
    def __init__(self, program: Program):
        self.program = program
        self.tp = ty.TypeParser(program)
        self.summaries: Dict[Tuple[str, tuple], Summary] = {}
        self.attr_types: Dict[Tuple[str, str], Types] = {}  # (class fq, attr) -> types inferred from self.attr = ...
        self.calls: Dict[Tuple[str, tuple], List[CallRecord]] = {}
        self.events: Dict[Tuple[str, tuple], list] = {}
        self.ret_records: Dict[Tuple[str, tuple], list] = {}
        self.acc_records: Dict[Tuple[str, tuple], list] = {}
        self.sub_records: Dict[Tuple[str, tuple], list] = {}
        self.passes = 0
        self._param_types_cache = {}
        self._methods_by_name: Dict[str, List[FuncInfo]] = {}
        for c in program.all_classes():
            for n, m in c.methods.items():
                self._methods_by_name.setdefault(n, []).append(m)
        ty.FROZEN_CLASSES.clear()
        ty.FROZEN_CLASSES.update(c.fq for c in program.all_classes() if c.frozen)

    # --------------------------------------------------------------
    def specs_for(self, f: FuncInfo) -> List[tuple]:
        sp = [p.name for p in f.params if p.name in SPEC_PARAMS]
        if not sp:
            return [()]
        out = [()]
        for name in sp:
            out = [o + ((name, v),) for o in out for v in (False, True)] + out
        # () = unknown value of the parameter (join of both)
        seen, res = set(), []
        for o in out:
            if o not in seen:
                seen.add(o)
                res.append(o)
        return res

    def run(self, max_passes: int = 12):
        funcs = self.program.all_functions()
        work = [(f, s) for f in funcs for s in self.specs_for(f)]
        for k in range(max_passes):
            self.passes = k + 1
            changed = False
            for f, spec in work:
                key = (f.fq, spec)
                old = self.summaries.get(key)
                oldsig = old.signature() if old is not None else None
                run = FuncRun(self, f, spec)
                s = run.execute()
                self.summaries[key] = s
                self.calls[key] = run.call_records
                self.events[key] = run.events
                self.ret_records[key] = run.ret_records
                self.acc_records[key] = run.acc_records
                self.sub_records[key] = run.sub_records
                if s.signature() != oldsig:
                    changed = True
            if self._attr_changed:
                changed = True
                self._attr_changed = False
            if not changed:
                break
        else:
            raise AnalysisError(f'summary fixed point not reached in {max_passes} passes')
        return self

    _attr_changed = False

    def add_attr_type(self, clsfq: str, attr: str, types: Types):
        if not types:
            return
        key = (clsfq, attr)
        old = self.attr_types.get(key, EMPTY)
        new = old | types
        if new != old:
            self.attr_types[key] = new
            self._attr_changed = True

    def summary(self, f: FuncInfo, spec: tuple = ()) -> Summary:
        s = self.summaries.get((f.fq, spec))
        if s is None:
            s = self.summaries.get((f.fq, ()))
        if s is None:
            s = Summary()
        return s

    def param_types(self, f: FuncInfo) -> List[Types]:
        if f.fq in self._param_types_cache:
            return self._param_types_cache[f.fq]
        out = []
        for p in f.params:
            t = self.tp.parse(p.annotation, f.module)
            if p.index == 0 and f.cls is not None and f.parent is None and not f.is_staticmethod and p.annotation is None:
                t = T(('cls', f.cls.fq))
            if p.kind == 'vararg':
                t = T(('tuple', t))
            elif p.kind == 'kwarg':
                t = T(('dict', T(ty.STR), t))
            out.append(t)
        self._param_types_cache[f.fq] = out
        return out

    def field_types(self, cls: ClassInfo, attr: str) -> Optional[Types]:
        for (n, ann, _d) in cls.fields:
            if n == attr:
                return self.tp.parse(ann, cls.module)
        t = self.attr_types.get((cls.fq, attr))
        if t:
            return t
        if attr in cls.class_attrs:
            v = cls.class_attrs[attr]
            if isinstance(v, ast.Constant):
                return const_av(v.value).types
            return EMPTY
        return None


class Env:
    __slots__ = ('vars', 'pdeps')

    def __init__(self, vars=None, pdeps=frozenset()):
        self.vars: Dict[str, AV] = vars if vars is not None else {}
        self.pdeps = pdeps  # parameters the current program point is control dependent on

    def copy(self):
        return Env(dict(self.vars), self.pdeps)

    def get(self, k):
        return self.vars.get(k)

    def set(self, k, v):
        self.vars[k] = v


def join_env(a: Optional[Env], b: Optional[Env]) -> Optional[Env]:
    if a is None:
        return b
    if b is None:
        return a
    out = {}
    for k in set(a.vars) | set(b.vars):
        va, vb = a.vars.get(k), b.vars.get(k)
        if va is None:
            out[k] = vb
        elif vb is None:
            out[k] = va
        else:
            out[k] = va.join(vb)
    return Env(out, a.pdeps | b.pdeps)


def env_eq(a: Optional[Env], b: Optional[Env]) -> bool:
    if a is None or b is None:
        return a is b
    if a.vars.keys() != b.vars.keys() or a.pdeps != b.pdeps:
        return False
    return all(a.vars[k] == b.vars[k] for k in a.vars)


class FuncRun:
    def __init__(self, an: Analyzer, f: FuncInfo, spec: tuple):
        self.an = an
        self.program = an.program
        self.f = f
        self.spec = dict(spec)
        self.spec_t = spec
        self.module = f.module
        self.heap: Dict[tuple, Set[tuple]] = {}
        self.heap_known: Dict[tuple, Set[tuple]] = {}  # subset of heap edges whose target type is known mutable
        self.events: list = []  # raw events (kind, ...)
        self.summary = Summary()
        self.returns: List[AV] = []
        self.yields: List[AV] = []
        self.call_records: List[CallRecord] = []
        self.ret_records: list = []  # (node, AV) for each return/yield
        self.acc_records: list = []  # (stmt, value deps, control deps) for accumulating stores
        self.sub_records: list = []  # (stmt, key deps, value deps, receiver origins) for `x[k] = v`
        self.loop_breaks: List[List[Optional[Env]]] = []
        self.for_stack: List[Tuple[ast.AST, Set[str]]] = []
        self.dict_literals: Dict[str, List[Tuple[str, ast.AST]]] = {}
        self.const_sets: Dict[str, list] = {}
        self._eff_keywords: Dict[int, list] = {}
        self.loop_continues: List[List[Optional[Env]]] = []
        self.param_index = {p.name: p.index for p in f.params}
        self._site_counter = 0
        self._sites: Dict[int, tuple] = {}
        self._dep_stack: List[set] = []

    # ---------------------------------------------------------------- helpers
    def site(self, node, tag: str = '') -> tuple:
        k = self._sites.get((id(node), tag))
        if k is None:
            self._site_counter += 1
            k = F((getattr(node, 'lineno', 0), getattr(node, 'col_offset', 0), self._site_counter))
            self._sites[(id(node), tag)] = k
            self.heap.setdefault(k, set())
        return k

    def fresh(self, node, types: Types = EMPTY, inner=(), known=None) -> AV:
        """new object allocated at `node`; `inner`: origins stored inside; `known`: True if their type is known
        to be mutable (None: decide from the container's element types)"""
        k = self.site(node)
        if inner:
            inner = set(inner)
            if types and ty.has_interior(types) is False:
                inner = {o for o in inner if o[0] == 'F'}
            self.heap[k] |= inner
            if known is None:
                known = self.elems_known_mutable(types)
            if known is True:
                self.heap_known.setdefault(k, set()).update(inner)
            elif known:
                self.heap_known.setdefault(k, set()).update(set(known) & inner)
        av = AV.__new__(AV)
        av.types = types
        av.const = NOCONST
        av.callee = None
        av.deps = frozenset()
        av.origins = frozenset() if (types and ty.maybe_mutable(types) is False) else frozenset([k])
        return av

    @staticmethod
    def elems_known_mutable(types: Types) -> bool:
        """the elements/values of every container term are known and all mutable"""
        if not types:
            return False
        for t in types:
            if t[0] in ('list', 'set', 'gen', 'tuple'):
                e = t[1]
            elif t[0] == 'dict':
                e = t[2]
            else:
                return False
            if not e or ty.maybe_mutable(e) is not True or any(ty.is_immutable_term(x) for x in e):
                return False
        return True

    def interior_known(self, av: AV) -> Set[tuple]:
        """subset of interior(av) whose objects are known to be of a mutable type"""
        if av.types and ty.has_interior(av.types) is False:
            return set()
        out = set()
        ek = self.elems_known_mutable(av.types)
        for o in av.origins:
            if o[0] in ('P', 'I'):
                if ek:
                    out.add(I(o[1]))
            elif o[0] == 'F':
                out |= self.heap_known.get(o, set())
                if ek:
                    out |= self.heap.get(o, set())
        return out

    def derive(self, node, types: Types, *sources: AV) -> AV:
        """fresh container holding (some of) the elements of the source containers"""
        inner, known = set(), set()
        for a in sources:
            inner |= self.interior(a)
            known |= self.interior_known(a)
        return self.fresh(node, types, inner, known if known else None)

    def interior(self, av: AV) -> FrozenSet[tuple]:
        """origins of objects stored directly inside the objects denoted by av (collapsed for params)"""
        if av.types and ty.has_interior(av.types) is False:
            return frozenset()
        out = set()
        for o in av.origins:
            if o[0] == 'P' or o[0] == 'I':
                out.add(I(o[1]))
            elif o[0] == 'F':
                out |= self.heap.get(o, set())
            else:
                out.add(o)
        return frozenset(out)

    def reach(self, origins) -> Set[tuple]:
        """transitive closure through fresh objects: everything reachable from inside"""
        out, stack, seen = set(), list(origins), set()
        while stack:
            o = stack.pop()
            if o in seen:
                continue
            seen.add(o)
            if o[0] == 'P' or o[0] == 'I':
                out.add(I(o[1]))
            elif o[0] == 'F':
                for x in self.heap.get(o, ()):
                    out.add(x)
                    stack.append(x)
            else:
                out.add(o)
        return out

    def loc(self, node) -> str:
        return f'{self.module.relpath}:{getattr(node, "lineno", "?")}'

    def witness(self, node, what, on='I', heads=None) -> Witness:
        return Witness(self.f.fq, norm_stmt(node), self.loc(node), (), what, on, heads)

    # ---------------------------------------------------------------- events
    def ev_mutate(self, origin, w: Witness):
        if origin[0] in ('P', 'I'):
            d = self.summary.mutates.setdefault(origin[1], {})
            k = w.key()
            if k not in d or w.better_than(d[k]):
                d[k] = w
        elif origin[0] == 'G':
            k = (origin[1],) + w.key()
            if k not in self.summary.globals or w.better_than(self.summary.globals[k]):
                self.summary.globals[k] = w

    def ev_capture(self, src_origin, dst_index, w: Witness):
        if src_origin[0] in ('P', 'I') and src_origin[1] != dst_index:
            key = ((src_origin[0], src_origin[1]), dst_index)
            self.summary.captures.add(key)
            if key not in self.summary.capture_w or w.better_than(self.summary.capture_w[key]):
                self.summary.capture_w[key] = w

    def ev_rng(self, w: Witness):
        k = w.key()
        if k not in self.summary.rng or w.better_than(self.summary.rng[k]):
            self.summary.rng[k] = w

    def store_into(self, recv: AV, value: Optional[AV], node, what: str):
        """primitive store of `value` into the object(s) `recv`"""
        if recv.types and ty.maybe_mutable(recv.types) is False:
            return
        vorig = set()
        vknown = False
        if value is not None and ty.maybe_mutable(value.types) is not False:
            vorig = set(value.origins)
            vknown = ty.maybe_mutable(value.types) is True and not ty.shallow_immutable(value.types)
        hd = ty.heads(recv.types)
        for o in recv.origins:
            if o[0] in ('P', 'I'):
                w = self.witness(node, what, 'P' if o[0] == 'P' else 'I', hd if o[0] == 'P' else None)
                self.ev_mutate(o, w)
                for vo in vorig | self.reach(vorig):
                    self.ev_capture(vo, o[1], w)
            elif o[0] == 'F':
                self.heap.setdefault(o, set()).update(vorig)
                if vknown:
                    self.heap_known.setdefault(o, set()).update(vorig)
            elif o[0] == 'G':
                self.ev_mutate(o, self.witness(node, what))
            elif o[0] == 'U':
                pass

    def mutate(self, recv: AV, node, what: str):
        self.store_into(recv, None, node, what)

    # ---------------------------------------------------------------- execution
    def execute(self) -> Summary:
        f = self.f
        env = Env()
        ptypes = self.an.param_types(f)
        for p in f.params:
            t = ptypes[p.index]
            const = NOCONST
            if p.name in self.spec:
                const = self.spec[p.name]
                t = T(ty.BOOL)
            av = AV(t, [P(p.index)], const, deps=frozenset([p.name]))
            if p.default is not None and isinstance(p.default, (ast.List, ast.Dict, ast.Set)):
                av = av.join(AV(t, [G(f'default:{f.fq}:{p.name}')], deps=frozenset([p.name])))
            env.set(p.name, av)
        out = self.block(f.node.body, env)
        if out is not None and not f.is_generator:
            self.returns.append(const_av(None))
        self.finish()
        return self.summary

    def _export_return(self, origins, known_top: bool):
        """record the origins of a returned/yielded container-or-object in the summary"""
        s = self.summary
        for o in origins:
            if o[0] == 'F':
                s.ret.add(('F',))
                self._export_children(o, s.ret_top_inner, set())
            else:
                s.ret.add(o)

    def _export_children(self, fo, into: Set[tuple], seen: Set[tuple]):
        s = self.summary
        if fo in seen:
            return
        seen.add(fo)
        for x in self.heap.get(fo, ()):
            if x[0] == 'F':
                into.add(('N',))
                self._export_children(x, s.ret_nested_inner, seen)
            else:
                into.add(x)
                if x in self.heap_known.get(fo, ()):
                    s.ret_inner_known.add(x)

    def finish(self):
        s = self.summary
        f = self.f
        rets = list(self.returns)
        for r in list(self.returns) + list(self.yields):
            s.ret_tags |= {d for d in r.deps if d.startswith('@')}
        if f.is_generator:
            # the call returns a generator object; its elements are the yielded values
            s.ret.add(('F',))
            elem_t = EMPTY
            for y in self.yields:
                elem_t = elem_t | y.types if y.types else elem_t
                if ty.maybe_mutable(y.types) is False:
                    continue
                known = ty.maybe_mutable(y.types) is True and not ty.shallow_immutable(y.types)
                for o in y.origins:
                    if o[0] == 'F':
                        s.ret_top_inner.add(('N',))
                        self._export_children(o, s.ret_nested_inner, set())
                    else:
                        s.ret_top_inner.add(o)
                        if known:
                            s.ret_inner_known.add(o)
            s.ret_types = T(('gen', elem_t))
            return
        tys = EMPTY
        known = True
        for r in rets:
            if r.types:
                tys = tys | r.types
            else:
                known = False
        ann = self.an.tp.parse(f.returns, f.module)
        if ann:
            s.ret_types = ann
        else:
            s.ret_types = tys if known else EMPTY
        for r in rets:
            if ty.maybe_mutable(r.types) is False:
                continue
            self._export_return(r.origins, True)
        if ann and ty.maybe_mutable(ann) is False:
            s.ret.clear()
            s.ret_top_inner.clear()
            s.ret_nested_inner.clear()
            s.ret_inner_known.clear()

    # ----- statements
    def block(self, stmts, env: Optional[Env]) -> Optional[Env]:
        for st in stmts:
            if env is None:
                return None
            env = self.stmt(st, env)
        return env

    def stmt(self, st, env: Env) -> Optional[Env]:
        m = getattr(self, 'st_' + type(st).__name__, None)
        if m is None:
            return env
        return m(st, env)

    def st_Expr(self, st, env):
        self.ev(st.value, env)
        return env

    def st_Pass(self, st, env):
        return env

    def st_Global(self, st, env):
        for n in st.names:
            env.set(n, AV(EMPTY, [G(f'{self.module.name}:{n}')]))
            self.events.append(('global_decl', n, st))
        return env

    st_Nonlocal = st_Global

    def st_Import(self, st, env):
        for al in st.names:
            env.set(al.asname or al.name.split('.')[0], AV(T(('module', al.name if al.asname else al.name.split('.')[0]))))
        return env

    def st_ImportFrom(self, st, env):
        for al in st.names:
            env.set(al.asname or al.name, UNKNOWN)
        return env

    def st_FunctionDef(self, st, env):
        nf = self.f.nested.get(st.name)
        env.set(st.name, AV(T(ty.CALLABLE), callee=('func', nf) if nf else None))
        return env

    st_AsyncFunctionDef = st_FunctionDef

    def st_ClassDef(self, st, env):
        env.set(st.name, UNKNOWN)
        return env

    def st_Assert(self, st, env):
        self.ev(st.test, env)
        t, _f = self.narrow(st.test, env)
        return t

    def st_Delete(self, st, env):
        for t in st.targets:
            if isinstance(t, ast.Name):
                env.vars.pop(t.id, None)
            elif isinstance(t, ast.Subscript):
                recv = self.ev(t.value, env)
                self.ev(t.slice, env)
                self.mutate(recv, st, 'del item')
            elif isinstance(t, ast.Attribute):
                recv = self.ev(t.value, env)
                self.mutate(recv, st, 'del attribute')
        return env

    def st_Return(self, st, env):
        av = self.ev(st.value, env) if st.value is not None else const_av(None)
        av = av.with_deps(av.deps | env.pdeps)
        self.returns.append(av)
        self.ret_records.append((st, av, 'return'))
        return None

    def st_Raise(self, st, env):
        if st.exc is not None:
            self.ev(st.exc, env)
        if st.cause is not None:
            self.ev(st.cause, env)
        return None

    def st_Break(self, st, env):
        if self.loop_breaks:
            self.loop_breaks[-1].append(env)
        return None

    def st_Continue(self, st, env):
        if self.loop_continues:
            self.loop_continues[-1].append(env)
        return None

    def st_Assign(self, st, env):
        for t in st.targets:
            if isinstance(t, ast.Name):
                v = st.value
                lit = None
                if isinstance(v, ast.Call) and isinstance(v.func, ast.Name) and v.func.id == 'dict' and not v.args and \
                        all(kw.arg is not None for kw in v.keywords):
                    lit = [(kw.arg, kw.value) for kw in v.keywords]
                elif isinstance(v, ast.Dict) and v.keys and all(isinstance(k, ast.Constant) and isinstance(k.value, str)
                                                               for k in v.keys):
                    lit = [(k.value, x) for k, x in zip(v.keys, v.values)]
                if lit is not None:
                    self.dict_literals[t.id] = lit
                else:
                    self.dict_literals.pop(t.id, None)
        val = self.ev(st.value, env)
        for t in st.targets:
            self.assign(t, val, env, st, st.value)
        return env

    def st_AnnAssign(self, st, env):
        if st.value is None:
            return env
        val = self.ev(st.value, env)
        ann = self.an.tp.parse(st.annotation, self.module)
        if ann:
            val = AV(ann, val.origins, val.const)
        self.assign(st.target, val, env, st, st.value)
        return env

    def st_AugAssign(self, st, env):
        val = self.ev(st.value, env)
        self.acc_records.append((st, val.deps, env.pdeps))
        t = st.target
        if isinstance(t, ast.Name):
            cur = env.get(t.id) or self.ev(t, env)
            if any(x[0] in ('list', 'set', 'dict', 'counter') for x in cur.types):
                # in-place update of a container object
                self.store_into(cur, AV(EMPTY, self.interior(val)), st, 'augmented assignment on container')
                env.set(t.id, cur.with_deps(cur.deps | val.deps | env.pdeps))
                return env
            env.set(t.id, AV(cur.types if cur.types and ty.maybe_mutable(cur.types) is False else EMPTY,
                             cur.origins | self.interior(val), deps=cur.deps | val.deps | env.pdeps))
            return env
        if isinstance(t, ast.Subscript):
            recv = self.ev(t.value, env)
            k = self.ev(t.slice, env)
            self.store_into(recv, val, st, 'augmented item assignment')
            self.taint_root(t.value, val.deps | k.deps, env)
            return env
        if isinstance(t, ast.Attribute):
            recv = self.ev(t.value, env)
            self.attr_store(recv, t.attr, val, st, env)
            self.taint_root(t.value, val.deps, env)
            return env
        return env

    def assign(self, target, val: AV, env: Env, st, value_expr=None):
        if env.pdeps - val.deps:
            val = val.with_deps(val.deps | env.pdeps)
        if isinstance(target, ast.Name):
            env.set(target.id, val)
        elif isinstance(target, (ast.Tuple, ast.List)):
            if value_expr is not None and isinstance(value_expr, (ast.Tuple, ast.List)) and \
                    len(value_expr.elts) == len(target.elts) and \
                    not any(isinstance(e, ast.Starred) for e in value_expr.elts + target.elts):
                vals = [self.ev(e, env) for e in value_expr.elts]
                for tt, vv in zip(target.elts, vals):
                    self.assign(tt, vv, env, st)
            else:
                et = ty.value_types(val.types) or ty.elem_types(val.types)
                for i, tt in enumerate(target.elts):
                    if isinstance(tt, ast.Starred):
                        self.assign(tt.value, AV(T(('list', et)), self.interior(val), deps=val.deps), env, st)
                    else:
                        self.assign(tt, AV(self.tuple_elem_type(val, i, len(target.elts)), self.interior(val),
                                           deps=val.deps), env, st)
        elif isinstance(target, ast.Attribute):
            recv = self.ev(target.value, env)
            self.attr_store(recv, target.attr, val, st, env)
            self.taint_root(target.value, val.deps, env)
        elif isinstance(target, ast.Subscript):
            recv = self.ev(target.value, env)
            k = self.ev(target.slice, env)
            self.store_into(recv, val, st, 'item assignment')
            self._repeat_store(st, target.slice, value_expr, val)
            self.acc_records.append((st, val.deps | k.deps, env.pdeps))
            self.sub_records.append((st, k.deps, val.deps, recv.origins))
            self.taint_root(target.value, val.deps | k.deps, env)
        elif isinstance(target, ast.Starred):
            self.assign(target.value, val, env, st)

    def taint_root(self, expr, deps, env: Env):
        """a store through `expr` makes the variable at its root depend on `deps`"""
        while isinstance(expr, (ast.Attribute, ast.Subscript)):
            expr = expr.value
        if isinstance(expr, ast.Name):
            cur = env.get(expr.id)
            if cur is not None:
                nd = cur.deps | deps | env.pdeps
                if nd != cur.deps:
                    env.set(expr.id, cur.with_deps(nd))

    def tuple_elem_type(self, val: AV, i: int, n: int) -> Types:
        # tuple types carry only the union of their element types: usable only when homogeneous
        out = set()
        for t in val.types:
            if t[0] == 'tuple':
                if len(t[1]) != 1:
                    return EMPTY
                out |= set(t[1])
            elif t[0] in ('list', 'set', 'gen'):
                out |= set(t[1])
            else:
                return EMPTY
        return frozenset(out)

    def attr_store(self, recv: AV, attr: str, val: AV, st, env):
        handled = False
        for t in recv.types:
            if t[0] == 'cls':
                ci = self.class_by_fq(t[1])
                if ci is None:
                    continue
                setter = self.find_setter(ci, attr)
                if setter is not None:
                    self.apply_call(setter, {0: recv, 1: val}, st, f'{attr} = ... (property setter)', env)
                    handled = True
                else:
                    if self.f.cls is not None and ci.fq == self.f.cls.fq and \
                            any(o == P(0) for o in recv.origins):
                        self.an.add_attr_type(ci.fq, attr, val.types)
        if not handled:
            self.store_into(recv, val, st, f'attribute store .{attr}')
        else:
            # also a direct store for non-class alternatives of the receiver
            if any(t[0] != 'cls' for t in recv.types) or not recv.types:
                self.store_into(recv, val, st, f'attribute store .{attr}')

    def find_setter(self, ci: ClassInfo, attr: str) -> Optional[FuncInfo]:
        c = ci
        if attr in c.setters:
            return c.setters[attr]
        return None

    def class_by_fq(self, fq: str) -> Optional[ClassInfo]:
        mod, name = fq.split(':')
        m = self.program.modules.get(mod)
        return m.classes.get(name) if m else None

    def st_If(self, st, env):
        c = self.ev(st.test, env)
        dec = self.truth(c)
        te, fe = self.narrow(st.test, env)
        if dec is True:
            return self.block(st.body, te)
        if dec is False:
            return self.block(st.orelse, fe)
        pre = env.pdeps
        if te is fe or te is env:
            te = te.copy()
        if fe is env:
            fe = fe.copy()
        te.pdeps = pre | c.deps
        fe.pdeps = pre | c.deps
        a = self.block(st.body, te)
        b = self.block(st.orelse, fe)
        res = join_env(a, b)
        if res is not None and a is not None and b is not None:
            res.pdeps = pre  # both branches continue: control dependence ends at the join
        return res

    def truth(self, av: AV):
        if av.const is NOCONST:
            return None
        try:
            return bool(av.const)
        except Exception:
            return None

    def st_While(self, st, env):
        self.loop_breaks.append([])
        self.loop_continues.append([])
        cur = env
        pre_pdeps = env.pdeps
        for _ in range(4):
            tv = self.ev(st.test, cur)
            te, fe = self.narrow(st.test, cur)
            body_env = te.copy() if te else None
            if body_env is not None:
                body_env.pdeps = pre_pdeps | tv.deps
            out = self.block(st.body, body_env)
            for c in self.loop_continues[-1]:
                out = join_env(out, c)
            self.loop_continues[-1] = []
            nxt = join_env(cur, out)
            if env_eq(nxt, cur):
                break
            cur = nxt
        self.ev(st.test, cur)
        _te, fe = self.narrow(st.test, cur)
        res = fe
        if isinstance(st.test, ast.Constant) and st.test.value is True:
            res = None
        for b in self.loop_breaks.pop():
            res = join_env(res, b)
        self.loop_continues.pop()
        if st.orelse:
            res = self.block(st.orelse, res)
        if res is not None:
            res = res.copy()
            res.pdeps = pre_pdeps
        return res

    def st_For(self, st, env):
        if isinstance(st.target, ast.Name) and isinstance(st.iter, (ast.Tuple, ast.List, ast.Set)) and \
                all(isinstance(x, ast.Constant) for x in st.iter.elts):
            self.const_sets[st.target.id] = [x.value for x in st.iter.elts]
        it = self.ev(st.iter, env)
        elem = self.iter_elem(it)
        stored = {x.id for x in ast.walk(st) if isinstance(x, ast.Name) and isinstance(x.ctx, ast.Store)}
        self.for_stack.append((st, stored))
        try:
            return self._for(st, env, it, elem)
        finally:
            self.for_stack.pop()

    def _for(self, st, env, it, elem):
        self.loop_breaks.append([])
        self.loop_continues.append([])
        cur = env
        pre_pdeps = env.pdeps
        for _ in range(4):
            body_env = cur.copy()
            body_env.pdeps = pre_pdeps | it.deps
            self.bind_target(st.target, elem.with_deps(elem.deps | it.deps), body_env, st, st.iter)
            out = self.block(st.body, body_env)
            for c in self.loop_continues[-1]:
                out = join_env(out, c)
            self.loop_continues[-1] = []
            nxt = join_env(cur, out)
            if env_eq(nxt, cur):
                break
            cur = nxt
        res = cur
        brk = self.loop_breaks.pop()
        self.loop_continues.pop()
        if st.orelse:
            res = self.block(st.orelse, res)
        for b in brk:
            res = join_env(res, b)
        if res is not None:
            res = res.copy()
            res.pdeps = pre_pdeps
        return res

    st_AsyncFor = st_For

    def iter_elem(self, it: AV) -> AV:
        et = ty.elem_types(it.types)
        return AV(et, self.interior(it))

    def bind_target(self, target, elem: AV, env: Env, st, iter_expr=None):
        if isinstance(target, ast.Name):
            env.set(target.id, elem.with_deps(elem.deps | env.pdeps))
            return
        if isinstance(target, (ast.Tuple, ast.List)):
            # element of items()/enumerate()/zip(): distribute interior
            sub_t = EMPTY
            tup = [t for t in elem.types if t[0] == 'tuple']
            if tup:
                sub_t = frozenset().union(*[t[1] for t in tup])
            special = self.special_iter_types(iter_expr, env) if iter_expr is not None else None
            for i, tt in enumerate(target.elts):
                tt_types = sub_t
                if special is not None and i < len(special):
                    tt_types = special[i]
                inner_t = tt.value if isinstance(tt, ast.Starred) else tt
                if special is not None:
                    # items()/enumerate()/zip(): the pair itself is not materialised, its fields are the values
                    self.bind_target(inner_t, AV(tt_types, elem.origins, deps=elem.deps), env, st)
                else:
                    self.bind_target(inner_t, AV(tt_types, elem.origins | self.interior(elem), deps=elem.deps),
                                     env, st)
            return
        if isinstance(target, ast.Starred):
            self.bind_target(target.value, elem, env, st)
            return
        # attribute / subscript loop targets: treat as stores
        self.assign(target, elem, env, st)

    def special_iter_types(self, iter_expr, env) -> Optional[List[Types]]:
        """per-position element types for x.items(), enumerate(x), zip(a, b)"""
        if isinstance(iter_expr, ast.Call):
            fn = iter_expr.func
            if isinstance(fn, ast.Attribute) and fn.attr == 'items' and not iter_expr.args:
                recv = self.ev_quiet(fn.value, env)
                ks, vs = set(), set()
                for t in recv.types:
                    if t[0] == 'dict':
                        ks |= set(t[1])
                        vs |= set(t[2])
                    elif t[0] == 'counter':
                        vs.add(ty.INT)
                return [frozenset(ks), frozenset(vs)]
            if isinstance(fn, ast.Name) and fn.id == 'enumerate' and iter_expr.args:
                a = self.ev_quiet(iter_expr.args[0], env)
                return [T(ty.INT), ty.elem_types(a.types)]
            if isinstance(fn, ast.Name) and fn.id == 'zip':
                out = []
                for a in iter_expr.args:
                    if isinstance(a, ast.Starred):
                        return None
                    out.append(ty.elem_types(self.ev_quiet(a, env).types))
                return out
        return None

    def ev_quiet(self, expr, env) -> AV:
        """evaluate for types only: suppress events and call records"""
        saved = (self.summary, self.call_records, self.events, self.returns, self.yields, self.ret_records)
        self.summary, self.call_records, self.events = Summary(), [], []
        self.returns, self.yields, self.ret_records = [], [], []
        try:
            return self.ev(expr, env)
        finally:
            self.summary, self.call_records, self.events, self.returns, self.yields, self.ret_records = saved

    def st_With(self, st, env):
        for item in st.items:
            v = self.ev(item.context_expr, env)
            if item.optional_vars is not None:
                self.assign(item.optional_vars, v, env, st)
        return self.block(st.body, env)

    st_AsyncWith = st_With

    def st_Try(self, st, env):
        pre = env.copy()
        body_out = self.block(st.body, env)
        # handlers start from any point of the body: join of pre and post state
        h_in = join_env(pre, body_out)
        outs = []
        if st.orelse:
            body_out = self.block(st.orelse, body_out)
        outs.append(body_out)
        for h in st.handlers:
            he = h_in.copy() if h_in is not None else None
            if he is not None and h.name:
                he.set(h.name, AV(T(('ext', 'Exception'))))
            if h.type is not None and he is not None:
                self.ev(h.type, he)
            outs.append(self.block(h.body, he))
        res = None
        for o in outs:
            res = join_env(res, o)
        if st.finalbody:
            if res is None:
                # still analyse the finally block for its effects
                self.block(st.finalbody, h_in.copy() if h_in is not None else pre)
                return None
            res = self.block(st.finalbody, res)
        return res

    st_TryStar = st_Try

    def st_Match(self, st, env):
        self.ev(st.subject, env)
        res = None
        for case in st.cases:
            res = join_env(res, self.block(case.body, env.copy()))
        return join_env(res, env)

    # ----- narrowing
    def narrow(self, test, env: Env) -> Tuple[Optional[Env], Optional[Env]]:
        """-> (env if test true, env if test false); copies are made lazily"""
        if isinstance(test, ast.UnaryOp) and isinstance(test.op, ast.Not):
            t, f = self.narrow(test.operand, env)
            return f, t
        if isinstance(test, ast.BoolOp):
            if isinstance(test.op, ast.And):
                t = env
                f_acc = None
                for v in test.values:
                    if t is None:
                        break
                    tt, ff = self.narrow(v, t)
                    f_acc = join_env(f_acc, ff)
                    t = tt
                return t, f_acc if f_acc is not None else env
            else:
                f = env
                t_acc = None
                for v in test.values:
                    if f is None:
                        break
                    tt, ff = self.narrow(v, f)
                    t_acc = join_env(t_acc, tt)
                    f = ff
                return (t_acc if t_acc is not None else env), f
        if isinstance(test, ast.Call) and isinstance(test.func, ast.Name) and test.func.id == 'isinstance' and \
                len(test.args) == 2 and isinstance(test.args[0], ast.Name):
            name = test.args[0].id
            cur = env.get(name)
            if cur is None:
                return env, env
            want = self.isinstance_types(test.args[1])
            if want is None:
                return env, env
            heads_cls = {t for t in want}
            def match(term):
                for w in want:
                    if w[0] == term[0] and (w[0] != 'cls' or w[1] == term[1]):
                        return True
                    if w[0] == 'float' and term[0] == 'int':
                        return False
                    if w[0] == 'int' and term[0] == 'bool':
                        return True
                    if w[0] == 'dict' and term[0] == 'counter':
                        return True
                return False
            if cur.types:
                yes = frozenset(t for t in cur.types if match(t))
                no = frozenset(t for t in cur.types if not match(t))
                if not yes:
                    yes = frozenset((w if len(w) > 1 or w[0] not in ('list', 'set', 'tuple', 'dict') else
                                     ((w[0], EMPTY) if w[0] != 'dict' else ('dict', EMPTY, EMPTY))) for w in want)
                te, fe = env.copy(), env.copy()
                te.set(name, AV(yes, cur.origins, cur.const, deps=cur.deps))
                fe.set(name, AV(no, cur.origins, cur.const, deps=cur.deps) if no else
                       AV(EMPTY, cur.origins, cur.const, deps=cur.deps))
                return te, fe
            else:
                te = env.copy()
                yes = frozenset((w if len(w) > 1 or w[0] not in ('list', 'set', 'tuple', 'dict') else
                                 ((w[0], EMPTY) if w[0] != 'dict' else ('dict', EMPTY, EMPTY))) for w in want)
                te.set(name, AV(yes, cur.origins, cur.const, deps=cur.deps))
                return te, env
        if isinstance(test, ast.Compare) and len(test.ops) == 1 and isinstance(test.left, ast.Name):
            name = test.left.id
            cur = env.get(name)
            comp = test.comparators[0]
            if cur is not None and isinstance(comp, ast.Constant) and comp.value is None and \
                    isinstance(test.ops[0], (ast.Is, ast.IsNot, ast.Eq, ast.NotEq)):
                is_none = isinstance(test.ops[0], (ast.Is, ast.Eq))
                none_env, some_env = env.copy(), env.copy()
                none_env.set(name, const_av(None).with_deps(cur.deps))
                if cur.types:
                    rest = frozenset(t for t in cur.types if t != ty.NONE)
                    some_env.set(name, AV(rest, cur.origins, cur.const if cur.const is not None else NOCONST,
                                          deps=cur.deps))
                return (none_env, some_env) if is_none else (some_env, none_env)
        if isinstance(test, ast.Name):
            cur = env.get(test.id)
            if cur is not None and cur.types and ty.NONE in cur.types:
                te = env.copy()
                te.set(test.id, AV(frozenset(t for t in cur.types if t != ty.NONE), cur.origins, cur.const,
                                   deps=cur.deps))
                return te, env
        return env, env

    def isinstance_types(self, expr) -> Optional[Set[tuple]]:
        items = expr.elts if isinstance(expr, ast.Tuple) else [expr]
        out = set()
        for it in items:
            if isinstance(it, ast.Name):
                n = it.id
                if n in ('str', 'int', 'float', 'bool', 'bytes'):
                    out.add((n,))
                elif n in ('list', 'List'):
                    out.add(('list',))
                elif n in ('dict', 'Dict'):
                    out.add(('dict',))
                elif n in ('tuple', 'Tuple'):
                    out.add(('tuple',))
                elif n in ('set', 'Set'):
                    out.add(('set',))
                else:
                    r = self.program.resolve_name(self.module.name, n)
                    if r and r[0] == 'class':
                        out.add(('cls', r[1].fq))
                    elif r and r[0] == 'external' and r[2] in ('List', 'Dict', 'Tuple', 'Set'):
                        out.add((r[2].lower(),))
                    else:
                        return None
            elif isinstance(it, ast.Attribute):
                return None
            else:
                return None
        return out

    # ----- expressions
    def ev(self, e, env: Env) -> AV:
        if e is None:
            return const_av(None)
        self._dep_stack.append(set())
        try:
            m = getattr(self, 'ex_' + type(e).__name__, None)
            if m is None:
                for ch in ast.iter_child_nodes(e):
                    if isinstance(ch, ast.expr):
                        self.ev(ch, env)
                r = UNKNOWN
            else:
                r = m(e, env)
        finally:
            d = self._dep_stack.pop()
        if self._dep_stack:
            self._dep_stack[-1] |= d
        return r.with_deps(frozenset(d))

    def ex_Constant(self, e, env):
        return const_av(e.value)

    def ex_Name(self, e, env):
        v = env.get(e.id)
        if v is not None:
            if self._dep_stack:
                self._dep_stack[-1] |= v.deps
            return v
        return self.global_name(e.id)

    def global_name(self, name: str) -> AV:
        r = self.program.resolve_name(self.module.name, name)
        if r is None:
            if name in ('True', 'False', 'None'):
                return const_av({'True': True, 'False': False, 'None': None}[name])
            return AV(T(ty.CALLABLE), callee=('builtin', name))
        if r[0] == 'func':
            return AV(T(('func', r[1].fq)), callee=('func', r[1]))
        if r[0] == 'class':
            return AV(T(('classobj', r[1].fq)), callee=('class', r[1]))
        if r[0] == 'module':
            return AV(T(('module', r[1])))
        if r[0] == 'external':
            return AV(T(ty.CALLABLE), callee=('ext', f'{r[1]}.{r[2]}'))
        if r[0] == 'global':
            expr = r[3]
            gname = f'{r[1]}:{r[2]}'
            if isinstance(expr, ast.Constant):
                return const_av(expr.value)
            types = self.global_types(r[1], r[2], expr)
            return AV(types, [G(gname)])
        return UNKNOWN

    def global_types(self, mod: str, name: str, expr) -> Types:
        m = self.program.modules[mod]
        node = m.assign_nodes.get(name)
        if isinstance(node, ast.AnnAssign):
            t = self.an.tp.parse(node.annotation, m)
            if t:
                return t
        if isinstance(expr, ast.Dict):
            return T(('dict', EMPTY, EMPTY))
        if isinstance(expr, (ast.List, ast.ListComp)):
            return T(('list', EMPTY))
        if isinstance(expr, (ast.Set, ast.SetComp)):
            return T(('set', EMPTY))
        if isinstance(expr, ast.DictComp):
            return T(('dict', EMPTY, EMPTY))
        if isinstance(expr, ast.Call) and isinstance(expr.func, ast.Name):
            r = self.program.resolve_name(mod, expr.func.id)
            if r and r[0] == 'class':
                return T(('cls', r[1].fq))
            if r and r[0] == 'func':
                return self.an.tp.parse(r[1].returns, r[1].module)
        if isinstance(expr, ast.Call) and isinstance(expr.func, ast.Attribute) and expr.func.attr == 'compile':
            return T(('ext', 'regex.Pattern'))
        return EMPTY

    def ex_Attribute(self, e, env):
        recv = self.ev(e.value, env)
        if self._dep_stack and any(o[0] in ('P', 'I') for o in recv.origins):
            # field-read tag: lets the field-coverage rules ask "does this value depend on field X of an argument"
            self._dep_stack[-1].add('@' + e.attr.lstrip('_'))
        return self.attr_load(recv, e.attr, e, env)

    def attr_load(self, recv: AV, attr: str, node, env) -> AV:
        res: Optional[AV] = None
        unknown_part = not recv.types

        def add(av):
            nonlocal res
            res = av if res is None else res.join(av)

        for t in recv.types:
            if t[0] == 'module':
                r = self.module_attr(t[1], attr)
                add(r)
            elif t[0] == 'cls':
                ci = self.class_by_fq(t[1])
                if ci is None:
                    unknown_part = True
                    continue
                m = self.program.method(ci, attr)
                if m is not None and m.is_property:
                    add(self.apply_call(m, {0: AV(T(t), recv.origins)}, node, f'.{attr} (property)', env))
                elif m is not None:
                    add(AV(T(ty.CALLABLE), callee=('method', m, AV(T(t), recv.origins))))
                else:
                    ft = self.an.field_types(ci, attr)
                    if ft is None:
                        self.events.append(('unknown_attr', ci.fq, attr, node))
                        ft = EMPTY
                    add(AV(ft, self.interior(AV(T(t), recv.origins))))
            elif t[0] in ('str', 'int', 'float', 'bool', 'none', 'bytes'):
                add(AV(T(ty.CALLABLE), callee=('bmethod', t[0], attr, recv)))
            elif t[0] in ('list', 'dict', 'set', 'tuple', 'counter', 'gen'):
                add(AV(T(ty.CALLABLE), callee=('bmethod', t[0], attr, AV(T(t), recv.origins))))
            elif t[0] == 'ext':
                add(AV(EMPTY, callee=('bmethod', 'ext', attr, recv)))
            else:
                unknown_part = True
        if unknown_part:
            add(AV(EMPTY, self.interior(recv), callee=('umethod', attr, recv)))
        return res if res is not None else UNKNOWN

    def module_attr(self, dotted: str, attr: str) -> AV:
        m = self.program.modules.get(dotted)
        if m is not None:
            # attribute of a repository module
            saved = self.module
            r = self.program.resolve_name(dotted, attr)
            if r is None:
                sub = f'{dotted}.{attr}'
                if sub in self.program.modules:
                    return AV(T(('module', sub)))
                return UNKNOWN
            if r[0] == 'func':
                return AV(T(('func', r[1].fq)), callee=('func', r[1]))
            if r[0] == 'class':
                return AV(T(('classobj', r[1].fq)), callee=('class', r[1]))
            if r[0] == 'module':
                return AV(T(('module', r[1])))
            if r[0] == 'global':
                if isinstance(r[3], ast.Constant):
                    return const_av(r[3].value)
                return AV(self.global_types(r[1], r[2], r[3]), [G(f'{r[1]}:{r[2]}')])
            if r[0] == 'external':
                return AV(T(ty.CALLABLE), callee=('ext', f'{r[1]}.{r[2]}'))
            return UNKNOWN
        full = f'{dotted}.{attr}'
        if full in ('os.path', 'collections.abc'):
            return AV(T(('module', full)))
        return AV(T(ty.CALLABLE), callee=('ext', full))

    def ex_Subscript(self, e, env):
        recv = self.ev(e.value, env)
        self.ev(e.slice, env)
        if isinstance(e.slice, ast.Slice):
            if any(t[0] in ('str', 'bytes') for t in recv.types) and ty.maybe_mutable(recv.types) is False:
                return AV(recv.types)
            if recv.types and all(t[0] == 'tuple' for t in recv.types):
                return self.derive(e, recv.types, recv)
            return self.derive(e, recv.types if recv.types else EMPTY, recv)
        vt = ty.value_types(recv.types)
        return AV(vt, self.interior(recv))

    def ex_Slice(self, e, env):
        for x in (e.lower, e.upper, e.step):
            if x is not None:
                self.ev(x, env)
        return IMM

    def ex_Starred(self, e, env):
        v = self.ev(e.value, env)
        return AV(ty.elem_types(v.types), self.interior(v))

    def ex_BinOp(self, e, env):
        a = self.ev(e.left, env)
        b = self.ev(e.right, env)
        for x in (a, b):
            if x.types and ty.maybe_mutable(x.types) is False and x is a and \
                    b.types and ty.maybe_mutable(b.types) is False:
                num = {ty.INT, ty.FLOAT, ty.BOOL}
                if a.types <= num and b.types <= num:
                    if isinstance(e.op, ast.Div):
                        return AV(T(ty.FLOAT))
                    return AV(a.types | b.types)
                if ty.STR in a.types and isinstance(e.op, (ast.Add, ast.Mod, ast.Mult)):
                    return AV(T(ty.STR))
                return AV(a.types | b.types)
        cont = [t for t in (a.types | b.types) if t[0] in ('list', 'tuple', 'set', 'dict', 'counter')]
        if cont:
            return self.derive(e, frozenset(cont), a, b)
        if (a.types and ty.maybe_mutable(a.types) is False) or (b.types and ty.maybe_mutable(b.types) is False):
            # number/str (x) unknown: result of arithmetic is a new immutable in every use the package makes
            return AV(a.types if a.types else b.types)
        return self.derive(e, EMPTY, a, b)

    def ex_UnaryOp(self, e, env):
        v = self.ev(e.operand, env)
        if isinstance(e.op, ast.Not):
            if v.const is not NOCONST:
                try:
                    return const_av(not v.const)
                except Exception:
                    pass
            return AV(T(ty.BOOL))
        if v.const is not NOCONST and isinstance(v.const, (int, float)) and isinstance(e.op, ast.USub):
            return const_av(-v.const)
        return AV(v.types if v.types and ty.maybe_mutable(v.types) is False else T(ty.FLOAT))

    def ex_BoolOp(self, e, env):
        res = None
        cur = env
        vals = []
        for v in e.values:
            av = self.ev(v, cur)
            vals.append(av)
            t, f = self.narrow(v, cur)
            cur = (t if isinstance(e.op, ast.And) else f) or cur
        # constant folding for spec'd parameters
        consts = [v.const for v in vals]
        if all(c is not NOCONST for c in consts):
            try:
                r = consts[0]
                for c in consts[1:]:
                    r = (r and c) if isinstance(e.op, ast.And) else (r or c)
                return const_av(r)
            except Exception:
                pass
        for av in vals:
            res = av if res is None else res.join(av)
        if res is not None and res.const is not NOCONST:
            res = AV(res.types, res.origins)
        return res or UNKNOWN

    def ex_Compare(self, e, env):
        left = self.ev(e.left, env)
        comps = [self.ev(c, env) for c in e.comparators]
        if len(comps) == 1 and left.const is not NOCONST and comps[0].const is not NOCONST:
            a, b, op = left.const, comps[0].const, e.ops[0]
            try:
                if isinstance(op, ast.Is):
                    if isinstance(a, bool) or a is None or isinstance(b, bool) or b is None:
                        return const_av(a is b)
                elif isinstance(op, ast.IsNot):
                    if isinstance(a, bool) or a is None or isinstance(b, bool) or b is None:
                        return const_av(a is not b)
                elif isinstance(op, ast.Eq):
                    return const_av(a == b)
                elif isinstance(op, ast.NotEq):
                    return const_av(a != b)
            except Exception:
                pass
        return AV(T(ty.BOOL))

    def ex_IfExp(self, e, env):
        c = self.ev(e.test, env)
        t, f = self.narrow(e.test, env)
        dec = self.truth(c)
        if dec is True:
            return self.ev(e.body, t or env)
        if dec is False:
            return self.ev(e.orelse, f or env)
        a = self.ev(e.body, t or env)
        b = self.ev(e.orelse, f or env)
        return a.join(b)

    def ex_NamedExpr(self, e, env):
        v = self.ev(e.value, env)
        self.assign(e.target, v, env, e)
        return v

    def _display(self, e, env, kind):
        inner = set()
        et = set()
        known = True
        for x in e.elts:
            v = self.ev(x, env)
            if isinstance(x, ast.Starred):
                pass
            if ty.maybe_mutable(v.types) is not False:
                inner |= v.origins
            if v.types:
                et |= v.types
            else:
                known = False
        types = T((kind, frozenset(et) if known else EMPTY))
        return self.fresh(e, types, inner)

    def ex_List(self, e, env):
        return self._display(e, env, 'list')

    def ex_Tuple(self, e, env):
        return self._display(e, env, 'tuple')

    def ex_Set(self, e, env):
        return self._display(e, env, 'set')

    def ex_Dict(self, e, env):
        inner = set()
        kt, vt, known = set(), set(), True
        for k, v in zip(e.keys, e.values):
            vv = self.ev(v, env)
            if k is None:
                inner |= self.interior(vv)
                for t in vv.types:
                    if t[0] == 'dict':
                        kt |= set(t[1])
                        vt |= set(t[2])
                if not vv.types:
                    known = False
                continue
            kk = self.ev(k, env)
            if ty.maybe_mutable(vv.types) is not False:
                inner |= vv.origins
            if kk.types:
                kt |= kk.types
            if vv.types:
                vt |= vv.types
            else:
                known = False
        return self.fresh(e, T(('dict', frozenset(kt), frozenset(vt) if known else EMPTY)), inner)

    def _comp(self, e, env, kind):
        cenv = env.copy()
        for g in e.generators:
            it = self.ev(g.iter, cenv)
            el = self.iter_elem(it)
            # like a for statement: what an element is depends on what is iterated over
            self.bind_target(g.target, el.with_deps(el.deps | it.deps), cenv, e, g.iter)
            for cond in g.ifs:
                self.ev(cond, cenv)
                t, _f = self.narrow(cond, cenv)
                cenv = t or cenv
        if kind == 'dict':
            k = self.ev(e.key, cenv)
            v = self.ev(e.value, cenv)
            self._repeat_alias(e, e.value, v)
            inner = set(v.origins) if ty.maybe_mutable(v.types) is not False else set()
            return self.fresh(e, T(('dict', k.types, v.types)), inner)
        v = self.ev(e.elt, cenv)
        if kind in ('list', 'set'):
            self._repeat_alias(e, e.elt, v)
        inner = set(v.origins) if ty.maybe_mutable(v.types) is not False else set()
        return self.fresh(e, T((kind, v.types)), inner)

    def _repeat_store(self, st, key_expr, value_expr, v: AV):
        """`for x in xs: d[<key from x>] = obj` where obj is a plain name that the loop never rebinds stores ONE
        object under several keys; if it is mutable the entries alias each other"""
        if not self.for_stack or not isinstance(value_expr, ast.Name):
            return
        loop, stored = self.for_stack[-1]
        if value_expr.id in stored:
            return
        knames = {x.id for x in ast.walk(key_expr) if isinstance(x, ast.Name)}
        if not (knames & stored):
            return  # the same key on every iteration: an overwrite, not several entries
        # a store that is followed by leaving the loop happens once
        for blk in ast.walk(loop):
            body = getattr(blk, 'body', None)
            for lst in (body, getattr(blk, 'orelse', None)):
                if isinstance(lst, list) and st in lst:
                    rest = lst[lst.index(st) + 1:]
                    if any(isinstance(x, (ast.Break, ast.Return)) for x in rest):
                        return
        # only containers: one record object filed under several keys is what an index is
        hs = ty.heads(v.types)
        if hs and {h[0] for h in hs} <= {'list', 'dict', 'set', 'counter'} and ty.maybe_mutable(v.types) is True:
            self.events.append(('repeat_alias', norm_stmt(st), st, ty.fmt_types(v.types)))

    def _repeat_alias(self, comp, elt, v: AV):
        """a comprehension whose element does not depend on the comprehension variables stores ONE object at
        every position; if that object is mutable the positions alias each other"""
        targets = set()
        for g in comp.generators:
            for x in ast.walk(g.target):
                if isinstance(x, ast.Name):
                    targets.add(x.id)
        # a name bound by `:=` inside the comprehension (typically in a filter) is bound anew for every element
        for g in comp.generators:
            for cond in g.ifs:
                for x in ast.walk(cond):
                    if isinstance(x, ast.NamedExpr) and isinstance(x.target, ast.Name):
                        targets.add(x.target.id)
        for part in ([comp.key, comp.value] if isinstance(comp, ast.DictComp) else [comp.elt]):
            for x in ast.walk(part):
                if isinstance(x, ast.NamedExpr) and isinstance(x.target, ast.Name):
                    targets.add(x.target.id)
        names = {x.id for x in ast.walk(elt) if isinstance(x, ast.Name)}
        if names & targets:
            return
        if not isinstance(elt, ast.Name):
            return  # a call / display / copy produces a new object per iteration
        if ty.maybe_mutable(v.types) is True and not ty.shallow_immutable(v.types):
            self.events.append(('repeat_alias', norm_stmt(comp), comp, ty.fmt_types(v.types)))

    def ex_ListComp(self, e, env):
        return self._comp(e, env, 'list')

    def ex_SetComp(self, e, env):
        return self._comp(e, env, 'set')

    def ex_GeneratorExp(self, e, env):
        return self._comp(e, env, 'gen')

    def ex_DictComp(self, e, env):
        return self._comp(e, env, 'dict')

    def ex_JoinedStr(self, e, env):
        for v in e.values:
            self.ev(v, env)
        return AV(T(ty.STR))

    def ex_FormattedValue(self, e, env):
        self.ev(e.value, env)
        if e.format_spec is not None:
            self.ev(e.format_spec, env)
        return AV(T(ty.STR))

    def ex_Lambda(self, e, env):
        lenv = env.copy()
        for a in e.args.args:
            lenv.set(a.arg, UNKNOWN)
        self.ev(e.body, lenv)
        return AV(T(ty.CALLABLE), callee=('lambda', e))

    def ex_Yield(self, e, env):
        v = self.ev(e.value, env) if e.value is not None else const_av(None)
        v = v.with_deps(v.deps | env.pdeps)
        self.yields.append(v)
        self.ret_records.append((e, v, 'yield'))
        return UNKNOWN

    def ex_YieldFrom(self, e, env):
        v = self.ev(e.value, env)
        elem = self.iter_elem(v)
        self.yields.append(elem)
        self.ret_records.append((e, elem, 'yield from'))
        return UNKNOWN

    def ex_Await(self, e, env):
        return self.ev(e.value, env)

    # ----- calls
    def ex_Call(self, e, env):
        fn = e.func
        args = [self.ev(a, env) for a in e.args]
        kwargs = {}
        star_kwargs = None
        eff_keywords = []
        for kw in e.keywords:
            if kw.arg is None and isinstance(kw.value, ast.Name) and kw.value.id in self.dict_literals:
                # f(**shared) where shared = dict(a=x, b=y) / {'a': x, 'b': y}: the same as f(a=x, b=y)
                for k_, vexpr in self.dict_literals[kw.value.id]:
                    kwargs[k_] = self.ev(vexpr, env)
                    eff_keywords.append(ast.keyword(arg=k_, value=vexpr))
                continue
            v = self.ev(kw.value, env)
            if kw.arg is None:
                star_kwargs = v
            else:
                kwargs[kw.arg] = v
            eff_keywords.append(kw)
        self._eff_keywords[id(e)] = eff_keywords
        has_star = any(isinstance(a, ast.Starred) for a in e.args)
        callee_av = self.ev(fn, env)
        alts = callee_av.callee
        text = norm_stmt(e)
        if not alts:
            self.summary.unresolved_nodes[id(e)] = f'{self.loc(e)}: {norm_stmt(e)}'
            self.call_records.append(CallRecord(e, self.f))
            return AV(EMPTY, [U])
        res = None
        for c in alts:
            r = self.call_one(c, e, args, kwargs, has_star, star_kwargs, env, text)
            if r is None:
                continue
            res = r if res is None else res.join(r)
        if isinstance(fn, ast.Attribute) and (fn.attr in LIST_MUTATORS or fn.attr in DICT_MUTATORS or
                                              fn.attr in SET_MUTATORS or fn.attr.startswith('add_')):
            d = set()
            for a in list(args) + list(kwargs.values()):
                d |= a.deps
            self.taint_root(fn.value, frozenset(d), env)
        return res if res is not None else AV(EMPTY, [U])

    def call_one(self, c, e, args, kwargs, has_star, star_kwargs, env, text) -> Optional[AV]:
        kind = c[0]
        if kind == 'func' and c[1] is not None:
            return self.call_repo(c[1], None, e, args, kwargs, has_star, star_kwargs, env)
        if kind == 'method':
            return self.call_repo(c[1], c[2], e, args, kwargs, has_star, star_kwargs, env)
        if kind == 'class':
            return self.call_class(c[1], e, args, kwargs, has_star, star_kwargs, env)
        if kind == 'builtin':
            return self.call_builtin(c[1], e, args, kwargs, env)
        if kind == 'ext':
            return self.call_ext(c[1], e, args, kwargs, env)
        if kind == 'bmethod':
            if c[1] == 'none':
                return None  # calling a method on None raises; not a value path
            return self.call_bmethod(c[1], c[2], c[3], e, args, kwargs, env)
        if kind == 'umethod':
            return self.call_umethod(c[1], c[2], e, args, kwargs, has_star, star_kwargs, env)
        if kind == 'lambda':
            self.summary.resolved_nodes.add(id(e))
            return UNKNOWN
        self.summary.unresolved_nodes[id(e)] = f'{self.loc(e)}: {norm_stmt(e)}'
        return AV(EMPTY, [U])

    def bind(self, f: FuncInfo, recv: Optional[AV], e: ast.Call, args, kwargs, has_star, star_kwargs):
        """-> (index->AV, name->ast expr)"""
        bound: Dict[int, AV] = {}
        exprs: Dict[str, ast.AST] = {}
        pos = [p for p in f.params if p.kind == 'pos']
        offset = 0
        if recv is not None:
            if pos:
                bound[pos[0].index] = recv
                exprs[pos[0].name] = e.func.value if isinstance(e.func, ast.Attribute) else None
            offset = 1
        elif f.cls is not None and f.parent is None and not f.is_staticmethod and isinstance(e.func, ast.Attribute):
            offset = 0
        i = 0
        for a_expr, a in zip(e.args, args):
            if isinstance(a_expr, ast.Starred):
                # spread: remaining positional params all may receive elements
                for p in pos[offset + i:]:
                    bound[p.index] = a
                break
            if offset + i < len(pos):
                p = pos[offset + i]
                bound[p.index] = a
                exprs[p.name] = a_expr
            else:
                va = [p for p in f.params if p.kind == 'vararg']
                if va:
                    prev = bound.get(va[0].index)
                    cont = AV(T(('tuple', a.types)), a.origins)
                    bound[va[0].index] = cont if prev is None else prev.join(cont)
            i += 1
        for kw in self._eff_keywords.get(id(e), e.keywords):
            if kw.arg is None:
                continue
            p = f.param(kw.arg)
            if p is not None and p.kind in ('pos', 'kwonly'):
                bound[p.index] = kwargs[kw.arg]
                exprs[p.name] = kw.value
            else:
                kp = [p for p in f.params if p.kind == 'kwarg']
                if kp:
                    prev = bound.get(kp[0].index)
                    v = kwargs[kw.arg]
                    bound[kp[0].index] = v if prev is None else prev.join(v)
        if star_kwargs is not None:
            for p in f.params:
                if p.index not in bound and p.kind in ('pos', 'kwonly'):
                    bound[p.index] = AV(EMPTY, self.interior(star_kwargs))
        return bound, exprs

    def call_repo(self, f: FuncInfo, recv: Optional[AV], e, args, kwargs, has_star, star_kwargs, env) -> AV:
        if f.is_staticmethod:
            recv = None
        bound, exprs = self.bind(f, recv, e, args, kwargs, has_star, star_kwargs)
        rec = CallRecord(e, self.f, callee=f, binding=exprs, recv=recv)
        self.call_records.append(rec)
        self.summary.resolved_nodes.add(id(e))
        return self.apply_call(f, bound, e, norm_stmt(e), env, rec)

    def apply_call(self, f: FuncInfo, bound: Dict[int, AV], node, text: str, env, rec: Optional[CallRecord] = None) -> AV:
        # specialisation on constant `inplace`
        spec = []
        for p in f.params:
            if p.name in SPEC_PARAMS:
                a = bound.get(p.index)
                if a is None and p.default is not None and isinstance(p.default, ast.Constant):
                    spec.append((p.name, bool(p.default.value)))
                elif a is not None and a.const is not NOCONST and isinstance(a.const, bool):
                    spec.append((p.name, a.const))
        spec_t = tuple(spec)
        if rec is not None:
            rec.spec = spec_t
            rec.args_av = dict(bound)
        s = self.an.summary(f, spec_t)
        ptypes = self.an.param_types(f)
        here = (self.f.fq, self.loc(node), text)
        # default values for omitted parameters with mutable defaults
        for p in f.params:
            if p.index not in bound and p.default is not None and isinstance(p.default, (ast.List, ast.Dict, ast.Set)):
                bound[p.index] = AV(EMPTY, [G(f'default:{f.fq}:{p.name}')])

        def arg(j) -> AV:
            a = bound.get(j)
            return a if a is not None else UNKNOWN

        # mutations
        for j, wd in s.mutates.items():
            a = arg(j)
            if a.types and ty.maybe_mutable(a.types) is False:
                continue
            ahd = ty.heads(a.types)
            for w in wd.values():
                if w.on == 'P' and w.heads and ahd and not (w.heads & ahd):
                    continue  # the callee writes the parameter only when it has another type than this argument
                for o in a.origins:
                    if o[0] in ('P', 'I'):
                        on = 'P' if (o[0] == 'P' and w.on == 'P') else 'I'
                        self.ev_mutate(o, w.via(*here, on=on, heads=ahd if on == 'P' else None))
                    elif o[0] == 'G':
                        self.ev_mutate(o, w.via(*here))
        # captures
        for (src, dst) in s.captures:
            a_src, a_dst = arg(src[1]), arg(dst)
            if a_src.types and ty.maybe_mutable(a_src.types) is False:
                continue
            so = set(a_src.origins) if src[0] == 'P' else set(self.reach(a_src.origins))
            sknown = src[0] == 'P' and ty.maybe_mutable(a_src.types) is True and not ty.shallow_immutable(a_src.types)
            w0 = s.capture_w.get((src, dst))
            for o in a_dst.origins:
                if o[0] == 'F':
                    self.heap.setdefault(o, set()).update(so)
                    if sknown:
                        self.heap_known.setdefault(o, set()).update(so)
                elif o[0] in ('P', 'I'):
                    for x in so | self.reach(so):
                        if w0 is not None:
                            self.ev_capture(x, o[1], w0.via(*here))
        # global effects / rng
        for k, w in s.globals.items():
            ww = w.via(*here)
            if k not in self.summary.globals or ww.better_than(self.summary.globals[k]):
                self.summary.globals[k] = ww
        for k, w in s.rng.items():
            ww = w.via(*here)
            if k not in self.summary.rng or ww.better_than(self.summary.rng[k]):
                self.summary.rng[k] = ww
        # field-read tags of the callee's result are part of the caller's slice (transitive field coverage)
        if s.ret_tags and self._dep_stack:
            self._dep_stack[-1] |= s.ret_tags
        # result
        rtypes = s.ret_types
        if not rtypes:
            rtypes = self.an.tp.parse(f.returns, f.module)
        if f.is_generator and not rtypes:
            rtypes = T(('gen', EMPTY))
        if rtypes and ty.maybe_mutable(rtypes) is False:
            return AV(rtypes)
        tops = set()
        mk_fresh = False
        for o in s.ret:
            if o == ('F',):
                mk_fresh = True
            else:
                tops |= self.subst(o, bound)
        if mk_fresh:
            ftop = self.site(node)
            fnest = None
            if ('N',) in s.ret_top_inner or s.ret_nested_inner:
                fnest = self.site(node, 'nested')
            for (src_set, dst) in ((s.ret_top_inner, ftop), (s.ret_nested_inner, fnest)):
                if dst is None:
                    continue
                for o in src_set:
                    if o == ('N',):
                        self.heap[dst].add(fnest)
                        continue
                    sub = self.subst(o, bound)
                    self.heap[dst] |= sub
                    if o in s.ret_inner_known:
                        self.heap_known.setdefault(dst, set()).update(sub)
            if not (rtypes and ty.maybe_mutable(rtypes) is False):
                tops.add(ftop)
        return AV(rtypes, tops)

    def subst(self, o, bound: Dict[int, AV]) -> Set[tuple]:
        if o[0] == 'P':
            a = bound.get(o[1])
            if a is None or (a.types and ty.maybe_mutable(a.types) is False):
                return set()
            return set(a.origins)
        if o[0] == 'I':
            a = bound.get(o[1])
            if a is None or (a.types and ty.maybe_mutable(a.types) is False):
                return set()
            out = set()
            for x in a.origins:
                if x[0] in ('P', 'I'):
                    out.add(I(x[1]))
                elif x[0] == 'F':
                    for y in self.heap.get(x, ()):
                        out.add(y)
                    out |= {z for z in self.reach([x])}
                else:
                    out.add(x)
            return out
        return {o}

    def call_class(self, ci: ClassInfo, e, args, kwargs, has_star, star_kwargs, env) -> AV:
        self.summary.resolved_nodes.add(id(e))
        ctype = T(('cls', ci.fq))
        obj = self.fresh(e, ctype)
        init = self.program.method(ci, '__init__')
        if init is not None:
            bound, exprs = self.bind(init, obj, e, args, kwargs, has_star, star_kwargs)
            rec = CallRecord(e, self.f, callee=init, binding=exprs, recv=obj)
            self.call_records.append(rec)
            self.apply_call(init, bound, e, norm_stmt(e), env, rec)
            return obj
        if ci.is_dataclass:
            # synthesised __init__: every argument is stored in the new object
            exprs = {}
            names = ci.field_names()
            for i, (a_expr, a) in enumerate(zip(e.args, args)):
                if i < len(names):
                    exprs[names[i]] = a_expr
                self.store_fresh(obj, a)
            for kw in e.keywords:
                if kw.arg is not None:
                    exprs[kw.arg] = kw.value
                    self.store_fresh(obj, kwargs[kw.arg])
            if star_kwargs is not None:
                self.store_fresh(obj, AV(EMPTY, self.interior(star_kwargs)))
            rec = CallRecord(e, self.f, callee=None, ext=f'dataclass:{ci.fq}', binding=exprs, recv=obj)
            self.call_records.append(rec)
            post = self.program.method(ci, '__post_init__')
            if post is not None:
                self.apply_call(post, {0: obj}, e, norm_stmt(e), env)
            return obj
        # plain class without __init__ (or exception class)
        for a in list(args) + list(kwargs.values()):
            self.store_fresh(obj, a)
        return obj

    def store_fresh(self, obj: AV, val: AV):
        if ty.maybe_mutable(val.types) is False:
            return
        known = ty.maybe_mutable(val.types) is True and not ty.shallow_immutable(val.types)
        for o in obj.origins:
            if o[0] == 'F':
                self.heap.setdefault(o, set()).update(val.origins)
                if known:
                    self.heap_known.setdefault(o, set()).update(val.origins)

    def call_builtin(self, name: str, e, args, kwargs, env) -> AV:
        self.summary.resolved_nodes.add(id(e))
        self.call_records.append(CallRecord(e, self.f, ext=f'builtins.{name}'))
        if name in CONTAINER_BUILDERS:
            kind = CONTAINER_BUILDERS[name]
            inner = set()
            known = set()
            et = set()
            for a in args:
                inner |= self.interior(a)
                known |= self.interior_known(a)
                et |= ty.elem_types(a.types)
            if name in ('zip', 'enumerate'):
                et = {('tuple', frozenset(et) | ({ty.INT} if name == 'enumerate' else set()))} if et else set()
            if kind == 'dict':
                t = frozenset(x for a in args for x in a.types if x[0] == 'dict') or T(('dict', EMPTY, EMPTY))
                for v in kwargs.values():
                    if ty.maybe_mutable(v.types) is not False:
                        inner |= v.origins
                return self.fresh(e, t, inner, known if known else None)
            return self.fresh(e, T((kind, frozenset(et))), inner, known if known else None)
        if name in ('min', 'max'):
            if len(args) == 1:
                return AV(ty.elem_types(args[0].types), self.interior(args[0]))
            res = None
            for a in args:
                res = a if res is None else res.join(a)
            return res or UNKNOWN
        if name == 'next':
            return AV(ty.elem_types(args[0].types), self.interior(args[0])) if args else UNKNOWN
        if name == 'getattr':
            # getattr(obj, name) with name a constant, or a loop variable over a literal tuple of constants: the
            # same as reading every one of those attributes
            names = []
            if len(e.args) >= 2:
                a1 = e.args[1]
                if isinstance(a1, ast.Constant) and isinstance(a1.value, str):
                    names = [a1.value]
                elif isinstance(a1, ast.Name) and a1.id in self.const_sets:
                    names = [v for v in self.const_sets[a1.id] if isinstance(v, str)]
            if names and args:
                res = None
                for nm in names:
                    v = self.ev(ast.copy_location(ast.Attribute(value=e.args[0], attr=nm, ctx=ast.Load()), e), env)
                    res = v if res is None else res.join(v)
                return res
            return AV(EMPTY, self.interior(args[0])) if args else UNKNOWN
        if name == 'setattr':
            if len(args) >= 3:
                self.store_into(args[0], args[2], e, 'setattr')
            return const_av(None)
        if name == 'delattr':
            if args:
                self.mutate(args[0], e, 'delattr')
            return const_av(None)
        if name == 'open':
            self.events.append(('io', 'open', e))
            return AV(T(('ext', 'IO')))
        if name in PURE_BUILTINS:
            if name in BUILTIN_RET:
                rt = BUILTIN_RET[name]
                if name in ('sum', 'abs', 'round', 'pow') and args and args[0].types and \
                        all(t == ty.INT for t in (ty.elem_types(args[0].types) if name == 'sum' else args[0].types)):
                    rt = ty.INT
                return AV(T(rt))
            if name.endswith('Error') or name in ('Exception', 'StopIteration'):
                return AV(T(('ext', 'Exception')))
            return AV(T(ty.INT))
        if name in ('globals', 'locals', 'exec', 'eval', 'compile', '__import__'):
            self.events.append(('dynamic', name, e))
        self.summary.resolved_nodes.discard(id(e))
        self.summary.unresolved_nodes[id(e)] = f'{self.loc(e)}: {norm_stmt(e)}'
        return AV(EMPTY, [U])

    def call_ext(self, dotted: str, e, args, kwargs, env) -> AV:
        self.summary.resolved_nodes.add(id(e))
        self.call_records.append(CallRecord(e, self.f, ext=dotted))
        mod, _, name = dotted.rpartition('.')
        if dotted in ('copy.deepcopy',):
            a = args[0] if args else UNKNOWN
            return self.fresh(e, a.types)
        if dotted in ('copy.copy',):
            a = args[0] if args else UNKNOWN
            return self.fresh(e, a.types, self.interior(a))
        if mod == 'random':
            if name in RNG_FUNCS:
                self.ev_rng(self.witness(e, f'random.{name} on the process-wide generator'))
                if name == 'shuffle' and args:
                    self.mutate(args[0], e, 'random.shuffle')
                if name in ('choice',) and args:
                    return AV(ty.elem_types(args[0].types), self.interior(args[0]))
                if name in ('sample', 'choices') and args:
                    return self.fresh(e, T(('list', ty.elem_types(args[0].types))), self.interior(args[0]))
                return AV(T(ty.FLOAT))
            if name in ('Random', 'SystemRandom'):
                return self.fresh(e, T(('ext', 'random.Random')))
        if mod == 'itertools':
            inner = set()
            et = set()
            for a in args:
                inner |= self.interior(a)
                et |= ty.elem_types(a.types)
            if name in ('permutations', 'combinations', 'combinations_with_replacement', 'product', 'zip_longest',
                        'pairwise'):
                return self.fresh(e, T(('gen', T(('tuple', frozenset(et))))), inner)
            if name == 'groupby':
                return self.fresh(e, T(('gen', T(('tuple', frozenset(et) | {('gen', frozenset(et))})))), inner)
            return self.fresh(e, T(('gen', frozenset(et))), inner)
        if mod in ('regex', 're', 'regex.regex'):
            if name in ('finditer',):
                return AV(T(('gen', T(('ext', 'regex.Match')))))
            if name in ('findall', 'split'):
                return AV(T(('list', T(ty.STR, ('tuple', T(ty.STR))))))
            if name in ('sub', 'escape'):
                return AV(T(ty.STR))
            if name in ('match', 'search', 'fullmatch'):
                return AV(T(('ext', 'regex.Match'), ty.NONE))
            if name == 'compile':
                return AV(T(('ext', 'regex.Pattern')))
        if mod == 'warnings':
            return const_av(None)
        if mod == 'math':
            return AV(T(ty.FLOAT))
        if mod in ('os', 'os.path', 'sys'):
            return AV(T(ty.STR))
        if mod == 'collections' and name == 'Counter' or dotted == 'typing.Counter':
            inner = set()
            for a in args:
                inner |= self.interior(a)
            return self.fresh(e, T(ty.COUNTER), inner)
        if mod == 'functools':
            return UNKNOWN
        if mod in ('pickle', 'tempfile', 'requests'):
            self.events.append(('io', dotted, e))
            return AV(EMPTY, [U])
        if mod == 'dataclasses':
            return UNKNOWN
        if mod == 'copy':
            return self.fresh(e, args[0].types if args else EMPTY)
        # unknown external
        self.summary.resolved_nodes.discard(id(e))
        self.summary.unresolved_nodes[id(e)] = f'{self.loc(e)}: {norm_stmt(e)}'
        return AV(EMPTY, [U])

    def call_bmethod(self, kind: str, name: str, recv: AV, e, args, kwargs, env) -> AV:
        self.summary.resolved_nodes.add(id(e))
        self.call_records.append(CallRecord(e, self.f, ext=f'{kind}.{name}', recv=recv))
        if kind in ('str', 'bytes'):
            if name in ('split', 'rsplit', 'splitlines'):
                return AV(T(('list', T(ty.STR))))
            if name in ('partition', 'rpartition'):
                return AV(T(('tuple', T(ty.STR))))
            if name in ('startswith', 'endswith', 'isdigit', 'isalpha', 'isalnum', 'isupper', 'islower', 'isspace',
                        'isnumeric', 'isdecimal', 'isidentifier'):
                return AV(T(ty.BOOL))
            if name in ('find', 'rfind', 'index', 'rindex', 'count'):
                return AV(T(ty.INT))
            return AV(T(ty.STR))
        if kind in ('int', 'float', 'bool', 'none'):
            return AV(T(ty.FLOAT))
        if kind == 'ext':
            rt = {t[1] for t in recv.types if t[0] == 'ext'}
            if name in ('start', 'end'):
                return AV(T(ty.INT))
            if name in ('group',):
                return AV(T(ty.STR, ty.NONE))
            if name in ('groups', 'span'):
                return AV(T(('tuple', T(ty.STR, ty.INT))))
            if name == 'finditer':
                return AV(T(('gen', T(('ext', 'regex.Match')))))
            if name in ('findall', 'split'):
                return AV(T(('list', T(ty.STR, ('tuple', T(ty.STR))))))
            if name in ('match', 'search', 'fullmatch'):
                return AV(T(('ext', 'regex.Match'), ty.NONE))
            if name == 'sub':
                return AV(T(ty.STR))
            if 'random.Random' in rt:
                if name == 'shuffle' and args:
                    self.mutate(args[0], e, 'Random.shuffle')
                if name == 'choice' and args:
                    return AV(ty.elem_types(args[0].types), self.interior(args[0]))
                if name in ('sample', 'choices') and args:
                    return self.fresh(e, T(('list', ty.elem_types(args[0].types))), self.interior(args[0]))
                return AV(T(ty.FLOAT))
            if name in ('read', 'readline'):
                return AV(T(ty.STR))
            return AV(EMPTY, [U])
        # containers
        elem_t = ty.elem_types(recv.types)
        val_t = ty.value_types(recv.types)
        interior = self.interior(recv)
        if kind == 'list':
            if name in ('append', 'insert'):
                v = args[-1] if args else UNKNOWN
                self.store_into(recv, v, e, f'list.{name}')
                return const_av(None)
            if name == 'extend':
                v = args[0] if args else UNKNOWN
                self.store_into(recv, AV(ty.elem_types(v.types), self.interior(v)), e, 'list.extend')
                return const_av(None)
            if name in ('remove', 'clear', 'sort', 'reverse'):
                self.mutate(recv, e, f'list.{name}')
                return const_av(None)
            if name == 'pop':
                self.mutate(recv, e, 'list.pop')
                return AV(val_t, interior)
            if name in ('index', 'count'):
                return AV(T(ty.INT))
            if name == 'copy':
                return self.derive(e, recv.types, recv)
        if kind in ('dict', 'counter'):
            if name == 'get':
                d = args[1] if len(args) > 1 else const_av(None)
                return AV(val_t, interior).join(d) if val_t and d.types else AV(EMPTY, interior | d.origins)
            if name in ('items',):
                kt = frozenset().union(*[t[1] for t in recv.types if t[0] == 'dict']) if recv.types else EMPTY
                return self.fresh(e, T(('gen', T(('tuple', frozenset(kt) | val_t)))), interior, self.interior_known(recv) or None)
            if name == 'values':
                return self.fresh(e, T(('gen', val_t)), interior, self.interior_known(recv) or None)
            if name == 'keys':
                kt = frozenset().union(*[t[1] for t in recv.types if t[0] == 'dict']) if recv.types else EMPTY
                return self.fresh(e, T(('gen', frozenset(kt))), interior)
            if name == 'pop':
                self.mutate(recv, e, 'dict.pop')
                d = args[1] if len(args) > 1 else None
                r = AV(val_t, interior)
                return r.join(d) if d is not None else r
            if name == 'popitem':
                self.mutate(recv, e, 'dict.popitem')
                return AV(EMPTY, interior)
            if name == 'clear':
                self.mutate(recv, e, 'dict.clear')
                return const_av(None)
            if name in ('update', 'subtract'):
                v = args[0] if args else UNKNOWN
                self.store_into(recv, AV(EMPTY, self.interior(v)), e, f'dict.{name}')
                for kv in kwargs.values():
                    self.store_into(recv, kv, e, f'dict.{name}')
                return const_av(None)
            if name == 'setdefault':
                d = args[1] if len(args) > 1 else const_av(None)
                self.store_into(recv, d, e, 'dict.setdefault')
                return AV(val_t, interior).join(d) if val_t and d.types else AV(EMPTY, interior | d.origins)
            if name == 'copy':
                return self.derive(e, recv.types, recv)
            if name == 'most_common':
                return self.fresh(e, T(('list', T(('tuple', EMPTY)))), interior)
            if name == 'elements':
                return self.fresh(e, T(('gen', EMPTY)), interior)
            if name == 'total':
                return AV(T(ty.INT))
        if kind == 'set':
            if name == 'add':
                v = args[0] if args else UNKNOWN
                self.store_into(recv, v, e, 'set.add')
                return const_av(None)
            if name in ('update', 'difference_update', 'intersection_update', 'symmetric_difference_update'):
                v = args[0] if args else UNKNOWN
                self.store_into(recv, AV(EMPTY, self.interior(v)), e, f'set.{name}')
                return const_av(None)
            if name in ('discard', 'remove', 'clear'):
                self.mutate(recv, e, f'set.{name}')
                return const_av(None)
            if name == 'pop':
                self.mutate(recv, e, 'set.pop')
                return AV(elem_t, interior)
            if name in ('union', 'intersection', 'difference', 'symmetric_difference', 'copy'):
                inner = set(interior)
                for a in args:
                    inner |= self.interior(a)
                return self.fresh(e, recv.types, inner)
            if name in ('issubset', 'issuperset', 'isdisjoint'):
                return AV(T(ty.BOOL))
        if kind == 'tuple':
            if name in ('index', 'count'):
                return AV(T(ty.INT))
        if kind == 'gen':
            if name in ('send', '__next__'):
                return AV(elem_t, interior)
            if name == 'close':
                return const_av(None)
        # unknown method of a builtin container: no effect assumed, counted
        self.summary.resolved_nodes.discard(id(e))
        self.summary.unresolved_nodes[id(e)] = f'{self.loc(e)}: {norm_stmt(e)}'
        return AV(EMPTY, interior)

    def call_umethod(self, name: str, recv: AV, e, args, kwargs, has_star, star_kwargs, env) -> AV:
        """method call on a receiver of unknown type"""
        cands = self.an._methods_by_name.get(name, [])
        if cands and name not in BUILTIN_METHOD_NAMES and not name.startswith('__'):
            # by-name fallback (never for names shared with str/list/dict/set methods)
            res = None
            for m in cands:
                if m.is_property:
                    continue
                bound, exprs = self.bind(m, recv, e, args, kwargs, has_star, star_kwargs)
                rec = CallRecord(e, self.f, callee=m, binding=exprs, recv=recv, by_name=True)
                self.call_records.append(rec)
                r = self.apply_call(m, bound, e, norm_stmt(e), env, rec)
                res = r if res is None else res.join(r)
            if res is not None:
                self.summary.resolved_nodes.add(id(e))
                return res
        if not cands and name in BUILTIN_METHOD_NAMES:
            # no repository class has a method of this name: it is a builtin str/container method
            return self.call_ucontainer(name, recv, e, args, kwargs, env)
        self.summary.unresolved_nodes[id(e)] = f'{self.loc(e)}: {norm_stmt(e)}'
        self.call_records.append(CallRecord(e, self.f, recv=recv))
        return AV(EMPTY, [U] + list(self.interior(recv)))

    def call_ucontainer(self, name: str, recv: AV, e, args, kwargs, env) -> AV:
        """builtin method on a receiver whose type is unknown (union of the str/list/dict/set semantics)"""
        self.summary.resolved_nodes.add(id(e))
        self.call_records.append(CallRecord(e, self.f, ext=f'builtin?.{name}', recv=recv))
        interior = self.interior(recv)
        if name in STR_METHODS and name not in ('index', 'count'):
            if name in ('split', 'rsplit', 'splitlines'):
                return AV(T(('list', T(ty.STR))))
            if name in ('partition', 'rpartition'):
                return AV(T(('tuple', T(ty.STR))))
            if name in ('startswith', 'endswith') or name.startswith('is'):
                return AV(T(ty.BOOL))
            if name in ('find', 'rfind', 'rindex'):
                return AV(T(ty.INT))
            return AV(T(ty.STR))
        if name in ('index', 'count', 'total'):
            return AV(T(ty.INT))
        if name in ('append', 'insert', 'add'):
            self.store_into(recv, args[-1] if args else UNKNOWN, e, f'.{name}')
            return const_av(None)
        if name in ('extend', 'update', 'subtract', 'difference_update', 'intersection_update',
                    'symmetric_difference_update'):
            v = args[0] if args else UNKNOWN
            self.store_into(recv, AV(ty.elem_types(v.types), self.interior(v)), e, f'.{name}')
            return const_av(None)
        if name in ('remove', 'clear', 'sort', 'reverse', 'discard', '__delitem__'):
            self.mutate(recv, e, f'.{name}')
            return const_av(None)
        if name in ('pop', 'popitem'):
            self.mutate(recv, e, f'.{name}')
            d = args[1] if len(args) > 1 else None
            r = AV(EMPTY, interior)
            return r.join(d) if d is not None else r
        if name == 'setdefault':
            d = args[1] if len(args) > 1 else const_av(None)
            self.store_into(recv, d, e, '.setdefault')
            return AV(EMPTY, interior | d.origins)
        if name == 'get':
            d = args[1] if len(args) > 1 else const_av(None)
            return AV(EMPTY, interior | d.origins)
        if name in ('items', 'keys', 'values', 'copy', 'union', 'intersection', 'difference', 'most_common',
                    'elements'):
            inner = set(interior)
            for a in args:
                inner |= self.interior(a)
            return self.fresh(e, EMPTY, inner)
        if name in ('start', 'end'):
            return AV(T(ty.INT))
        if name in ('group',):
            return AV(T(ty.STR, ty.NONE))
        if name in ('groups', 'span'):
            return AV(T(('tuple', T(ty.STR, ty.INT))))
        if name in ('issubset', 'issuperset'):
            return AV(T(ty.BOOL))
        if name in ('finditer',):
            return AV(T(('gen', T(('ext', 'regex.Match')))))
        if name in ('findall',):
            return AV(T(('list', T(ty.STR, ('tuple', T(ty.STR))))))
        if name in ('match', 'search', 'fullmatch'):
            return AV(T(('ext', 'regex.Match'), ty.NONE))
        if name == 'sub':
            return AV(T(ty.STR))
        if name in ('read',):
            return AV(T(ty.STR))
        if name in ('write', 'seek', 'close'):
            return const_av(None)
        return AV(EMPTY, [U] + list(interior))
