"""
R-FWD (mode-flag forwarding), R-RET (parameter reaches every value return): both read the dependency sets the
abstract interpreter attaches to values (flow-sensitive data dependence + control dependence on enclosing tests).
"""
import ast
from typing import Dict, List, Optional, Set, Tuple, Iterable

from .loader import Program, FuncInfo, norm_stmt, AnalysisError
from .absint import Analyzer, CallRecord, NOCONST

# parameters whose meaning is "the same switch/quantity as the caller's parameter of that name"; confirmed by
# reading every (caller, callee) pair of the pinned tree.  `precision` and `sep` are deliberately absent: the
# library drops them on purpose at many sites (intermediate values are not rounded).
MUST_FORWARD = ['monoisotopic', 'include_plus', 'use_isotope_on_mods', 'ignore_mods', 'isotope_mods',
                'charge_adducts', 'ion_type', 'isotope', 'loss', 'min_len', 'max_len', 'return_type', 'mode',
                'charge', 'swap_terms', 'seed', 'missed_cleavages', 'semi', 'complete_digestion', 'sort_output',
                'tolerance_value', 'tolerance_type', 'intensity_spectra', 'max_mods', 'append', 'accumulate',
                'max_losses', 'isotopes', 'charges', 'ion_types', 'losses', 'water_loss', 'ammonia_loss',
                'use_neutron_count', 'max_isotopes', 'distribution_resolution',
                'conv_min_abundance_threshold', 'distribution_abundance', 'is_abundance_sum',
                'output_masses_for_neutron_offset', 'neutron_mass', 'hill_order', 'enzyme_regex']

# (caller fq, callee fq, parameter) -> reason: reviewed sites that bind the parameter to something else on purpose
FWD_EXCEPTIONS = {
    ('peptacular.digestion:sequential_digest', 'peptacular.digestion:digest', 'max_len'):
        'the upper length bound is applied after the spans are re-based (end of sequential_digest)',
    ('peptacular.sequence.sequence_funcs:percent_coverage', 'peptacular.sequence.sequence_funcs:coverage',
     'accumulate'): 'percent coverage needs the binary array by definition',
    ('peptacular.digestion:sequential_digest', 'peptacular.digestion:digest', 'return_type'):
        'intermediate stages need (annotation, span) pairs; the requested type is applied by the final dispatcher',
    ('peptacular.sequence.mod_builder:apply_variable_mods', 'peptacular.sequence.mod_builder:apply_static_mods',
     'return_type'): 'terminal variants are built as annotations and serialised at the end',
    ('peptacular.fragmentation:fragment', 'peptacular.mass_calc:mass', 'charge'):
        'per-residue components are neutral masses by design (charge=0, ion_type=n)',
}


class FwdOb:
    __slots__ = ('caller', 'callee', 'param', 'node', 'ok', 'reason', 'loc', 'text')

    def __init__(self, caller, callee, param, node, ok, reason, loc, text):
        self.caller, self.callee, self.param, self.node = caller, callee, param, node
        self.ok, self.reason, self.loc, self.text = ok, reason, loc, text


def forwarding(an: Analyzer, program: Program, params: Iterable[str],
               callers: Optional[Set[str]] = None, callees: Optional[Set[str]] = None,
               exceptions: Optional[Dict] = None) -> List[FwdOb]:
    """one obligation per (call site, parameter): the callee's parameter `p` is bound to an expression that
    depends on the caller's own parameter `p`"""
    params = list(params)
    exc = FWD_EXCEPTIONS if exceptions is None else exceptions
    out: List[FwdOb] = []
    seen = set()
    for (fq, spec), recs in an.calls.items():
        if spec != ():
            continue
        if callers is not None and fq not in callers:
            continue
        caller = program.find_func(fq)
        if caller is None:
            continue
        cparams = {p.name for p in caller.params}
        for rec in recs:
            g = rec.callee
            if g is None or rec.by_name:
                continue
            if callees is not None and g.fq not in callees:
                continue
            if g.fq == caller.fq and False:
                continue
            for pname in params:
                if pname not in cparams:
                    continue
                gp = g.param(pname)
                if gp is None:
                    continue
                k = (fq, id(rec.node), g.fq, pname)
                if k in seen:
                    continue
                seen.add(k)
                loc = caller.loc(rec.node)
                text = norm_stmt(rec.node)
                if (fq, g.fq, pname) in exc:
                    out.append(FwdOb(fq, g.fq, pname, rec.node, True,
                                     f'reviewed exception: {exc[(fq, g.fq, pname)]}', loc, text))
                    continue
                av = rec.args_av.get(gp.index)
                if av is None:
                    out.append(FwdOb(fq, g.fq, pname, rec.node, False,
                                     f'`{pname}` is not passed: the callee silently uses its default', loc, text))
                elif g.fq == caller.fq and av.const is not None and pname not in av.deps:
                    out.append(FwdOb(fq, g.fq, pname, rec.node, True,
                                     f'self-recursive re-entry with the fixed value {av.const!r}', loc, text))
                elif pname not in av.deps:
                    out.append(FwdOb(fq, g.fq, pname, rec.node, False,
                                     f'`{pname}` of the callee is bound to an expression that does not depend on '
                                     f'the caller\'s `{pname}` (depends on {sorted(av.deps) or "nothing"})', loc,
                                     text))
                else:
                    out.append(FwdOb(fq, g.fq, pname, rec.node, True, f'bound to a value derived from `{pname}`',
                                     loc, text))
    return out


class RetOb:
    __slots__ = ('func', 'param', 'node', 'ok', 'reason', 'loc', 'text')

    def __init__(self, func, param, node, ok, reason, loc, text):
        self.func, self.param, self.node, self.ok, self.reason, self.loc, self.text = \
            func, param, node, ok, reason, loc, text


def param_reaches_returns(an: Analyzer, program: Program, fq: str, params: Iterable[str],
                          exempt=None,
                          spec: tuple = ()) -> List[RetOb]:
    """one obligation per (value return, parameter): the returned value depends on the parameter"""
    f = program.func(fq)
    recs = an.ret_records.get((fq, spec))
    if recs is None:
        raise AnalysisError(f'no analysis record for {fq}')
    out = []
    seen = set()
    for pname in params:
        if f.param(pname) is None:
            raise AnalysisError(f'anchor parameter missing: {fq}({pname})')
        for node, av, kind in recs:
            if kind == 'return' and (node.value is None or
                                     (isinstance(node.value, ast.Constant) and node.value.value is None)):
                continue
            k = (id(node), pname)
            if k in seen:
                continue
            seen.add(k)
            text = norm_stmt(node)
            loc = f.loc(node)
            why = exempt(pname, node, av) if callable(exempt) else (exempt or {}).get((pname, text))
            if why is not None:
                out.append(RetOb(fq, pname, node, True, f'reviewed exemption: {why}', loc, text))
            elif pname in av.deps:
                out.append(RetOb(fq, pname, node, True, f'`{pname}` is in the backward slice of this {kind}', loc, text))
            else:
                out.append(RetOb(fq, pname, node, False,
                                 f'`{pname}` does not reach this {kind}: the value is computed without it '
                                 f'(slice: {sorted(av.deps)})', loc, text))
    return out
