"""
check: command-line entry point.  /venv/bin/python -m sa.check Cnn [--tier quick|thorough]

Re-parses <root>/src/peptacular (root = $VERIF_REPO_ROOT or /repo) on every run; nothing is cached across runs.
"""
import argparse
import importlib
import os
import sys
import time
import traceback
import warnings

from .loader import Program, AnalysisError
from .report import Report


class Context:
    def __init__(self, root=None):
        self.root = root
        self._program = None
        self._analyzer = None
        self.cache = {}

    @property
    def program(self) -> Program:
        if self._program is None:
            with warnings.catch_warnings():
                warnings.simplefilter('ignore')
                self._program = Program(self.root)
        return self._program

    @property
    def analyzer(self):
        if self._analyzer is None:
            from .absint import Analyzer
            self._analyzer = Analyzer(self.program).run()
        return self._analyzer


def analyse(prop: str, root=None, ctx=None) -> Report:
    """run the property's rules on `root` without writing or printing anything (used by the self-test)"""
    rep = Report(prop, 'quick', 0, dry=True)
    warnings.simplefilter('ignore')
    try:
        ctx = ctx or Context(root)
        mod = importlib.import_module(f'sa.props.{prop}')
        mod.check(ctx, rep)
    except AnalysisError as e:
        rep.error(str(e))
    except Exception as e:
        rep.error(f'internal error: {type(e).__name__}: {e}')
    return rep


def run_check(prop: str, tier: str, seed: int, root=None, quiet=False) -> int:
    rep = Report(prop, tier, seed)
    try:
        ctx = Context(root)
        mod = importlib.import_module(f'sa.props.{prop}')
        mod.check(ctx, rep)
        if tier == 'thorough':
            from . import selftest
            selftest.run(prop, rep, root)
    except AnalysisError as e:
        rep.error(str(e))
    except Exception as e:  # a crash of the analysis is never reported as a violation
        tb = traceback.format_exc()
        rep.error(f'internal error: {type(e).__name__}: {e}')
        sys.stderr.write(tb)
    return rep.finish()


def main(argv=None):
    ap = argparse.ArgumentParser()
    ap.add_argument('prop')
    ap.add_argument('--tier', default=os.environ.get('VERIF_TIER', 'quick'), choices=['quick', 'thorough'])
    ap.add_argument('--root', default=None)
    args = ap.parse_args(argv)
    seed = int(os.environ.get('VERIF_SEED', '0') or 0)
    code = run_check(args.prop, args.tier, seed, args.root)
    sys.stdout.flush()
    sys.exit(code)


if __name__ == '__main__':
    main()
