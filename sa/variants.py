"""
variants: the mutation self-test catalogue.  Each entry edits ONE place of the package on a scratch copy.

  kind 'kill'      the edit breaks a rule instance; the named properties' checks must report a new finding whose
                   text contains `expect`;
  kind 'preserve'  the edit keeps the behaviour; the findings of the named properties must not change.

`old` must occur exactly `count` (default 1) times in `file`; otherwise the variant is "not applicable" on the
current tree (reported, never a failure).
"""
PP = 'proforma/proforma_parser.py'
MC = 'mass_calc.py'
CC = 'chem/chem_calc.py'
CU = 'chem/chem_util.py'
FR = 'fragmentation.py'
DG = 'digestion.py'
SF = 'sequence/sequence_funcs.py'
MB = 'sequence/mod_builder.py'
DB = 'mods/mod_db.py'
DC = 'proforma/proforma_dataclasses.py'
IC = 'proforma/input_convert.py'
CO = 'constants.py'
CK = 'chem/chem_constants.py'
ISO = 'isotope.py'
SC = 'score.py'

VARIANTS = []


def K(props, name, file, old, new, expect, why, count=1):
    VARIANTS.append({'props': props, 'name': name, 'kind': 'kill', 'file': file, 'old': old, 'new': new,
                     'expect': expect, 'why': why, 'count': count})


def P(props, name, file, old, new, why, count=1):
    VARIANTS.append({'props': props, 'name': name, 'kind': 'preserve', 'file': file, 'old': old, 'new': new,
                     'expect': '', 'why': why, 'count': count})


# ---------------------------------------------------------------------------------------------------- C01
K(['C01'], 'c01-labile-brackets-writer', PP, "comps.append(mod.serialize('{}', include_plus))",
  "comps.append(mod.serialize('()', include_plus))", 'labile_mods', 'serializer writes labile mods in ()')
K(['C01'], 'c01-unknown-marker-writer', PP, '        comps.append("?")\n\n    # N-term mods',
  '        comps.append("!")\n\n    # N-term mods', 'unknown_mods', 'serializer terminates unknown mods with !')
K(['C01'], 'c01-nterm-marker-reader', PP, "if next_char == '-':", "if next_char == '~':", 'nterm',
  'parser expects ~ after N-terminal mods')
K(['C01'], 'c01-link-token-reader', PP, "            elif cur == '+':  # next sequence", "            elif cur == '&':  # next sequence",
  'connection=False', 'parser recognises & as chimeric link')
K(['C01'], 'c01-get-result-drops-cterm', PP, "            _cterm_mods=self._cterm_mods,\n", "", 'cterm_mods',
  'parser result builder drops C-terminal mods')
K(['C01'], 'c01-reset-keeps-charge', PP, "        self._charge = None\n        self._charge_adducts = None\n        self._intervals = None\n\n    @_validate",
  "        self._charge_adducts = None\n        self._intervals = None\n\n    @_validate", 'self._charge',
  'charge of one chain leaks into the next')
K(['C01', 'C20'], 'c01-eq-ignores-static', PP, "        if not are_mods_equal(self.static_mods, other.static_mods):\n            return False\n",
  "", 'static_mods', '__eq__ no longer compares static mods')
K(['C01', 'C20'], 'c01-dict-drops-intervals', PP, '            "intervals": copy.deepcopy(self.intervals),\n', '', 'intervals',
  'dict() drops intervals')
K(['C01'], 'c01-include-plus-dropped', PP, "                comps.append(mod.serialize('[]',include_plus))\n\n    # add end interval",
  "                comps.append(mod.serialize('[]'))\n\n    # add end interval", 'include_plus',
  'residue mods ignore include_plus')
K(['C01'], 'c01-internal-position-kind', PP, "        position = len(self._amino_acids) - 1", "        position = len(self._amino_acids)",
  'len(residues) - 1', 'residue mod attached to the next residue')
K(['C01'], 'c01-multiplier-marker', DC, 'f"{brackets[0]}{val_str}{brackets[1]}^{self.mult}" if self.mult > 1',
  'f"{brackets[0]}{val_str}{brackets[1]}*{self.mult}" if self.mult > 1', 'multiplier', 'multiplier written with *')
K(['C01', 'C20'], 'c01-mod-hash-ignores-mult', DC, "        return hash((self.val, self.mult))", "        return hash((self.val,))",
  'Mod.__hash__', 'Mod hash ignores the multiplier')
P(['C01', 'C20'], 'c01-rename-local-serializer', PP, "def _serialize_annotation_end(annotation: ProFormaAnnotation, include_plus: bool) -> str:\n    comps = []",
  "def _serialize_annotation_end(annotation: ProFormaAnnotation, include_plus: bool) -> str:\n    comps = list()",
  'equivalent list construction')
P(['C01'], 'c01-keyword-include-plus', PP, "            comps.append(mod.serialize('[]', include_plus))\n\n    # Charge",
  "            comps.append(mod.serialize('[]', include_plus=include_plus))\n\n    # Charge", 'keyword instead of positional')

# ---------------------------------------------------------------------------------------------------- C02 / C03
K(['C02', 'C03', 'C10'], 'c02-mod-mass-drops-mono', MC, "        m = _parse_mod_mass(m, monoisotopic, precision)",
  "        m = _parse_mod_mass(m, precision=precision)", 'monoisotopic', 'mod_mass drops the mono/average switch')
K(['C02', 'C10'], 'c02-unimod-forces-mono', MC, "        return parse_unimod_mass(mod, monoisotopic, precision)",
  "        return parse_unimod_mass(mod, True, precision)", 'monoisotopic', 'Unimod masses always monoisotopic')
K(['C02', 'C04', 'C12'], 'c02-loss-dropped-isotope-path', MC, " + delta_mass + loss\n", " + delta_mass\n", 'loss',
  'loss ignored on the isotope-label path')
K(['C02'], 'c02-isotope-dropped', MC, "    m += isotope * NEUTRON_MASS + loss  # Add isotope and loss", "    m += loss  # Add isotope and loss",
  'isotope', 'isotope offset ignored by adjust_mass')
K(['C02', 'C05'], 'c02-charge-minus-one', MC, "charge_adduct_mass = PROTON_MASS * (charge - 1) + frag_ion_offset",
  "charge_adduct_mass = PROTON_MASS * charge + frag_ion_offset", 'reference form', 'fragment ions get one proton too many')
K(['C02'], 'c02-cterm-assign-not-add', MC, "        for mod in annotation.cterm_mods:\n            m += mod_mass(mod, monoisotopic)",
  "        for mod in annotation.cterm_mods:\n            m = mod_mass(mod, monoisotopic)", 'accumulator',
  'C-terminal mods overwrite the accumulated mass')
K(['C02', 'C03'], 'c02-nterm-loop-deleted', MC, "    # Apply N-term mods\n    if annotation.has_nterm_mods():\n        for mod in annotation.nterm_mods:\n            m += mod_mass(mod, monoisotopic)\n",
  "", 'nterm_mods', 'N-terminal mods never weighed')
K(['C02'], 'c02-static-count-dropped', MC, "            m += sum(mod_mass(m, monoisotopic, precision=None) for m in mod) * aa_count",
  "            m += sum(mod_mass(m, monoisotopic, precision=None) for m in mod)", 'count', 'static rule counted once')
K(['C02', 'C03', 'C10'], 'c02-mult-dropped', MC, "        return mod_mass(mod.val, monoisotopic, precision) * mod.mult",
  "        return mod_mass(mod.val, monoisotopic, precision)", 'mult', 'multiplier ignored by mod_mass')
K(['C02'], 'c02-avg-table-swapped', MC, "    m += MONOISOTOPIC_FRAGMENT_ADJUSTMENTS[ion_type] if monoisotopic else AVERAGE_FRAGMENT_ADJUSTMENTS[ion_type]",
  "    m += AVERAGE_FRAGMENT_ADJUSTMENTS[ion_type] if monoisotopic else MONOISOTOPIC_FRAGMENT_ADJUSTMENTS[ion_type]",
  'mono', 'mono/average tables swapped')
K(['C02'], 'c02-residue-table', CO, '    "K": {"C": 6, "H": 12, "N": 2, "O": 1},  # Lysine', '    "K": {"C": 6, "H": 13, "N": 2, "O": 1},  # Lysine',
  "AA_COMPOSITIONS['K']", 'lysine has one hydrogen too many')
K(['C02', 'C05', 'C03'], 'c02-derived-table-mode', CK, "{aa: chem_mass(comp, monoisotopic=False) for aa, comp in AA_COMPOSITIONS.items()}",
  "{aa: chem_mass(comp) for aa, comp in AA_COMPOSITIONS.items()}", 'AVERAGE_AA_MASSES', 'average residue table built monoisotopic')
K(['C02'], 'c02-mz-drops-loss', MC, "monoisotopic=monoisotopic, isotope=isotope, loss=loss, charge_adducts=charge_adducts,",
  "monoisotopic=monoisotopic, isotope=isotope, charge_adducts=charge_adducts,", 'loss', 'mz drops loss')
P(['C02', 'C03'], 'c02-keyword-monoisotopic', MC, "            m += mod_mass(mod, monoisotopic)\n\n    # Apply Unknown mods",
  "            m += mod_mass(mod, monoisotopic=monoisotopic)\n\n    # Apply Unknown mods", 'keyword form')
P(['C02', 'C05'], 'c02-adjust-mass-reordered', MC, "    m += isotope * NEUTRON_MASS + loss  # Add isotope and loss",
  "    m += loss + NEUTRON_MASS * isotope  # Add isotope and loss", 'commuted sum')
P(['C02', 'C03'], 'c02-alias-flag', MC, "    m = 0.0\n    if annotation.has_static_mods():", "    m = 0.0\n    mono = monoisotopic\n    monoisotopic = mono\n    if annotation.has_static_mods():",
  'flag passed through a local alias')

K(['C03', 'C05'], 'c03-adduct-row', CO, "    \"y\": '+2H+,+e-',", "    \"y\": '+2H+',", "['y']", 'y adduct string loses the electron')
K(['C03', 'C05'], 'c03-ion-comp-row', CO, "    \"c\": {'H': 2, 'e': -1},  # Steals", "    \"c\": {'H': 1, 'e': -1},  # Steals", "['c']",
  'c ion composition loses a hydrogen')
K(['C03'], 'c03-labile-guard-comp', CC, "    if annotation.has_labile_mods() and ion_type == 'p':", "    if annotation.has_labile_mods():",
  'labile', 'composition counts labile mods for fragments')
K(['C03'], 'c03-comp-mass-order', MC, "    annotation.condense_static_mods(inplace=True)\n\n    # sum delta mass mods", "    # sum delta mass mods", 'condense_static_mods',
  'static rules no longer condensed before the split')
K(['C03', 'C12'], 'c03-use-isotope-not-forwarded', MC, "    peptide_composition = _sequence_comp(annotation, ion_type, isotope, use_isotope_on_mods)",
  "    peptide_composition = _sequence_comp(annotation, ion_type, isotope)", 'use_isotope_on_mods',
  'use_isotope_on_mods dropped')
K(['C03', 'C10'], 'c03-comp-mult-dropped', CC, "        return {k: v * mod.mult for k, v in mod_comp(mod.val).items()}",
  "        return {k: v for k, v in mod_comp(mod.val).items()}", 'mult', 'multiplier ignored by mod_comp')
K(['C03'], 'c03-particle-constant', CU, "                m += PROTON_MASS * count", "                m += NEUTRON_MASS * count", "'p'",
  'proton key weighed as neutron')
K(['C03', 'C10'], 'c03-dispatch-order', CC, "    if is_psi_mod_str(mod):  # psi-mod\n        return parse_chem_formula(parse_psi_comp(mod))\n\n    if is_unimod_str(mod):  # unimod\n        return parse_chem_formula(parse_unimod_comp(mod))\n",
  "    if is_unimod_str(mod):  # unimod\n        return parse_chem_formula(parse_unimod_comp(mod))\n\n    if is_psi_mod_str(mod):  # psi-mod\n        return parse_chem_formula(parse_psi_comp(mod))\n",
  'order', 'composition resolver tries Unimod before PSI-MOD')
P(['C03'], 'c03-labile-guard-commuted', MC, "    if annotation.has_labile_mods() and ion_type == 'p':\n        for mod in annotation.labile_mods:\n            m +=",
  "    if ion_type == 'p' and annotation.has_labile_mods():\n        for mod in annotation.labile_mods:\n            m +=",
  'commuted conjunction')

# ---------------------------------------------------------------------------------------------------- C04 / C05
K(['C04'], 'c04-label-parent-length', FR, "number = get_number(ion_type, len(annotation), span[0], span[1])\n                            frags.append(get_label(ion_type, c, number, loss, iso))",
  "number = get_number(ion_type, len(base_unmod_sequence), span[0], span[1])\n                            frags.append(get_label(ion_type, c, number, loss, iso))",
  "'label'", 'label branch numbers by the fragment length')
K(['C04'], 'c04-mz-branch-returns-mass', FR, "                        elif return_type == 'mz':\n                            frags.append(fragment_mz)",
  "                        elif return_type == 'mz':\n                            frags.append(fragment_mass)", "'mz'",
  'mz return type returns masses')
K(['C04'], 'c04-branch-removed', FR, "                        elif return_type == 'mass':\n                            frags.append(fragment_mass)\n\n", "",
  'FragmentReturnType', 'mass return type silently empty')
K(['C04'], 'c04-fragmenter-drops-isotopes', FR, "                        isotopes=isotopes,\n                        water_loss=water_loss,", "                        water_loss=water_loss,",
  'isotopes', 'Fragmenter ignores isotopes')
K(['C04'], 'c04-backward-number', FR, "        number = len_sequence - start", "        number = len_sequence - end", 'BACKWARD', 'suffix ions numbered from the span end')
K(['C04', 'C05'], 'c04-loss-fixed', FR, "monoisotopic=monoisotopic, precision=precision,\n                                                    isotope=iso, loss=loss)",
  "monoisotopic=monoisotopic, precision=precision,\n                                                    isotope=iso, loss=0.0)", 'loss',
  'fragment masses ignore the loss')
K(['C04'], 'c04-strip-adducts', FR, "    residues.pop_charge_adducts()\n", "", 'charge_adducts', 'adducts counted once per residue')
K(['C05'], 'c05-span-base', FR, "sum(mass_components[span[0]:span[1]])", "sum(mass_components[span[0]:span[1] + 1])", 'span base',
  'span sum includes the next residue')
K(['C05'], 'c05-immonium-row', CO, '    "i": {"O": -1, "C": -1},\n    \'n\': {}\n}\n\nNEUTRAL_FRAGMENT_COMPOSITION_ADJUSTMENTS',
  '    "i": {"O": -1},\n    \'n\': {}\n}\n\nNEUTRAL_FRAGMENT_COMPOSITION_ADJUSTMENTS', 'T[i]', 'immonium loses O instead of CO')
K(['C05'], 'c05-internal-pairing', CO, "    \"ay\": merge_dicts(NEUTRAL_FRAGMENT_END_COMPOSITIONS['a'], NEUTRAL_FRAGMENT_START_COMPOSITIONS['y']),",
  "    \"ay\": merge_dicts(NEUTRAL_FRAGMENT_END_COMPOSITIONS['b'], NEUTRAL_FRAGMENT_START_COMPOSITIONS['y']),", "ay",
  'ay merged from the wrong rows')
K(['C05', 'C02'], 'c05-mz-no-division', MC, "    m = m if charge == 0 else m / charge", "    m = m if charge == 0 else m / abs(charge)", 'adjust_mz',
  'm/z divides by |charge|')
P(['C04'], 'c04-rename-loop-var', FR, "        for ion_type in ion_types:\n            # base_fragment_mass", "        for ion_type in list(ion_types):\n            # base_fragment_mass",
  'iterating a copy of the list')
P(['C05'], 'c05-table-row-order', CO, "    \"a\": {'e': -1},  # -electron\n    \"b\": {'e': -1},  # -electron\n", "    \"b\": {'e': -1},  # -electron\n    \"a\": {'e': -1},  # -electron\n",
  'rows reordered')

# ---------------------------------------------------------------------------------------------------- C07 / C11 / C16
K(['C07'], 'c07-fast-path-unguarded', DG, "    if return_type == 'str':\n        if not annotation.has_mods():", "    if return_type == 'str':\n        if not annotation.has_internal_mods():",
  'fast path', 'string fast path drops terminal/global mods')
K(['C07'], 'c07-span-off-by-one', DG, "        return (annotation.slice(span[0], span[1]).serialize() for span in spans)\n\n    if return_type == 'str-span':",
  "        return (annotation.slice(span[0], span[1] - 1).serialize() for span in spans)\n\n    if return_type == 'str-span':", "'str'",
  'modified peptides cut one residue short')
K(['C07'], 'c07-config-semi-dropped', DG, "                  semi=config.semi_enzymatic,\n", "", 'semi', 'digest_from_config ignores semi')
K(['C07'], 'c07-sequential-stage-differs', DG, "                    missed_cleavages=enzyme_config.missed_cleavages,\n                    semi=enzyme_config.semi_enzymatic,\n                    min_len=min_len,\n                    max_len=None,\n                    return_type='annotation-span',\n                    complete_digestion=enzyme_config.complete_digestion\n                ))\n\n                # Fix span",
  "                    missed_cleavages=0,\n                    semi=enzyme_config.semi_enzymatic,\n                    min_len=min_len,\n                    max_len=None,\n                    return_type='annotation-span',\n                    complete_digestion=enzyme_config.complete_digestion\n                ))\n\n                # Fix span",
  'same settings', 'later stages ignore missed cleavages')
K(['C07', 'C11'], 'c11-slice-inplace-order', PP, "            if stop < len(self.sequence):\n                self._cterm_mods = None\n            self._sequence = new_sequence\n",
  "            self._sequence = new_sequence\n            if stop < len(self.sequence):\n                self._cterm_mods = None\n", 'after overwriting',
  'in-place slice tests the new length')
K(['C07', 'C11'], 'c11-slice-key-rebase', PP, "                    new_internal_mods[k - start] = copy.deepcopy(mods)", "                    new_internal_mods[k] = copy.deepcopy(mods)",
  'k - start', 'slice keeps absolute residue keys')
K(['C11'], 'c11-reverse-boundary', PP, "                new_start = len(self.sequence) - interval.end\n", "                new_start = len(self.sequence) - interval.end - 1\n",
  'Boundary', 'reverse maps an interval bound like a position')
K(['C11'], 'c11-shift-twin', PP, "            self._sequence = shifted_sequence\n            self._internal_mods = new_internal_mods  # already a copy\n            self._intervals = new_intervals  # already a copy\n            return None",
  "            self._sequence = shifted_sequence\n            self._internal_mods = new_internal_mods  # already a copy\n            return None", 'in-place',
  'in-place shift forgets the intervals')
K(['C11'], 'c11-reverse-swaps-always', PP, "        else:\n            nterm_mods = self.nterm_mods\n            cterm_mods = self.cterm_mods\n\n        if inplace:",
  "        else:\n            nterm_mods = self.cterm_mods\n            cterm_mods = self.nterm_mods\n\n        if inplace:", 'swap_terms',
  'termini swap regardless of swap_terms')
K(['C11', 'C08'], 'c11-sort-no-copy', PP, "        new_annotation = copy.deepcopy(self)\n        new_annotation.sequence = sorted_sequence", "        new_annotation = self\n        new_annotation.sequence = sorted_sequence",
  'sort_residues', 'sort_residues edits self')
K(['C11'], 'c11-wrapper-drops-swap', SF, "    reversed_annotation = annotation.reverse(swap_terms=swap_terms)", "    reversed_annotation = annotation.reverse()", 'swap_terms',
  'reverse() wrapper drops swap_terms')
K(['C16', 'C07'], 'c16-overlapped-dropped', PP, "return [m.start() for m in re.finditer(self.sequence, other.sequence, overlapped=True) if",
  "return [m.start() for m in re.finditer(self.sequence, other.sequence) if", 'overlapped', 'search skips overlapping matches')
K(['C16'], 'c16-strip-one-operand', SF, "        sequence = sequence.strip()\n        subsequence = subsequence.strip()", "        sequence = sequence.strip()", 'stripped',
  'only the target is stripped under ignore_mods')
K(['C16'], 'c16-ignore-mods-dropped', SF, "        peptide_indexes = find_subsequence_indices(sequence, subsequence, ignore_mods=ignore_mods)",
  "        peptide_indexes = find_subsequence_indices(sequence, subsequence)", 'ignore_mods', 'coverage drops ignore_mods')
P(['C11', 'C07'], 'c11-slice-local-renamed', PP, "        new_sequence = self.sequence[start:stop]\n\n        if not self.has_mods():\n            if inplace is True:\n                self._sequence = new_sequence\n                return None\n            return ProFormaAnnotation(_sequence=new_sequence)",
  "        new_sequence = self.sequence[start:stop]\n\n        if not self.has_mods():\n            if inplace:\n                self._sequence = new_sequence\n                return None\n            return ProFormaAnnotation(_sequence=new_sequence)",
  '`inplace is True` written as `inplace`')
P(['C16'], 'c16-overlapped-reordered', PP, "for start in [m.start() for m in re.finditer(self.sequence, other.sequence, overlapped=True)]:",
  "for start in [m.start() for m in re.finditer(pattern=self.sequence, string=other.sequence, overlapped=True)]:", 'keyword arguments')

# ---------------------------------------------------------------------------------------------------- C08
K(['C08', 'C18'], 'c08-condense-no-copy', MC, "        annotation = sequence.copy()  # the terminal/labile mods are popped below: never from the caller's object",
  "        annotation = sequence", 'condense_to_mass_mods', 'condense_to_mass_mods pops from the caller')
K(['C08', 'C13'], 'c08-static-mods-no-copy', MB, "    new_annotation = annotation.copy()\n\n    for regex_str, mods in internal_mods.items():", "    new_annotation = annotation\n\n    for regex_str, mods in internal_mods.items():",
  'apply_static_mods', 'apply_static_mods edits its argument')
K(['C08', 'C20'], 'c08-setter-no-copy', PP, "            value = fix_list_of_mods(value)\n            self._labile_mods = copy.deepcopy(value)", "            value = fix_list_of_mods(value)\n            self._labile_mods = value",
  'labile_mods', 'setter keeps the caller\'s list')
K(['C08'], 'c08-comp-mass-no-copy', MC, "    else:\n        annotation = sequence.copy()\n\n    if charge is not None:\n        annotation.charge = charge", "    else:\n        annotation = sequence\n\n    if charge is not None:\n        annotation.charge = charge",
  'comp_mass', 'comp_mass edits the caller\'s annotation')
K(['C08', 'C14'], 'c08-isotope-dict-no-copy', ISO, "    chemical_formula = dict(chemical_formula)\n", "", 'isotopic_distribution', 'composition dict edited')
K(['C08', 'C17'], 'c08-fragments-sorted-inplace', SC, "    fragments = sorted(fragments, key=lambda x: x.mz)", "    fragments.sort(key=lambda x: x.mz)", 'get_fragment_matches',
  'fragment list sorted in place')
K(['C08', 'C11'], 'c08-global-rng', PP, "        rng.shuffle(combined)", "        random.shuffle(combined)", 'random', 'shuffle consumes the global RNG')
K(['C08'], 'c08-memoised-parse', SF, "def sequence_to_annotation(sequence: str) -> ProFormaAnnotation:", "import functools\n\n\n@functools.lru_cache(maxsize=None)\ndef sequence_to_annotation(sequence: str) -> ProFormaAnnotation:",
  'memois', 'parsed annotations shared between callers')
K(['C08'], 'c08-mutable-default', FR, "def get_losses(sequence: str, losses: List[Tuple[str, float]], max_losses: int) -> Set[float]:\n",
  "def get_losses(sequence: str, losses: List[Tuple[str, float]], max_losses: int, _seen: list = []) -> Set[float]:\n    _seen.append(sequence)\n",
  'default', 'mutable default argument accumulates state')
K(['C08', 'C19'], 'c08-permutations-no-copy', PP, "        middle = self.copy()\n        mods = middle.pop_mods()\n        middle._internal_mods = mods.get('internal')\n\n        components = [a.serialize() for a in middle.split()]\n\n        return [parse(start + ''.join(i) + end) for i in itertools.permutations(components, size)]",
  "        middle = self\n        mods = middle.pop_mods()\n        middle._internal_mods = mods.get('internal')\n\n        components = [a.serialize() for a in middle.split()]\n\n        return [parse(start + ''.join(i) + end) for i in itertools.permutations(components, size)]",
  'permutations', 'permutations strips self')
K(['C08'], 'c08-mass-caches-in-global', MC, "def ppm_error(theo: float, expt: float, precision: Optional[int] = None) -> float:", "_LAST = {}\n\n\ndef ppm_error(theo: float, expt: float, precision: Optional[int] = None) -> float:\n    _LAST['theo'] = theo",
  '_LAST', 'a query writes module-level state')
P(['C08'], 'c08-copy-then-edit', MB, "    new_annotation = annotation.copy()\n\n    for regex_str, mods in internal_mods.items():", "    new_annotation = copy.deepcopy(annotation)\n\n    for regex_str, mods in internal_mods.items():".replace('copy.deepcopy(annotation)', 'annotation.copy().copy()'),
  'double copy')
P(['C08'], 'c08-local-list-mutation', FR, "    applicable_losses = []\n    for restr, loss in losses:", "    applicable_losses = list()\n    for restr, loss in losses:", 'fresh list built differently')

# ---------------------------------------------------------------------------------------------------- C09
K(['C09'], 'c09-guard-removed-peek', PP, "                if not self._end_of_sequence() and self._current() == '/':", "                if self._current() == '/':", 'cursor',
  'crosslink test reads past the end')
K(['C09'], 'c09-guard-removed-after-mods', PP, "                if self._end_of_sequence():\n                    raise ProFormaFormatError(\"Expected '-' or '?' after the modification(s), but the sequence ended\",\n                                              self.position, self.sequence)\n",
  "", 'cursor', 'IndexError after a leading modification')
K(['C09'], 'c09-isinstance-guard-removed', PP, "                    if not isinstance(mod.val, str):  # e.g. <1>: neither an isotope label nor a static rule\n                        raise ProFormaFormatError(f\"Invalid global modification: {mod.val}\", self.position,\n                                                  self.sequence)\n",
  "", 'mod.val', 'TypeError on numeric global mod')
K(['C09'], 'c09-raise-keyerror', PP, "                    raise ProFormaFormatError(\"Interval ended without starting!\", self.position, self.sequence)",
  "                    raise KeyError(\"Interval ended without starting!\")", 'KeyError', 'unrelated exception type')
K(['C09'], 'c09-skip-deleted', PP, "                # interval is ambiguous\n                dummy_interval[2] = True\n                self._skip(1)", "                # interval is ambiguous\n                dummy_interval[2] = True",
  'progress', 'parser hangs on ? inside an interval')
K(['C09'], 'c09-terminal-return-zero', MC, "    raise InvalidModificationMassError(mod)", "    return 0.0", 'mod_mass', 'unresolvable mods weigh nothing')
K(['C09'], 'c09-swallowing-handler', MC, "    if annotation.has_unknown_mods():\n        for mod in annotation.unknown_mods:\n            m += mod_mass(mod, monoisotopic)",
  "    if annotation.has_unknown_mods():\n        for mod in annotation.unknown_mods:\n            try:\n                m += mod_mass(mod, monoisotopic)\n            except ValueError:\n                pass",
  'handler', 'resolver errors swallowed')
P(['C09'], 'c09-guard-rewritten', PP, "                if not self._end_of_sequence() and self._current() == '[':\n                    dummy_interval[3]", "                if (not self._end_of_sequence()) and (self._current() == '['):\n                    dummy_interval[3]",
  'parenthesised guard')

# ---------------------------------------------------------------------------------------------------- C10
K(['C10'], 'c10-prefix-only-recognised', DB, "    return xlmod_str_lower.startswith('xlmod:') or xlmod_str_lower.startswith('x:')\n\n\ndef _strip_xlmod_str",
  "    return xlmod_str_lower.startswith('xlmod:') or xlmod_str_lower.startswith('x:') or xlmod_str_lower.startswith('xl:')\n\n\ndef _strip_xlmod_str",
  'xlmod', 'prefix xl: recognised but never stripped')
K(['C10'], 'c10-strip-truncates', DB, "        return unimod_str.split(':', 1)[1]", "        return unimod_str.split(':')[1]", 'unimod', 'Unimod names cut at the second colon')
K(['C10'], 'c10-lookup-order', DB, "    if db.contains_id(mod_str):\n        entry = db.get_entry_by_id(mod_str)\n    elif db.contains_name(mod_str):\n        entry = db.get_entry_by_name(mod_str)\n    else:\n        entry = None\n\n    if entry:",
  "    if db.contains_name(mod_str):\n        entry = db.get_entry_by_name(mod_str)\n    elif db.contains_id(mod_str):\n        entry = db.get_entry_by_id(mod_str)\n    else:\n        entry = None\n\n    if entry:",
  'look-up order', 'composition looks up names before ids')
K(['C10'], 'c10-case-folding', DB, "    if unimod_str_lower.startswith('unimod:') or unimod_str_lower.startswith('u:'):\n        return", "    if unimod_str.startswith('unimod:') or unimod_str.startswith('u:'):\n        return",
  'case', 'stripper tests the raw string')
P(['C10'], 'c10-strip-partition', DB, "        return psi_str.split(':', 1)[1]", "        return psi_str.partition(':')[2]", 'partition idiom')

# ---------------------------------------------------------------------------------------------------- C12 / C13
K(['C12'], 'c12-cterm-literal', CC, "        c_term_mod = static_map.get('C-Term')", "        c_term_mod = static_map.get('C-term')", 'special targets',
  'composition path reads C-term (lower-case t)')
K(['C12'], 'c12-isotope-on-mods-always', CC, "        else:\n            sequence_composition = apply_isotope_mods_to_composition(sequence_composition, annotation.isotope_mods)",
  "        else:\n            sequence_composition = apply_isotope_mods_to_composition(sequence_composition, annotation.isotope_mods)\n            mod_composition = apply_isotope_mods_to_composition(mod_composition, annotation.isotope_mods)",
  'only the sequence', 'labels reach modifications without being requested')
K(['C12'], 'c12-tritium-alias', PP, "    if 'T' in isotope_map:\n        isotope_map['H'] = isotope_map.pop('T')\n", "", 'D and T', 'tritium label ignored')
K(['C13'], 'c13-append-overwrites', MB, "                elif mode == 'append':\n                    new_annotation.add_internal_mod(mod_index, mods, True)", "                elif mode == 'append':\n                    new_annotation.add_internal_mod(mod_index, mods, False)",
  "'append'", 'append mode overwrites')
K(['C13'], 'c13-offset', MB, "        for mod_index in get_regex_match_indices(annotation.sequence, regex_str, offset=-1):\n            for list_of_mods in list_of_list_of_mods:",
  "        for mod_index in get_regex_match_indices(annotation.sequence, regex_str):\n            for list_of_mods in list_of_list_of_mods:", 'offset',
  'variable mods land one residue to the right')
K(['C13'], 'c13-cterm-index', MB, "            if mod_index == len(annotation.sequence) - 1:", "            if mod_index == len(annotation.sequence):", 'cterm rules act',
  'C-terminal rule never matches')
K(['C13'], 'c13-mode-not-forwarded', MB, "                nterm_annot = apply_static_mods(annotation, {}, nterm_mods={regex_str: mods},\n                                                mode=mode, return_type='annotation')",
  "                nterm_annot = apply_static_mods(annotation, {}, nterm_mods={regex_str: mods},\n                                                return_type='annotation')", 'mode',
  'terminal variants ignore the mode')
P(['C13'], 'c13-keyword-append', MB, "                    elif mode == 'append':\n                        new_annotation.add_nterm_mods(mods, True)", "                    elif mode == 'append':\n                        new_annotation.add_nterm_mods(mods, append=True)",
  'keyword form of the flag')

# ---------------------------------------------------------------------------------------------------- C14 / C15 / C17
K(['C14'], 'c14-offset-under-delta', ISO, "    if not use_neutron_count:\n        # reported masses always", "    if not use_neutron_count and delta_mass != 0.0:\n        # reported masses always",
  'particle offset', 'e/p/n ignored for integer formulas')
K(['C14'], 'c14-transposed-options', ISO, "                                          conv_min_abundance_threshold,\n                                          distribution_abundance,",
  "                                          distribution_abundance,\n                                          conv_min_abundance_threshold,", 'same name', 'two float options transposed')
K(['C14'], 'c14-proton-constant', ISO, "(proton_count * constants.PROTON_MASS)", "(proton_count * constants.NEUTRON_MASS)", "'p'", 'protons weighed as neutrons')
K(['C15'], 'c15-assign-not-accumulate', CU, "        counts.setdefault(mass_number_and_element, 0)\n        counts[mass_number_and_element] += count", "        counts[mass_number_and_element] = count",
  'accumulates', 'isotope component overwrites')
K(['C15'], 'c15-predicate-diverges', CU, "            if element[0].isdigit() or element == 'D' or element == 'T':  # element is a isotope", "            if element[0].isdigit() or element == 'D':  # element is a isotope",
  'predicate', 'T treated as plain element in average mode')
K(['C15'], 'c15-token-pattern', CO, "CONDENSED_CHEM_FORMULA_PATTERN = regex.compile(r'([A-Z][a-z]*|e|p|n)(-?\\d*\\.?\\d*)')", "CONDENSED_CHEM_FORMULA_PATTERN = regex.compile(r'([A-Z]|e|p|n)(-?\\d*\\.?\\d*)')",
  'tokenised', 'two-letter symbols split')
K(['C17'], 'c17-attribute-typo', SC, "        return self.fragment.internal\n", "        return self.fragment.interna1\n", 'interna1', 'misspelled attribute')
K(['C17'], 'c17-mode-unhandled', SC, "    if mode not in ['closest', 'largest', 'all']:\n        raise ValueError('Invalid mode. Must be \"closest\" or \"largest\" or \"all\"')",
  "    if mode not in ['closest', 'largest', 'all', 'first']:\n        raise ValueError('Invalid mode. Must be \"closest\" or \"largest\" or \"all\"')", 'modes', 'validated mode without a branch')
K(['C17'], 'c17-tolerance-type-dropped', SC, "    indices = match_spectra(fragment_spectrum, mz_spectra, tolerance_value, tolerance_type, mode, intensity_spectra)",
  "    indices = match_spectra(fragment_spectrum, mz_spectra, tolerance_value, mode=mode, intensity_spectra=intensity_spectra)", 'tolerance_type',
  'tolerance type falls back to ppm')

# ---------------------------------------------------------------------------------------------------- C18 / C19 / C20
K(['C18'], 'c18-unknown-not-popped', MC, "    unknown_mods = annotation.pop_unknown_mods()\n", "    unknown_mods = annotation.unknown_mods\n", 'unknown_mods', 'unknown mods counted per residue')
K(['C18'], 'c18-unrounded', MC, "        new_annotation.add_nterm_mods(round(n_term_mods_mass, precision))", "        new_annotation.add_nterm_mods(n_term_mods)", 'rounded',
  'named N-terminal mods written back')
K(['C18', 'C01'], 'c18-include-plus', MC, "    return new_annotation.serialize(include_plus=include_plus)", "    return new_annotation.serialize()", 'include_plus', 'include_plus ignored')
K(['C19'], 'c19-wrong-itertools', PP, "for i in itertools.combinations_with_replacement(components, size)]", "for i in itertools.combinations(components, size)]", 'itertools',
  'replacement variant enumerates plain combinations')
K(['C19'], 'c19-end-after-pop', PP, "        start = self.serialize_start()\n        end = self.serialize_end()\n\n        # work on a copy: self must keep its modifications\n        middle = self.copy()\n        mods = middle.pop_mods()\n        middle._internal_mods = mods.get('internal')\n\n        components = [a.serialize() for a in middle.split()]\n\n        return [parse(start + ''.join(i) + end) for i in itertools.product",
  "        start = self.serialize_start()\n\n        # work on a copy: self must keep its modifications\n        middle = self.copy()\n        mods = middle.pop_mods()\n        middle._internal_mods = mods.get('internal')\n        end = middle.serialize_end()\n\n        components = [a.serialize() for a in middle.split()]\n\n        return [parse(start + ''.join(i) + end) for i in itertools.product",
  'product', 'end text taken after the mods were popped')
K(['C19'], 'c19-wrapper-wrong-method', 'sequence/combinatoric.py', "    return [a.serialize() for a in annotation.combinations(size)]", "    return [a.serialize() for a in annotation.permutations(size)]", 'combinations',
  'combinations() delegates to permutations')
K(['C20', 'C19'], 'c20-pop-mods-key', PP, "            d['internal'] = self.pop_internal_mods()", "            d['residues'] = self.pop_internal_mods()", 'key', 'pop_mods files residue mods under another key')
K(['C20'], 'c20-add-mod-dict-misroutes', PP, "        if 'cterm' in mod_dict:\n            self.add_cterm_mods(mod_dict['cterm'], append)", "        if 'cterm' in mod_dict:\n            self.add_nterm_mods(mod_dict['cterm'], append)", "'cterm'",
  'C-terminal mods routed to the N-terminus')
K(['C20'], 'c20-strip-keeps-charge', PP, "            self.charge = None\n            self.charge_adducts = None\n            return None", "            self.charge_adducts = None\n            return None", 'charge', 'strip keeps the charge')
K(['C20'], 'c20-interval-hash-order', DC, "tuple(sorted(self.mods)) if self.mods else None", "tuple(self.mods) if self.mods else None", 'order', 'interval hash depends on mod order')
P(['C20'], 'c20-eq-reordered', PP, "        if not are_mods_equal(self.labile_mods, other.labile_mods):\n            return False\n\n        if not are_mods_equal(self.unknown_mods, other.unknown_mods):\n            return False\n",
  "        if not are_mods_equal(self.unknown_mods, other.unknown_mods):\n            return False\n\n        if not are_mods_equal(self.labile_mods, other.labile_mods):\n            return False\n", 'comparisons reordered')


# ---------------------------------------------------------------------------------------------------- C06
SPN = 'spans.py'
K(['C06'], 'c06-strict-lower-bound', SPN, 'if min_len <= (end_site - start_site) <= max_len:',
  'if min_len < (end_site - start_site) <= max_len:', 'closed interval', 'a span of exactly min_len residues is dropped')
K(['C06'], 'c06-strict-upper-bound-semi', SPN, 'if max_len >= span[1] - span[0] >= min_len:',
  'if max_len > span[1] - span[0] >= min_len:', 'closed interval',
  'under semi a strict span of exactly max_len residues is dropped')
K(['C06'], 'c06-window-one-short', SPN, 'enzyme_sites[i + 1: i + missed_cleavages + 2]',
  'enzyme_sites[i + 1: i + missed_cleavages + 1]', 'missed_cleavages + 1 sites wide',
  'one missed cleavage fewer than asked for')
K(['C06'], 'c06-window-starts-at-self', SPN, 'enzyme_sites[i + 1: i + missed_cleavages + 2]',
  'enzyme_sites[i: i + missed_cleavages + 2]', 'starts right after the start site', 'empty spans, counts shifted by one')
K(['C06'], 'c06-count-off-by-one', SPN, 'yield start_site, end_site, j', 'yield start_site, end_site, j + 1',
  'position inside the window', 'every span reports one missed cleavage too many')
K(['C06'], 'c06-sites-not-deduplicated', SPN, 'enzyme_sites = sorted(set(enzyme_sites))\n\n    if len(enzyme_sites) == max_index + 1',
  'enzyme_sites = sorted(enzyme_sites)\n\n    if len(enzyme_sites) == max_index + 1', 'distinct sites',
  'two rules reporting the same site make a specific digest look non-specific')
K(['C06'], 'c06-semi-parents-bounded', SPN, 'None if semi else max_len', 'max_len', 'without the upper bound',
  'a strict span longer than max_len contributes no semi spans')
K(['C06'], 'c06-right-semi-dropped', SPN, '    yield from _grouped_right_semi_span_builder(spans, min_len, max_len)\n', '',
  'left and the right semi spans', 'spans sharing the end with a strict span are never produced')
K(['C06'], 'c06-nonspecific-keeps-count', SPN, 'return ((i, j, 0) for i in range(start, end)', 'return ((i, j, _) for i in range(start, end)',
  '0 missed cleavages', 'non-specific spans inherit the number of the parent span')
K(['C06'], 'c06-partial-inverted', DG, '    if not complete_digestion:\n        all_spans.add((0, len(annotation), 0))',
  '    if complete_digestion:\n        all_spans.add((0, len(annotation), 0))', 'digestion adds',
  'the undigested sequence is added for complete digestion and missing for partial digestion')
K(['C06'], 'c06-semi-not-forwarded', DG, 'min_len=min_len, max_len=max_len, semi=semi)', 'min_len=min_len, max_len=max_len)',
  'semi', 'semi-specific digestion silently becomes specific')
K(['C06'], 'c06-terminus-not-a-site', SPN, '    enzyme_sites.add(max_index)\n', '', 'closed with 0 and max_index',
  'the last peptide is never produced')
P(['C06'], 'c06-bounds-as-locals', SPN, 'if min_len <= (end_site - start_site) <= max_len:\n                yield start_site, end_site, j',
  'length = end_site - start_site\n            if min_len <= length <= max_len:\n                yield start_site, end_site, j',
  'the span length named before it is tested')
P(['C06'], 'c06-window-named', SPN, 'for j, end_site in enumerate(enzyme_sites[i + 1: i + missed_cleavages + 2]):',
  'first = i + 1\n        for j, end_site in enumerate(enzyme_sites[first: first + missed_cleavages + 1]):',
  'the window written with a named lower bound')
P(['C06'], 'c06-partial-flipped', DG, '    if not complete_digestion:\n        all_spans.add((0, len(annotation), 0))',
  '    if complete_digestion:\n        pass\n    else:\n        all_spans.add((0, len(annotation), 0))',
  'the partial-digestion branch written as an else')
