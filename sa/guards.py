"""
guards: three-valued evaluation of guard expressions over a small finite domain, and specialisation of a statement
list under such an environment.

A guard is decided *statically*: its atoms (names, calls, subscripts, spelled as normalised source text) are mapped to
small concrete representatives chosen by the rule (orderings of two integers, the members of a Literal type, presence
or absence of a key); everything the environment does not name is UNKNOWN and the connectives follow Kleene logic, so a
verdict "definitely false" / "definitely true" never depends on anything the rule did not model.  This is the
"values touched only through comparisons" case: the set of orderings is finite and enumerated.
"""
import ast
import copy
import operator
from typing import Dict, Iterable, Iterator, List, Optional, Tuple


class HelperRaises(Exception):
    """raised by a call hook when the helper it evaluates ends in a raise on the decided path"""


class _Unknown:
    def __repr__(self):
        return 'UNK'


UNK = _Unknown()

_CMP = {ast.Eq: operator.eq, ast.NotEq: operator.ne, ast.Lt: operator.lt, ast.LtE: operator.le, ast.Gt: operator.gt,
        ast.GtE: operator.ge, ast.Is: lambda a, b: a is b if (a is None or b is None or isinstance(a, bool) or
                                                              isinstance(b, bool)) else a == b,
        ast.IsNot: lambda a, b: a is not b if (a is None or b is None or isinstance(a, bool) or
                                               isinstance(b, bool)) else a != b,
        ast.In: lambda a, b: a in b, ast.NotIn: lambda a, b: a not in b}
_BIN = {ast.Add: operator.add, ast.Sub: operator.sub, ast.Mult: operator.mul, ast.FloorDiv: operator.floordiv,
        ast.Mod: operator.mod}


def text(node: ast.AST) -> str:
    return ' '.join(ast.unparse(node).split())


class GuardEval:
    def __init__(self, env: Dict[str, object], aliases: Optional[Dict[str, ast.AST]] = None, call_hook=None):
        self.env = dict(env)
        self.aliases = dict(aliases or {})
        self._depth = 0
        self.call_hook = call_hook  # (call node, this evaluator) -> value or UNK: decided results of small helpers

    def child(self, **more):
        g = GuardEval(self.env, self.aliases, self.call_hook)
        g.env.update(more)
        return g

    def eval(self, node: ast.AST):
        key = text(node)
        if key in self.env:
            return self.env[key]
        m = getattr(self, 'e_' + type(node).__name__, None)
        if m is None:
            return UNK
        try:
            return m(node)
        except HelperRaises:
            raise
        except Exception:
            return UNK

    # -- atoms
    def e_Constant(self, n):
        return n.value

    def e_Name(self, n):
        if n.id in self.aliases and self._depth < 8:
            self._depth += 1
            try:
                return self.eval(self.aliases[n.id])
            finally:
                self._depth -= 1
        return UNK

    def e_Tuple(self, n):
        vals = [self.eval(x) for x in n.elts]
        return UNK if any(v is UNK for v in vals) else tuple(vals)

    e_List = e_Tuple
    e_Set = e_Tuple

    def e_Dict(self, n):
        if any(k is None for k in n.keys):
            return UNK
        ks, vs = [self.eval(k) for k in n.keys], [self.eval(v) for v in n.values]
        return UNK if any(v is UNK for v in ks + vs) else dict(zip(ks, vs))

    # -- connectives (Kleene)
    def e_BoolOp(self, n):
        vals = [self.eval(v) for v in n.values]
        if isinstance(n.op, ast.And):
            for v in vals:
                if v is not UNK and not v:
                    return v
            if any(v is UNK for v in vals):
                return UNK
            return vals[-1]
        for v in vals:
            if v is not UNK and v:
                return v
        if any(v is UNK for v in vals):
            return UNK
        return vals[-1]

    def e_UnaryOp(self, n):
        v = self.eval(n.operand)
        if v is UNK:
            return UNK
        if isinstance(n.op, ast.Not):
            return not v
        if isinstance(n.op, ast.USub):
            return -v
        if isinstance(n.op, ast.UAdd):
            return +v
        return UNK

    def e_Compare(self, n):
        left = self.eval(n.left)
        result = True
        unknown = False
        for op, c in zip(n.ops, n.comparators):
            right = self.eval(c)
            if left is UNK or right is UNK:
                unknown = True
            else:
                f = _CMP.get(type(op))
                if f is None:
                    unknown = True
                elif not f(left, right):
                    return False
            left = right
        return UNK if unknown else result

    def e_BinOp(self, n):
        a, b = self.eval(n.left), self.eval(n.right)
        f = _BIN.get(type(n.op))
        if a is UNK or b is UNK or f is None:
            return UNK
        return f(a, b)

    def e_IfExp(self, n):
        t = self.eval(n.test)
        if t is UNK:
            a, b = self.eval(n.body), self.eval(n.orelse)
            return a if (a is not UNK and b is not UNK and a == b) else UNK
        return self.eval(n.body if t else n.orelse)

    def e_Call(self, n):
        if isinstance(n.func, ast.Name) and n.func.id in ('max', 'min') and n.args and not n.keywords:
            vals = [self.eval(a) for a in n.args]
            if any(v is UNK for v in vals):
                return UNK
            return max(vals) if n.func.id == 'max' else min(vals)
        if isinstance(n.func, ast.Name) and n.func.id in ('bool', 'int', 'abs') and len(n.args) == 1:
            v = self.eval(n.args[0])
            return UNK if v is UNK else {'bool': bool, 'int': int, 'abs': abs}[n.func.id](v)
        if isinstance(n.func, ast.Name) and n.func.id in ('len', 'enumerate', 'range', 'list', 'tuple', 'str', 'reversed') \
                and n.args and not n.keywords:
            vals = [self.eval(a) for a in n.args]
            if not any(v is UNK for v in vals):
                v0 = vals[0]
                if n.func.id == 'len' and isinstance(v0, (str, tuple, list, dict, frozenset, set)):
                    return len(v0)
                if n.func.id == 'range' and all(isinstance(v, int) for v in vals):
                    return tuple(range(*vals))
                if n.func.id == 'enumerate' and isinstance(v0, (str, tuple, list)):
                    return tuple(enumerate(v0, *vals[1:]))
                if n.func.id in ('list', 'tuple') and isinstance(v0, (str, tuple, list)):
                    return tuple(v0)
                if n.func.id == 'reversed' and isinstance(v0, (str, tuple, list)):
                    return tuple(reversed(v0))
                if n.func.id == 'str' and isinstance(v0, (str, int)):
                    return str(v0)
        if self.call_hook is not None:
            return self.call_hook(n, self)
        return UNK

    def e_Subscript(self, n):
        if isinstance(n.slice, ast.Slice):
            return UNK
        v, k = self.eval(n.value), self.eval(n.slice)
        if v is UNK or k is UNK or not isinstance(v, (str, tuple, list, dict)):
            return UNK
        return v[k]

    def e_NamedExpr(self, n):
        return self.eval(n.value)


def _stores(st: ast.stmt) -> List[str]:
    out = []
    for x in ast.walk(st):
        if isinstance(x, ast.Name) and isinstance(x.ctx, ast.Store):
            out.append(x.id)
    return out


def specialise(stmts: Iterable[ast.stmt], ge: GuardEval, marks: Optional[dict] = None, definite: bool = True) \
        -> Iterator[ast.stmt]:
    """simple statements of `stmts` that can execute under ge (branches whose test is decided are pruned); a name that
    is re-assigned leaves the environment.  When `marks` is given, marks[id(stmt)] says whether the statement is
    reached on every execution of its enclosing loop body / function under ge (no undecided test in between)."""
    for st in stmts:
        if isinstance(st, ast.If):
            v = ge.eval(st.test)
            if v is UNK or v:
                yield from specialise(st.body, ge, marks, definite and v is not UNK)
            if v is UNK or not v:
                yield from specialise(st.orelse, ge, marks, definite and v is not UNK)
        elif isinstance(st, (ast.For, ast.AsyncFor, ast.While)):
            yield from specialise(st.body, ge, marks, definite)
            yield from specialise(st.orelse, ge, marks, definite)
        elif isinstance(st, (ast.With, ast.AsyncWith)):
            yield from specialise(st.body, ge, marks, definite)
        elif isinstance(st, ast.Try):
            yield from specialise(st.body, ge, marks, definite)
            for h in st.handlers:
                yield from specialise(h.body, ge, marks, False)
            yield from specialise(st.orelse, ge, marks, definite)
            yield from specialise(st.finalbody, ge, marks, definite)
        elif isinstance(st, (ast.FunctionDef, ast.AsyncFunctionDef, ast.ClassDef)):
            continue
        else:
            if marks is not None:
                marks[id(st)] = definite
            yield st
            known = {}
            if isinstance(st, ast.Assign) and len(st.targets) == 1 and isinstance(st.targets[0], ast.Name) and definite:
                v = ge.eval(st.value)      # a local bound to a decided value keeps it for the statements that follow
                if v is not UNK:
                    known[st.targets[0].id] = v
            for name in _stores(st):
                for k in [k for k in ge.env if k == name]:
                    del ge.env[k]
                ge.aliases.pop(name, None) if name in known or not definite else None
            ge.env.update(known)


class _Resolve(ast.NodeTransformer):
    def __init__(self, ge):
        self.ge = ge

    def visit_IfExp(self, node):
        v = self.ge.eval(node.test)
        if v is UNK:
            return self.generic_visit(node)
        return self.visit(node.body if v else node.orelse)


def resolve(expr: ast.AST, ge: GuardEval) -> ast.AST:
    """expr with every conditional expression whose test is decided under ge replaced by the chosen arm"""
    return ast.fix_missing_locations(_Resolve(ge).visit(copy.deepcopy(expr)))


def dominating_tests(fnode: ast.AST, target: ast.AST) -> List[Tuple[ast.AST, bool]]:
    """(test, polarity) of every if/while/ifexp/comprehension-if that encloses `target` inside fnode, outermost
    first; polarity False = target sits in the else arm"""
    path: List[Tuple[ast.AST, bool]] = []

    def rec(node, acc) -> bool:
        if node is target:
            path.extend(acc)
            return True
        if isinstance(node, ast.If) or isinstance(node, ast.While):
            if rec(node.test, acc):
                return True
            for ch in node.body:
                if rec(ch, acc + [(node.test, True)]):
                    return True
            for ch in node.orelse:
                if rec(ch, acc + [(node.test, False)]):
                    return True
            return False
        if isinstance(node, ast.IfExp):
            if rec(node.test, acc):
                return True
            if rec(node.body, acc + [(node.test, True)]):
                return True
            return rec(node.orelse, acc + [(node.test, False)])
        for ch in ast.iter_child_nodes(node):
            if rec(ch, acc):
                return True
        return False

    rec(fnode, [])
    return path


def preceding_exits(body: List[ast.stmt], target: ast.AST) -> List[ast.AST]:
    """tests of the `if <test>: continue/return/break/raise` statements that precede `target` in the same or an
    enclosing statement list (their negation holds when target runs)"""
    out: List[ast.AST] = []

    def contains(node, t):
        return any(x is t for x in ast.walk(node))

    def rec(stmts) -> bool:
        seen: List[ast.AST] = []
        for st in stmts:
            if contains(st, target):
                out.extend(seen)
                for field in ('body', 'orelse', 'finalbody'):
                    sub = getattr(st, field, None)
                    if isinstance(sub, list) and sub and isinstance(sub[0], ast.stmt) and \
                            any(contains(s, target) for s in sub):
                        rec(sub)
                for h in getattr(st, 'handlers', []) or []:
                    if contains(h, target):
                        rec(h.body)
                return True
            if isinstance(st, ast.If) and st.body and not st.orelse and \
                    isinstance(st.body[-1], (ast.Continue, ast.Return, ast.Break, ast.Raise)):
                seen.append(st.test)
        return False

    rec(body)
    return out


def assigned_on_every_path(stmts: List[ast.stmt], name: str, target: ast.AST) -> Optional[bool]:
    """True if on every path through `stmts` that reaches the statement containing `target`, `name` has been bound
    (plain / augmented / loop / with binding) before; False if some path reaches it unbound; None if target is not in
    stmts.  Syntax-directed definite-assignment analysis over if / for / while / try / with."""

    def binds(st) -> bool:
        tg = []
        if isinstance(st, ast.Assign):
            tg = st.targets
        elif isinstance(st, (ast.AnnAssign, ast.AugAssign)):
            tg = [st.target] if getattr(st, 'value', True) is not None else []
        elif isinstance(st, (ast.For, ast.AsyncFor)):
            tg = [st.target]
        return any(isinstance(x, ast.Name) and x.id == name for t in tg for x in ast.walk(t))

    def contains(node) -> bool:
        return any(x is target for x in ast.walk(node))

    found = {'v': None}

    def block(sts, assigned: bool) -> bool:
        """returns the assigned-state after the block (for paths that fall through)"""
        for st in sts:
            if contains(st):
                if isinstance(st, ast.If):
                    if contains(st.test):
                        note(assigned)
                    block(st.body, assigned) if any(contains(x) for x in st.body) else None
                    block(st.orelse, assigned) if any(contains(x) for x in st.orelse) else None
                elif isinstance(st, (ast.For, ast.AsyncFor, ast.While)):
                    inner = assigned or (isinstance(st, (ast.For, ast.AsyncFor)) and binds(st))
                    if any(contains(x) for x in st.body):
                        block(st.body, inner)
                    elif any(contains(x) for x in st.orelse):
                        block(st.orelse, assigned)
                    else:
                        note(assigned)
                elif isinstance(st, ast.Try):
                    for part in (st.body, st.orelse, st.finalbody):
                        if any(contains(x) for x in part):
                            block(part, assigned)
                    for h in st.handlers:
                        if any(contains(x) for x in h.body):
                            block(h.body, assigned)
                elif isinstance(st, (ast.With, ast.AsyncWith)):
                    block(st.body, assigned)
                else:
                    # a simple statement: its own binding happens after its right-hand side is evaluated
                    note(assigned)
                return assigned
            if isinstance(st, ast.If):
                a = block(st.body, assigned)
                b = block(st.orelse, assigned)
                ends_a = bool(st.body) and isinstance(st.body[-1], (ast.Return, ast.Raise, ast.Continue, ast.Break))
                ends_b = bool(st.orelse) and isinstance(st.orelse[-1], (ast.Return, ast.Raise, ast.Continue, ast.Break))
                assigned = (a or ends_a) and (b or ends_b) if (ends_a or ends_b) else (a and b)
                if ends_a and not ends_b:
                    assigned = b
                elif ends_b and not ends_a:
                    assigned = a
            elif isinstance(st, (ast.For, ast.AsyncFor, ast.While)):
                pass  # a loop body may run zero times: bindings inside do not count afterwards
            elif isinstance(st, ast.Try):
                assigned = block(st.body, assigned) and all(block(h.body, assigned) for h in st.handlers) if st.handlers \
                    else block(st.body, assigned)
            elif isinstance(st, (ast.With, ast.AsyncWith)):
                assigned = block(st.body, assigned)
            elif binds(st):
                assigned = True
        return assigned

    def note(a: bool):
        found['v'] = a if found['v'] is None else (found['v'] and a)

    block(list(stmts), False)
    return found['v']


def first_exit(stmts, ge: GuardEval):
    """the Return / Raise statements a function body can end in under ge: every exit reachable before (and including)
    the first one that is reached on every execution.  -> list of (stmt, definite)"""
    marks: dict = {}
    out = []
    for st in specialise(stmts, ge, marks):
        if isinstance(st, (ast.Return, ast.Raise)):
            d = marks.get(id(st), False)
            out.append((st, d))
            if d:
                break
    return out


def spec_return(fn_node, ge_env: Dict[str, object], aliases: Dict[str, ast.AST], arg_bind: Dict[str, ast.AST]):
    """value returned by a small helper when its branches are decided under ge_env (atoms) and aliases (locals of the
    caller and of the helper that stand for an expression).  -> expression with the helper's parameters replaced by the
    call's arguments and its own single-assignment locals resolved, or None when more than one return stays reachable"""
    from .canon import Canon
    inner = Canon(fn_node)
    al = dict(aliases)
    al.update(inner.aliases())
    exits = first_exit(fn_node.body, GuardEval(ge_env, al))
    rets = [st for st, _d in exits if isinstance(st, ast.Return)]
    if len(exits) != 1 or len(rets) != 1 or rets[0].value is None:
        return None
    ge = GuardEval(ge_env, al)
    val = resolve(inner.resolve(rets[0].value), ge)

    class S(ast.NodeTransformer):
        def visit_Name(self, n):
            if isinstance(n.ctx, ast.Load) and n.id in arg_bind:
                return copy.deepcopy(arg_bind[n.id])
            return n
    return resolve(S().visit(val), ge)
