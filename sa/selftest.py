"""
selftest: tests the checkers both ways on scratch copies of the package (thorough tier).

  kill variants       one rule instance is broken by a small edit that still compiles: the check must report a NEW
                      finding (relative to the unedited tree) whose text names the edited construct;
  preserving variants behaviour-preserving edits (renamed local, reordered keywords, equivalent idiom): the set of
                      findings must not change.

Scratch copies live under tempfile.mkdtemp() (outside /repo and /verif) and are removed as soon as a variant has
been analysed.  A variant whose anchor text is not present in the current tree is reported as not applicable.
"""
import ast
import os
import shutil
import sys
import tempfile
import time
from concurrent.futures import ProcessPoolExecutor
from typing import Dict, List, Optional, Tuple

from .loader import repo_root


def _copy_tree(root: str) -> str:
    tmp = tempfile.mkdtemp(prefix='sa_selftest_')
    src = os.path.join(root, 'src', 'peptacular')
    dst = os.path.join(tmp, 'src', 'peptacular')
    shutil.copytree(src, dst, ignore=shutil.ignore_patterns('__pycache__', '*.pyc', 'resid.xml'))
    return tmp


def _finding_keys(rep) -> Dict[tuple, str]:
    out = {}
    for f in rep.new_findings():
        out[f.key()] = f'{f.rule} {f.module}:{f.qualname} :: {f.construct} -- {f.message}'
    return out


def _run_variant(args) -> dict:
    prop, v, root = args
    t0 = time.time()
    res = {'name': v['name'], 'kind': v['kind'], 'prop': prop, 'status': '?', 'detail': ''}
    tmp = None
    try:
        if 'patch' in v or v.get('rename_all'):
            import subprocess
            import warnings
            if v.get('rename_all'):
                from .rename_test import rename_everything
                tmp, _n = rename_everything(root)
            else:
                tmp = _copy_tree(root)
                p = subprocess.run(['patch', '-p1', '-s', '-f', '-i', v['patch']], cwd=tmp, capture_output=True, text=True)
                if p.returncode != 0:
                    res['status'] = 'not-applicable'
                    res['detail'] = 'the stored patch no longer applies to the current tree'
                    return res
            from .check import analyse
            with warnings.catch_warnings():
                warnings.simplefilter('ignore')
                rep = analyse(prop, tmp)
            res['findings'] = _finding_keys(rep)
            res['errors'] = list(rep.errors)
            return res
        path = os.path.join(root, 'src', 'peptacular', v['file'])
        if not os.path.exists(path):
            res['status'] = 'not-applicable'
            res['detail'] = f'file missing: {v["file"]}'
            return res
        text = open(path, encoding='utf-8').read()
        cnt = text.count(v['old'])
        want = v.get('count', 1)
        if cnt != want:
            res['status'] = 'not-applicable'
            res['detail'] = f'anchor text occurs {cnt} time(s), expected {want}'
            return res
        new_text = text.replace(v['old'], v['new'])
        try:
            import warnings
            with warnings.catch_warnings():
                warnings.simplefilter('ignore')
                ast.parse(new_text)
        except SyntaxError as e:
            res['status'] = 'broken-variant'
            res['detail'] = f'edited file does not parse: {e}'
            return res
        tmp = _copy_tree(root)
        with open(os.path.join(tmp, 'src', 'peptacular', v['file']), 'w', encoding='utf-8') as fh:
            fh.write(new_text)
        from .check import analyse
        rep = analyse(prop, tmp)
        res['findings'] = _finding_keys(rep)
        res['errors'] = list(rep.errors)
    except Exception as e:  # pragma: no cover
        res['status'] = 'error'
        res['detail'] = f'{type(e).__name__}: {e}'
    finally:
        if tmp is not None:
            shutil.rmtree(tmp, ignore_errors=True)
        res['wall_s'] = round(time.time() - t0, 2)
    return res


SEEDED = os.path.join(os.path.dirname(os.path.dirname(os.path.abspath(__file__))), 'seeded')


def seed_variants(prop: str) -> List[dict]:
    """the independently seeded changes kept under /verif/seeded that this property's check reports (per
    seeded/index.json, written by tools/seed_index.py) are replayed as kill variants; plus one behaviour-preserving
    variant in which the locals of every function of the package are renamed"""
    import json
    out = [{'name': 'rename-all-locals', 'kind': 'preserve', 'rename_all': True, 'file': '(whole package)', 'old': '',
            'new': '', 'why': 'locals of every function renamed', 'props': [prop]}]
    idx_path = os.path.join(SEEDED, 'index.json')
    if not os.path.exists(idx_path):
        return out
    index = json.load(open(idx_path))
    for sid, ent in sorted(index.items()):
        if prop in ent.get('violations', []):
            why = ''
            try:
                why = json.load(open(os.path.join(SEEDED, sid, 'meta.json'))).get('summary', '')
            except Exception:
                pass
            out.append({'name': f'seed:{sid}', 'kind': 'kill', 'patch': os.path.join(SEEDED, sid, 'patch.diff'),
                        'file': f'seeded/{sid}/patch.diff', 'old': '', 'new': '', 'expect': '', 'props': [prop],
                        'why': (why or 'independently seeded change')[:160]})
    return out


REFACTORS = os.path.join(os.path.dirname(os.path.dirname(os.path.abspath(__file__))), 'refactors')


def _load_limits():
    import json
    try:
        return json.load(open(os.path.join(REFACTORS, 'limits.json')))
    except Exception:
        return {}


_LIMITS = _load_limits()


def refactor_variants(prop: str) -> List[dict]:
    """the behaviour-preserving refactorings kept under /verif/refactors (written by independent sub-agents, confirmed
    and re-verified by tools/store_refactors.py and refactors/equiv_probe.py) are replayed against every property: the
    verdict must not change"""
    import glob
    import json
    out = []
    for d in sorted(glob.glob(os.path.join(REFACTORS, 'C[0-9][0-9]-[0-9]*'))):
        patch = os.path.join(d, 'patch.diff')
        if not os.path.exists(patch):
            continue
        rid = os.path.basename(d)
        why = ''
        try:
            why = json.load(open(os.path.join(d, 'meta.json'))).get('summary', '')
        except Exception:
            pass
        out.append({'name': f'refactor:{rid}', 'kind': 'preserve', 'patch': patch, 'file': f'refactors/{rid}/patch.diff',
                    'old': '', 'new': '', 'props': [prop], 'why': (why or 'behaviour-preserving refactoring')[:140]})
    return out


def run(prop: str, rep, root: Optional[str] = None, jobs: int = 16):
    from .variants import VARIANTS
    root = root or repo_root()
    mine = [v for v in VARIANTS if prop in v['props']]
    mine = mine + seed_variants(prop) + refactor_variants(prop)
    if not mine:
        rep.note(f'self-test: no variants registered for {prop}')
        return
    from .check import analyse
    base = _finding_keys(analyse(prop, root))
    results = []
    with ProcessPoolExecutor(max_workers=min(jobs, len(mine))) as ex:
        for r in ex.map(_run_variant, [(prop, v, root) for v in mine]):
            results.append(r)
    import warnings
    warnings.simplefilter('ignore')
    killed = survived = silent = alarmed = na = 0
    limited = 0
    samples = []
    by_name = {v['name']: v for v in mine}
    for r in results:
        v = by_name[r['name']]
        if r['status'] in ('not-applicable', 'broken-variant', 'error'):
            na += 1
            samples.append({'variant': r['name'], 'kind': r['kind'], 'outcome': r['status'], 'detail': r['detail']})
            if r['status'] != 'not-applicable':
                rep.error(f'self-test variant {r["name"]}: {r["status"]}: {r["detail"]}')
            else:
                rep.note(f'self-test variant {r["name"]} not applicable: {r["detail"]}')
                print(f'  (not applicable: {r["name"]}: {r["detail"]})')
            continue
        new = {k: t for k, t in r['findings'].items() if k not in base}
        gone = {k for k in base if k not in r['findings']}
        if r['kind'] == 'kill':
            exp = v.get('expect', '')
            hit = [t for t in new.values() if exp in t]
            if hit:
                killed += 1
                outcome = 'killed'
                rep.ob('SELFTEST-kill', f'{r["name"]}: {v["why"]}', v['file'], True,
                       f'reported: {hit[0][:160]}', True, 'selftest')
            else:
                survived += 1
                outcome = 'SURVIVED'
                rep.error(f'self-test: kill variant {r["name"]} ({v["why"]}) was not reported'
                          f' (new findings: {list(new.values())[:2]}, errors: {r.get("errors", [])[:1]})')
            samples.append({'variant': r['name'], 'kind': 'kill', 'edit': {'file': v['file'], 'old': v['old'][:120],
                                                                          'new': v['new'][:120]},
                            'outcome': outcome, 'reported': hit[:1]})
        else:
            limit = _LIMITS.get(r['name'].split(':', 1)[-1], {}).get(prop) if r['name'].startswith('refactor:') else None
            if not new and not gone and not r.get('errors'):
                silent += 1
                outcome = 'silent'
                rep.ob('SELFTEST-preserve', f'{r["name"]}: {v["why"]}', v['file'], True,
                       'findings unchanged by a behaviour-preserving edit', True, 'selftest')
                if limit:
                    rep.note(f'self-test: {r["name"]} is listed in refactors/limits.json for {prop} but is read correctly now')
            elif limit:
                # a documented limit of the analysis (refactors/limits.json): recorded, not a failure of the self-test
                limited += 1
                outcome = 'documented-limit'
                rep.note(f'self-test: {r["name"]} is not read by the {prop} rules (documented limit: {limit})')
            else:
                alarmed += 1
                outcome = 'FALSE-ALARM'
                rep.error(f'self-test: behaviour-preserving variant {r["name"]} ({v["why"]}) changed the verdict: '
                          f'new {list(new.values())[:2]} gone {list(gone)[:2]} errors {r.get("errors", [])[:2]}')
            samples.append({'variant': r['name'], 'kind': 'preserve', 'edit': {'file': v['file'], 'old': v['old'][:120],
                                                                              'new': v['new'][:120]},
                            'outcome': outcome})
    rep.coverage_extra['selftest'] = {
        'variants': len(mine), 'kill_variants_killed': killed, 'kill_variants_survived': survived,
        'preserving_variants_silent': silent, 'preserving_variants_alarmed': alarmed, 'not_applicable': na,
        'preserving_variants_documented_limit': limited,
        'samples': samples,
    }
    print(f'{prop} self-test: {len(mine)} variants: {killed} killed, {survived} survived, {silent} silent on '
          f'preserving edits, {limited} documented limits, {alarmed} false alarms, {na} not applicable')


def main(argv=None):
    """python -m sa.selftest [Cnn ...]: run the self-test of the given (default: all) properties, print a table"""
    from .variants import VARIANTS
    from .report import Report
    props = (argv or sys.argv[1:]) or sorted({p for v in VARIANTS for p in v['props']})
    bad = 0
    for p in props:
        rep = Report(p, 'thorough', 0, dry=True)
        run(p, rep)
        for e in rep.errors:
            print('  ', e)
            bad += 1
    sys.exit(2 if bad else 0)


if __name__ == '__main__':
    main()
