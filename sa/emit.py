"""
emit: the *emission program* of a text-building function.

The serializer parts build their result by appending to a local list and joining it.  How that is written varies (a
loop with append, extend with a generator, a helper that returns the markers of one boundary, guard clauses with
continue, local aliases such as `intervals = annotation.intervals or []`, a conditional expression instead of two
appends); *what* is written, in which order and under which conditions does not.  This module reads the function -
nothing is run - into a small tree

    Seq  = [Node]
    Node = Emit(expr) | Loop(iter, var roles, body) | Guard(test, body, orelse)

with helpers inlined (parameters substituted), local aliases substituted flow-sensitively, early `continue`/`return`
turned into a guard around the rest of the block, conditional expressions turned into guards, and loop variables spelled
by role (interval / i / aa / mod / each<k>).  Rules then ask the tree, not the source text:

    flat(seq)        every emission with the loops and guards it sits under
    trace(seq, ...)  the text written for given representatives (decided guards only; an undecided guard is an error the
                     rule has to deal with, never silently one of the two branches)
"""
import ast
import copy
from dataclasses import dataclass, field
from typing import Dict, List, Optional, Tuple

from .guards import GuardEval, UNK, text
from .loader import AnalysisError


@dataclass
class Emit:
    expr: ast.AST
    fn: object = None
    node: ast.AST = None


@dataclass
class Loop:
    iter: ast.AST
    roles: Tuple[str, ...]
    body: list
    uid: int = 0
    fn: object = None
    node: ast.AST = None
    defaulted: bool = False    # the source iterates `x or []`: an absent container is an empty one here

    @property
    def over(self) -> str:
        return text(self.iter)


@dataclass
class Guard:
    test: ast.AST
    body: list
    orelse: list = field(default_factory=list)
    fn: object = None
    node: ast.AST = None


class _Subst(ast.NodeTransformer):
    def __init__(self, env):
        self.env = env

    def visit_Name(self, n):
        if isinstance(n.ctx, ast.Load) and n.id in self.env and self.env[n.id] is not None:
            return copy.deepcopy(self.env[n.id])
        return n

    def visit_ListComp(self, n):   # bound variables of a comprehension shadow the environment
        return self._comp(n)

    def visit_GeneratorExp(self, n):
        return self._comp(n)

    def _comp(self, n):
        shadow = {x.id for g in n.generators for x in ast.walk(g.target) if isinstance(x, ast.Name)}
        inner = _Subst({k: v for k, v in self.env.items() if k not in shadow})
        n = copy.copy(n)
        n.generators = [ast.comprehension(target=g.target, iter=inner.visit(copy.deepcopy(g.iter)),
                                          ifs=[inner.visit(copy.deepcopy(i)) for i in g.ifs], is_async=0)
                        for g in n.generators]
        n.elt = inner.visit(copy.deepcopy(n.elt))
        return n


def _strip_default(e: ast.AST) -> ast.AST:
    """`x or []` / `x or {}` / `x or ()` / `x if x else []` -> x  (an absent container and an empty one write the same)"""
    if isinstance(e, ast.BoolOp) and isinstance(e.op, ast.Or) and len(e.values) == 2 and _is_empty(e.values[1]):
        return e.values[0]
    if isinstance(e, ast.IfExp) and _is_empty(e.orelse) and text(e.test) == text(e.body):
        return e.body
    return e


class _DeepStrip(ast.NodeTransformer):
    changed = False

    def generic_visit(self, node):
        node = super().generic_visit(node)
        x = _strip_default(node)
        if x is not node:
            self.changed = True
        return x


def strip_defaults(e: ast.AST):
    """(expression with every `x or <empty>` inside it replaced by x, whether anything was replaced)"""
    d = _DeepStrip()
    out = d.visit(copy.deepcopy(e))
    return out, d.changed


def _is_empty(e) -> bool:
    return (isinstance(e, (ast.List, ast.Tuple)) and not e.elts) or (isinstance(e, ast.Dict) and not e.keys) or \
        (isinstance(e, ast.Call) and isinstance(e.func, ast.Name) and e.func.id in ('list', 'dict', 'tuple') and
         not e.args and not e.keywords)


def _ends_block(stmts) -> Optional[str]:
    if stmts and isinstance(stmts[-1], ast.Continue):
        return 'continue'
    if stmts and isinstance(stmts[-1], ast.Return):
        return 'return'
    return None


def simplify_test(t: ast.AST) -> ast.AST:
    """fold what substitution of constant arguments leaves behind: `x == True`, `(a == b) == False`, `not True`,
    and / or with constant operands"""
    if isinstance(t, ast.Compare) and len(t.ops) == 1 and isinstance(t.ops[0], (ast.Eq, ast.Is, ast.NotEq, ast.IsNot)):
        l, r = simplify_test(t.left), simplify_test(t.comparators[0])
        neg = isinstance(t.ops[0], (ast.NotEq, ast.IsNot))
        for a, b in ((l, r), (r, l)):
            if isinstance(b, ast.Constant) and isinstance(b.value, bool) and \
                    (isinstance(a, (ast.Compare, ast.BoolOp)) or (isinstance(a, ast.UnaryOp) and isinstance(a.op, ast.Not))
                     or (isinstance(a, ast.Constant) and isinstance(a.value, bool))):
                if isinstance(a, ast.Constant):
                    return ast.Constant(value=(a.value == b.value) != neg)
                return a if (b.value != neg) else simplify_test(negate(a))
        return t
    if isinstance(t, ast.UnaryOp) and isinstance(t.op, ast.Not):
        o = simplify_test(t.operand)
        if isinstance(o, ast.Constant):
            return ast.Constant(value=not o.value)
        return ast.UnaryOp(op=ast.Not(), operand=o)
    if isinstance(t, ast.BoolOp):
        vals = [simplify_test(v) for v in t.values]
        is_and = isinstance(t.op, ast.And)
        keep = []
        for v in vals:
            if isinstance(v, ast.Constant) and isinstance(v.value, bool):
                if v.value != is_and:
                    return ast.Constant(value=not is_and)
                continue
            keep.append(v)
        if not keep:
            return ast.Constant(value=is_and)
        return keep[0] if len(keep) == 1 else ast.BoolOp(op=t.op, values=keep)
    return t


def negate(t: ast.AST) -> ast.AST:
    if isinstance(t, ast.UnaryOp) and isinstance(t.op, ast.Not):
        return t.operand
    if isinstance(t, ast.Compare) and len(t.ops) == 1:
        flip = {ast.Eq: ast.NotEq, ast.NotEq: ast.Eq, ast.Lt: ast.GtE, ast.GtE: ast.Lt, ast.Gt: ast.LtE, ast.LtE: ast.Gt,
                ast.Is: ast.IsNot, ast.IsNot: ast.Is, ast.In: ast.NotIn, ast.NotIn: ast.In}
        return ast.Compare(left=t.left, ops=[flip[type(t.ops[0])]()], comparators=t.comparators)
    return ast.UnaryOp(op=ast.Not(), operand=t)


class _NotText(Exception):
    pass


class Builder:
    """reads one function (and the helpers it appends the result of) into an emission tree"""

    def __init__(self, program, module_name: str, role_of=None, max_depth: int = 4):
        self.program = program
        self.module_name = module_name
        self.role_of = role_of or (lambda iter_text, k: None)
        self.max_depth = max_depth
        self.uid = 0
        self.each = 0
        self.inlined: List[str] = []
        self._textvars: Dict[str, list] = {}

    # -- helpers ---------------------------------------------------------------------------------------------------
    def _helper(self, call: ast.Call):
        if isinstance(call.func, ast.Name):
            try:
                return self.program.func(f'{self.module_name}:{call.func.id}')
            except Exception:
                return None
        return None

    def _buffers(self, fnode) -> set:
        out = set()
        for n in ast.walk(fnode):
            if isinstance(n, ast.Assign) and len(n.targets) == 1 and isinstance(n.targets[0], ast.Name) and \
                    ((_is_empty(n.value) and not isinstance(n.value, ast.Dict)) or isinstance(n.value, ast.List)):
                out.add(n.targets[0].id)
        return out

    def _result_buffer(self, fnode, buffers) -> Tuple[Optional[str], str]:
        """(buffer, 'joined' | 'list') for the value the function returns"""
        found = None
        for n in ast.walk(fnode):
            if isinstance(n, ast.Return) and n.value is not None:
                v = n.value
                if isinstance(v, ast.Call) and isinstance(v.func, ast.Attribute) and v.func.attr == 'join' and \
                        len(v.args) == 1 and isinstance(v.args[0], ast.Name) and v.args[0].id in buffers:
                    cand = (v.args[0].id, 'joined')
                elif isinstance(v, ast.Name) and v.id in buffers:
                    cand = (v.id, 'list')
                elif _is_empty(v) or (isinstance(v, ast.Constant) and v.value == ''):
                    continue   # an early `return []` / `return ''`: nothing written
                else:
                    return None, ''
                if found is not None and found != cand:
                    return None, ''
                found = cand
        return found if found else (None, '')

    # -- building --------------------------------------------------------------------------------------------------
    def function(self, f, arg_env: Optional[Dict[str, ast.AST]] = None, depth: int = 0):
        """emission tree of what f returns; None when f is not a text builder of the understood kind"""
        buffers = self._buffers(f.node)
        buf, kind = self._result_buffer(f.node, buffers)
        env = dict(arg_env or {})
        if buf is None:
            # no single result buffer: the function returns a text *expression* (concatenation, join over a
            # comprehension, conditional expressions, pieces computed into locals first)
            saved = self._textvars
            self._textvars = {}
            try:
                seq = self._ret_block(f, list(f.node.body), env, buffers, depth)
            except _NotText:
                return None, ''
            finally:
                self._textvars = saved
            return fold(seq), 'joined'
        seq = fold(self._block(f, f.node.body, buf, buffers, env, depth))
        return seq, kind

    def _ret_block(self, f, stmts, env, buffers, depth) -> list:
        out: list = []
        for k, st in enumerate(stmts):
            if isinstance(st, ast.Return):
                if st.value is None:
                    raise _NotText()
                return out + self._text_expr(f, st.value, st, env, buffers, depth)
            if isinstance(st, ast.Assign) and len(st.targets) == 1 and isinstance(st.targets[0], ast.Name):
                if st.targets[0].id not in buffers:
                    env[st.targets[0].id] = self._sub(st.value, env)
                continue
            if isinstance(st, ast.If):
                test = simplify_test(self._sub(st.test, env))
                body_returns = any(isinstance(x, ast.Return) for s_ in st.body for x in ast.walk(s_))
                else_returns = any(isinstance(x, ast.Return) for s_ in st.orelse for x in ast.walk(s_))
                if not body_returns and not else_returns:
                    # a piece of text chosen by an if statement: `if c: piece = A` / `else: piece = B`
                    def single(block):
                        d = {}
                        for s_ in block:
                            if isinstance(s_, ast.Assign) and len(s_.targets) == 1 and isinstance(s_.targets[0], ast.Name):
                                d[s_.targets[0].id] = s_.value
                            elif not isinstance(s_, (ast.Pass, ast.Expr)):
                                return None
                        return d
                    a_, b_ = single(st.body), single(st.orelse)
                    if a_ is not None and b_ is not None:
                        for nm in set(a_) | set(b_):
                            if nm in buffers:
                                continue
                            va = self._text_expr(f, a_[nm], st, dict(env), buffers, depth) if nm in a_ else \
                                self._text_expr(f, ast.Name(id=nm, ctx=ast.Load()), st, dict(env), buffers, depth)
                            vb = self._text_expr(f, b_[nm], st, dict(env), buffers, depth) if nm in b_ else \
                                self._text_expr(f, ast.Name(id=nm, ctx=ast.Load()), st, dict(env), buffers, depth)
                            self._textvars[nm] = [Guard(test, va, vb, f, st)]
                            env.pop(nm, None)
                if body_returns or else_returns:
                    rest = list(stmts[k + 1:])
                    b = self._ret_block(f, list(st.body) + ([] if _ends_block(st.body) else rest), dict(env), buffers, depth)
                    o = self._ret_block(f, list(st.orelse) + ([] if _ends_block(st.orelse) else rest), dict(env), buffers,
                                        depth)
                    return out + [Guard(test, b, o, f, st)]
                continue
            if isinstance(st, (ast.Expr, ast.For, ast.Pass, ast.FunctionDef)):
                continue       # effects on local buffers are read when the buffer is joined
            raise _NotText()
        raise _NotText()

    def _text_expr(self, f, e, node, env, buffers, depth) -> list:
        """emission nodes of an expression whose value is a piece of text"""
        if isinstance(e, ast.Name) and e.id in self._textvars and e.id not in env:
            return copy.deepcopy(self._textvars[e.id])
        e = self._sub(e, env)
        if isinstance(e, ast.Constant) and isinstance(e.value, str):
            return [Emit(e, f, node)] if e.value != '' else []
        if isinstance(e, ast.BinOp) and isinstance(e.op, ast.Add):
            return self._text_expr(f, e.left, node, {}, buffers, depth) + self._text_expr(f, e.right, node, {}, buffers, depth)
        if isinstance(e, ast.IfExp):
            return [Guard(simplify_test(e.test), self._text_expr(f, e.body, node, {}, buffers, depth),
                          self._text_expr(f, e.orelse, node, {}, buffers, depth), f, node)]
        if isinstance(e, ast.Call) and isinstance(e.func, ast.Attribute) and e.func.attr == 'join' and \
                isinstance(e.func.value, ast.Constant) and e.func.value.value == '' and len(e.args) == 1:
            a = e.args[0]
            if isinstance(a, ast.Name) and a.id in buffers:
                return self._block(f, f.node.body, a.id, buffers, {}, depth)
            return self._elements(f, a, node, buffers, depth)
        if isinstance(e, ast.Call):
            h = self._helper(e)
            if h is not None and depth < self.max_depth:
                seq, kind = self._inline(h, e, depth)
                if seq is not None and kind == 'joined':
                    return seq
        return [Emit(e, f, node)]

    def _elements(self, f, e, node, buffers, depth) -> list:
        """emission nodes of joining every element of `e`"""
        if isinstance(e, (ast.List, ast.Tuple)):
            out = []
            for x in e.elts:
                out += self._text_expr(f, x, node, {}, buffers, depth)
            return out
        if isinstance(e, (ast.ListComp, ast.GeneratorExp)):
            def gen(k, env2):
                if k == len(e.generators):
                    return self._text_expr(f, e.elt, node, env2, buffers, depth)
                g = e.generators[k]
                it, dflt = strip_defaults(self._sub(g.iter, env2))
                if isinstance(it, (ast.Tuple, ast.List)) and it.elts and not g.ifs:
                    # a literal table: written out row by row
                    out = []
                    names = [x.id for x in g.target.elts] if isinstance(g.target, ast.Tuple) and all(
                        isinstance(x, ast.Name) for x in g.target.elts) else \
                        [g.target.id] if isinstance(g.target, ast.Name) else None
                    ok = names is not None and all(
                        (isinstance(r, (ast.Tuple, ast.List)) and len(r.elts) == len(names)) if isinstance(g.target, ast.Tuple)
                        else True for r in it.elts)
                    if ok:
                        for r in it.elts:
                            env3 = dict(env2)
                            if isinstance(g.target, ast.Tuple):
                                env3.update(dict(zip(names, r.elts)))
                            else:
                                env3[names[0]] = r
                            out += gen(k + 1, env3)
                        return out
                roles = self._role_names(g.target, text(it))
                env3 = dict(env2)
                for nm, r in roles.items():
                    env3[nm] = ast.Name(id=r, ctx=ast.Load())
                body = gen(k + 1, env3)
                for t in reversed(g.ifs):
                    body = [Guard(self._sub(t, env3), body, [], f, node)]
                self.uid += 1
                return [Loop(it, tuple(roles.values()), body, self.uid, f, node, dflt)]
            return gen(0, {})
        if isinstance(e, ast.IfExp):
            return [Guard(simplify_test(e.test), self._elements(f, e.body, node, buffers, depth),
                          self._elements(f, e.orelse, node, buffers, depth), f, node)]
        self.uid += 1
        self.each += 1
        r = f'each{self.each}'
        return [Loop(e, (r,), [Emit(ast.Name(id=r, ctx=ast.Load()), f, node)], self.uid, f, node)]

    def _sub(self, e, env):
        return _Subst(env).visit(copy.deepcopy(e))

    def _role_names(self, target, iter_text) -> Dict[str, str]:
        names = [x.id for x in ast.walk(target) if isinstance(x, ast.Name)]
        out = {}
        for k, nm in enumerate(names):
            r = self.role_of(iter_text, k if isinstance(target, ast.Tuple) else None)
            if r is None:
                self.each += 1
                r = f'each{self.each}'
            out[nm] = r
        return out

    def _emit_expr(self, f, e, node, env, buffers, buf, depth, whole_fn_body=None) -> list:
        """nodes for appending the single piece `e`"""
        e = self._sub(e, env)
        if isinstance(e, ast.IfExp):
            return [Guard(e.test, self._emit_expr(f, e.body, node, {}, buffers, buf, depth),
                          self._emit_expr(f, e.orelse, node, {}, buffers, buf, depth), f, node)]
        if isinstance(e, ast.Call):
            h = self._helper(e)
            if h is not None and depth < self.max_depth:
                seq, kind = self._inline(h, e, depth)
                if seq is not None and kind == 'joined':
                    return seq
        if (isinstance(e, ast.BinOp) and isinstance(e.op, ast.Add)) or (
                isinstance(e, ast.Call) and isinstance(e.func, ast.Attribute) and e.func.attr == 'join' and
                isinstance(e.func.value, ast.Constant) and e.func.value.value == ''):
            return self._text_expr(f, e, node, {}, buffers, depth)
        return [Emit(e, f, node)]

    def _inline(self, h, call: ast.Call, depth):
        from .canon import params_of
        ps = params_of(h.node)
        bind = {}
        for p, a in zip(ps, call.args):
            bind[p] = a
        for kw in call.keywords:
            if kw.arg:
                bind[kw.arg] = kw.value
        # defaults
        a = h.node.args
        pos = a.posonlyargs + a.args
        for p, d in zip(pos[len(pos) - len(a.defaults):], a.defaults):
            bind.setdefault(p.arg, d)
        seq, kind = self.function(h, bind, depth + 1)
        if seq is not None:
            self.inlined.append(h.fq)
        return seq, kind

    def _extend_expr(self, f, e, node, env, buffers, buf, depth, prefix_stmts) -> list:
        """nodes for appending every element of `e`"""
        e = self._sub(e, env)
        if isinstance(e, (ast.List, ast.Tuple)):
            out = []
            for x in e.elts:
                out += self._emit_expr(f, x, node, {}, buffers, buf, depth)
            return out
        if isinstance(e, (ast.ListComp, ast.GeneratorExp)):
            def gen(k, env2):
                if k == len(e.generators):
                    return self._emit_expr(f, e.elt, node, env2, buffers, buf, depth)
                g = e.generators[k]
                it, dflt = strip_defaults(self._sub(g.iter, env2))
                roles = self._role_names(g.target, text(it))
                env3 = dict(env2)
                for nm, r in roles.items():
                    env3[nm] = ast.Name(id=r, ctx=ast.Load())
                body = gen(k + 1, env3)
                for t in reversed(g.ifs):
                    body = [Guard(self._sub(t, env3), body, [], f, node)]
                self.uid += 1
                return [Loop(it, tuple(roles.values()), body, self.uid, f, node, dflt)]
            return gen(0, {})
        if isinstance(e, ast.IfExp):
            return [Guard(e.test, self._extend_expr(f, e.body, node, {}, buffers, buf, depth, prefix_stmts),
                          self._extend_expr(f, e.orelse, node, {}, buffers, buf, depth, prefix_stmts), f, node)]
        if isinstance(e, ast.Name) and e.id in buffers and e.id != buf:
            # another local list spliced in: everything written to it so far
            return self._block(f, prefix_stmts, e.id, buffers, dict(env), depth)
        if isinstance(e, ast.Call):
            h = self._helper(e)
            if h is not None and depth < self.max_depth:
                seq, kind = self._inline(h, e, depth)
                if seq is not None and kind == 'list':
                    return seq
        self.uid += 1
        self.each += 1
        r = f'each{self.each}'
        return [Loop(e, (r,), [Emit(ast.Name(id=r, ctx=ast.Load()), f, node)], self.uid, f, node)]

    def _block(self, f, stmts, buf, buffers, env, depth, before=()) -> list:
        """`before`: the statements of the enclosing blocks that run before this block (needed when another buffer is
        spliced in: everything written to it so far, not only in the innermost block)"""
        out: list = []
        stmts = list(stmts)
        before = list(before)
        for k, st in enumerate(stmts):
            if isinstance(st, ast.Expr) and isinstance(st.value, ast.Call) and isinstance(st.value.func, ast.Attribute) \
                    and isinstance(st.value.func.value, ast.Name) and st.value.func.value.id == buf:
                c = st.value
                if c.func.attr == 'append' and len(c.args) == 1:
                    out += self._emit_expr(f, c.args[0], st, env, buffers, buf, depth)
                elif c.func.attr == 'extend' and len(c.args) == 1:
                    out += self._extend_expr(f, c.args[0], st, env, buffers, buf, depth, before + stmts[:k])
                else:
                    raise AnalysisError(f'{f.fq}: `{text(st)}` changes the text buffer in a way the emission model '
                                        f'does not read')
            elif isinstance(st, ast.AugAssign) and isinstance(st.target, ast.Name) and st.target.id == buf and \
                    isinstance(st.op, ast.Add):
                out += self._extend_expr(f, st.value, st, env, buffers, buf, depth, before + stmts[:k])
            elif isinstance(st, ast.Assign) and len(st.targets) == 1 and isinstance(st.targets[0], ast.Name):
                nm = st.targets[0].id
                if nm in buffers:
                    if nm == buf and isinstance(st.value, ast.List):   # a buffer that starts with some pieces
                        for x in st.value.elts:
                            out += self._emit_expr(f, x, st, env, buffers, buf, depth)
                    elif nm == buf and isinstance(st.value, ast.Name) and st.value.id in buffers and st.value.id != buf:
                        # the buffer *is* another local list from here on: what was written to that one so far
                        out = self._block(f, before + stmts[:k], st.value.id, buffers, dict(env), depth)
                    continue
                env[nm] = self._sub(st.value, env)
            elif isinstance(st, ast.Assign) and len(st.targets) == 1 and isinstance(st.targets[0], ast.Tuple) and \
                    isinstance(st.value, ast.Tuple) and len(st.value.elts) == len(st.targets[0].elts):
                vals = [self._sub(v, env) for v in st.value.elts]
                for t, v in zip(st.targets[0].elts, vals):
                    if isinstance(t, ast.Name):
                        env[t.id] = v
            elif isinstance(st, ast.For):
                it, dflt = strip_defaults(self._sub(st.iter, env))
                roles = self._role_names(st.target, text(it))
                env2 = dict(env)
                for nm, r in roles.items():
                    env2[nm] = ast.Name(id=r, ctx=ast.Load())
                body = self._block(f, st.body, buf, buffers, env2, depth, before + stmts[:k])
                if body:
                    self.uid += 1
                    out.append(Loop(it, tuple(roles.values()), body, self.uid, f, st, dflt))
            elif isinstance(st, ast.If):
                test = simplify_test(self._sub(st.test, env))
                ends = _ends_block(st.body)
                body = self._block(f, st.body, buf, buffers, dict(env), depth, before + stmts[:k])
                if ends:
                    rest = self._block(f, list(st.orelse) + stmts[k + 1:], buf, buffers, env, depth, before + stmts[:k])
                    if body:
                        out.append(Guard(test, body, rest, f, st))
                    elif rest:
                        out.append(Guard(negate(test), rest, [], f, st))
                    return out
                orelse = self._block(f, st.orelse, buf, buffers, dict(env), depth, before + stmts[:k])
                if body or orelse:
                    out.append(Guard(test, body, orelse, f, st))
                # a local bound inside a branch is not known afterwards
                for x in ast.walk(st):
                    if isinstance(x, ast.Name) and isinstance(x.ctx, ast.Store) and x.id in env:
                        env[x.id] = None
            elif isinstance(st, ast.Pass):
                continue
            elif isinstance(st, (ast.Return, ast.Continue, ast.Break)):
                if isinstance(st, ast.Break):
                    raise AnalysisError(f'{f.fq}: break in a text-building loop is not read by the emission model')
                break
            elif isinstance(st, ast.Expr):
                continue
            elif isinstance(st, (ast.With, ast.Try, ast.While)):
                if any(isinstance(x, ast.Name) and x.id == buf for x in ast.walk(st)):
                    raise AnalysisError(f'{f.fq}: the text buffer is used inside `{type(st).__name__}`, which the '
                                        f'emission model does not read')
            else:
                if any(isinstance(x, ast.Name) and x.id == buf for x in ast.walk(st)):
                    raise AnalysisError(f'{f.fq}: `{text(st)[:60]}` uses the text buffer in a way the emission model '
                                        f'does not read')
        return out


def fold(seq) -> list:
    """drop guards whose test is a constant, merge a guard nested alone in a guard"""
    out = []
    for n in seq:
        if isinstance(n, Emit):
            out.append(n)
        elif isinstance(n, Loop):
            b = fold(n.body)
            if b:
                out.append(Loop(n.iter, n.roles, b, n.uid, n.fn, n.node, n.defaulted))
        else:
            t = simplify_test(n.test)
            body, orelse = fold(n.body), fold(n.orelse)
            if isinstance(t, ast.Constant) and not isinstance(t.value, str):
                out += body if t.value else orelse
            elif body or orelse:
                out.append(Guard(t, body, orelse, n.fn, n.node))
    return out


# ---------------------------------------------------------------------------------------------------------------------
@dataclass
class Flat:
    emit: Emit
    loops: Tuple[Loop, ...]
    guards: Tuple[Tuple[str, bool], ...]      # (test text, polarity)
    order: int

    @property
    def text(self) -> str:
        return text(self.emit.expr)

    @property
    def literal(self) -> Optional[str]:
        e = self.emit.expr
        return e.value if isinstance(e, ast.Constant) and isinstance(e.value, str) else None

    def under(self, fragment: str, polarity: bool = True) -> bool:
        return any(fragment in t and p == polarity for t, p in self.guards)

    def loop_over(self, pred) -> Optional[Loop]:
        for lp in self.loops:
            if pred(lp.over):
                return lp
        return None


def _conjuncts(t: ast.AST, pol: bool):
    if pol and isinstance(t, ast.BoolOp) and isinstance(t.op, ast.And):
        for v in t.values:
            yield from _conjuncts(v, True)
    elif not pol and isinstance(t, ast.BoolOp) and isinstance(t.op, ast.Or):
        for v in t.values:
            yield from _conjuncts(v, False)
    elif isinstance(t, ast.UnaryOp) and isinstance(t.op, ast.Not):
        yield from _conjuncts(t.operand, not pol)
    elif not pol and isinstance(t, ast.Compare) and len(t.ops) == 1:
        yield text(negate(t)), True
    else:
        yield text(t), pol


def flat(seq) -> List[Flat]:
    out: List[Flat] = []

    def rec(nodes, loops, guards):
        for n in nodes:
            if isinstance(n, Emit):
                out.append(Flat(n, tuple(loops), tuple(guards), len(out)))
            elif isinstance(n, Loop):
                rec(n.body, loops + [n], guards)
            elif isinstance(n, Guard):
                rec(n.body, loops, guards + list(_conjuncts(n.test, True)))
                rec(n.orelse, loops, guards + list(_conjuncts(n.test, False)))
    rec(seq, [], [])
    return out


class Undecided(Exception):
    pass


def trace(seq, env: Dict[str, object], call_hook=None, opaque=lambda e: '{' + text(e) + '}') -> List[str]:
    """the pieces written, in order, for the given representatives: `env` maps expression texts to small concrete
    stand-ins (a str / tuple / dict for a container, a dict of attribute texts for a loop element).  A loop runs over
    the stand-in of its iterable; an element that is a dict extends the environment (`{'interval.start': 1, ...}`),
    anything else is bound to the loop's role names.  A loop over something the environment does not give is written
    once with its element left symbolic.  A guard the environment does not decide raises Undecided - the caller has to
    deal with it; it is never silently one of the two branches."""
    out: List[str] = []

    def rec(nodes, env):
        for n in nodes:
            ge = GuardEval(env, call_hook=call_hook)
            if isinstance(n, Emit):
                e = n.expr
                if isinstance(e, ast.Constant) and isinstance(e.value, str):
                    out.append(e.value)
                else:
                    v = ge.eval(e)
                    if v is UNK and isinstance(e, ast.JoinedStr):
                        parts = []
                        for x in e.values:
                            if isinstance(x, ast.Constant):
                                parts.append(str(x.value))
                            else:
                                pv = ge.eval(x.value)
                                parts.append(str(pv) if pv is not UNK and x.format_spec is None else opaque(x.value))
                        v = ''.join(parts)
                    out.append(v if isinstance(v, str) else (str(v) if isinstance(v, int) and not isinstance(v, bool)
                                                              else opaque(e)))
            elif isinstance(n, Loop):
                items = ge.eval(n.iter)
                if items is None:
                    if not n.defaulted:
                        out.append(f'!iterates {n.over}, which is None!')
                    continue
                if items is UNK or not isinstance(items, (tuple, list, str)):
                    rec(n.body, env)
                    continue
                for el in items:
                    env2 = dict(env)
                    if isinstance(el, dict):
                        env2.update(el)
                    elif len(n.roles) > 1 and isinstance(el, tuple) and len(el) == len(n.roles):
                        for r, x in zip(n.roles, el):
                            env2[r] = x
                    else:
                        env2[n.roles[0]] = el
                    rec(n.body, env2)
            elif isinstance(n, Guard):
                v = ge.eval(n.test)
                if v is UNK:
                    raise Undecided(text(n.test))
                rec(n.body if v else n.orelse, env)
    rec(seq, dict(env))
    return out


def dump(seq, indent=0) -> str:
    lines = []
    for n in seq:
        pad = '  ' * indent
        if isinstance(n, Emit):
            lines.append(f'{pad}emit {text(n.expr)}')
        elif isinstance(n, Loop):
            lines.append(f'{pad}for {",".join(n.roles)} in {n.over}:  #{n.uid}')
            lines.append(dump(n.body, indent + 1))
        else:
            lines.append(f'{pad}if {text(n.test)}:')
            lines.append(dump(n.body, indent + 1))
            if n.orelse:
                lines.append(f'{pad}else:')
                lines.append(dump(n.orelse, indent + 1))
    return '\n'.join(l for l in lines if l)
