"""helpers shared by the property modules: turning rule results into obligations / findings"""
import ast
from typing import Iterable, List, Optional, Set, Dict

from ..loader import norm_stmt, AnalysisError, FuncInfo, walk_own
from ..report import Report


def short(fq: str) -> str:
    return fq.split(':', 1)[1] if ':' in fq else fq


def modof(fq: str) -> str:
    return fq.split(':', 1)[0]


def add_fwd(rep: Report, obs, clause: str, rule: str = 'FWD'):
    for o in obs:
        construct = f'call {short(o.callee)}(...) parameter {o.param}: {o.text}'
        if o.ok:
            rep.ob(rule, f'{o.caller} -> {short(o.callee)} [{o.param}] {o.text}', o.loc, True, o.reason, True, clause)
        else:
            rep.violation(rule, modof(o.caller), short(o.caller), construct, o.reason, o.loc,
                          {'caller': o.caller, 'callee': o.callee, 'parameter': o.param, 'call': o.text}, clause)
    return len(obs)


def add_ret(rep: Report, obs, clause: str, rule: str = 'RET'):
    for o in obs:
        construct = f'{o.param} -> {o.text}'
        if o.ok:
            rep.ob(rule, f'{o.func} [{o.param}] {o.text}', o.loc, True, o.reason, True, clause)
        else:
            rep.violation(rule, modof(o.func), short(o.func), construct, o.reason, o.loc,
                          {'function': o.func, 'parameter': o.param, 'return': o.text}, clause)
    return len(obs)


def add_checks(rep: Report, checks, clause: str, module: str = 'peptacular.constants', qualname: str = '<module>'):
    for rule, construct, ok, reason, loc in checks:
        if ok:
            rep.ob(rule, construct, loc, True, reason, True, clause)
        else:
            rep.violation(rule, module, qualname, construct, reason, loc, {}, clause)
    return len(checks)


def check(rep: Report, rule: str, fq_or_mod: str, construct: str, ok: bool, reason_ok: str, reason_bad: str, loc: str,
          clause: str, details: Optional[dict] = None):
    """single obligation bound to a function"""
    if ok:
        rep.ob(rule, f'{fq_or_mod} :: {construct}', loc, True, reason_ok, True, clause)
    else:
        mod = modof(fq_or_mod)
        q = short(fq_or_mod) if ':' in fq_or_mod else '<module>'
        rep.violation(rule, mod, q, construct, reason_bad, loc, details or {}, clause)
    return ok


def ret_tags(an, fq: str, spec=()) -> Set[str]:
    """union of the field-read tags over every value return/yield of the function"""
    recs = an.ret_records.get((fq, spec))
    if recs is None:
        raise AnalysisError(f'no analysis record for {fq}')
    out = set()
    for node, av, kind in recs:
        out |= {d[1:] for d in av.deps if d.startswith('@')}
    return out


def ret_deps_by_node(an, fq: str, spec=()):
    recs = an.ret_records.get((fq, spec))
    if recs is None:
        raise AnalysisError(f'no analysis record for {fq}')
    seen, out = set(), []
    for node, av, kind in recs:
        if id(node) in seen:
            continue
        seen.add(id(node))
        out.append((node, av, kind))
    return out


def field_coverage(rep: Report, an, fq: str, required: Iterable[str], clause: str, what: str, program=None,
                   spec=()):
    """R-FLD: every required field of the argument object is read on the way to some returned value"""
    tags = ret_tags(an, fq, spec)
    f = an.program.func(fq)
    n = 0
    for fld in required:
        n += 1
        ok = fld in tags
        check(rep, 'FLD', fq, f'{what}: field {fld}', ok,
              f'field {fld} is in the backward slice of a returned value',
              f'field {fld} is never read on a path to a returned value: {what} silently ignores it', f.loc(), clause)
    return n


def calls_in(an, fq: str, spec=()):
    recs = an.calls.get((fq, spec))
    if recs is None:
        raise AnalysisError(f'no call records for {fq}')
    seen, out = set(), []
    for r in recs:
        k = (id(r.node), r.callee.fq if r.callee else r.ext)
        if k in seen:
            continue
        seen.add(k)
        out.append(r)
    return out


def accumulator_discipline(rep: Report, f: FuncInfo, var: str, clause: str, ret_node=None, allow_ops=(ast.Add,)):
    """R-ACC: on the way to `ret_node`, `var` is initialised once to a constant and afterwards only updated with
    `+=`.  Assignments that textually precede the last constant initialisation belong to other (earlier
    returning) paths and are not part of this accumulation."""
    from ..loader import walk_own
    # program order (depth first, as written), not line numbers: statements read through from a helper keep the line
    # numbers of the helper
    pos = {}

    def dfs(node):
        pos[id(node)] = len(pos)
        for ch in ast.iter_child_nodes(node):
            dfs(ch)
    dfs(f.node)
    end = pos.get(id(ret_node), 10 ** 9) if ret_node is not None else 10 ** 9
    inits, others, augs = [], [], []
    for n in walk_own(f.node):
        if pos.get(id(n), 0) > end:
            continue
        if isinstance(n, ast.Assign):
            for t in n.targets:
                if isinstance(t, ast.Name) and t.id == var:
                    if isinstance(n.value, ast.Constant) and isinstance(n.value.value, (int, float)) and \
                            n in f.node.body:
                        inits.append(n)
                    else:
                        others.append(n)
        elif isinstance(n, ast.AugAssign) and isinstance(n.target, ast.Name) and n.target.id == var:
            augs.append(n)
    init = max(inits, key=lambda n: pos[id(n)]) if inits else None
    if init is None:
        # not a violation: the accumulation is written in a form this rule does not read
        raise AnalysisError(f'{f.fq}: no top-level constant initialisation of the accumulator `{var}` was recognised')
    check(rep, 'ACC', f.fq, f'accumulator {var} initialised to a constant before the accumulation', True,
          f'`{norm_stmt(init)}`', '', f.loc(init), clause)
    start = pos[id(init)]
    good = []
    first_add = min([pos[id(n)] for n in augs if pos.get(id(n), 0) > start], default=10 ** 9)
    for n in others + augs:
        if pos.get(id(n), 0) <= start:
            continue
        if isinstance(n, ast.AugAssign) and isinstance(n.op, allow_ops):
            good.append(n)
            rep.ob('ACC', f'{f.fq} :: {norm_stmt(n)}', f.loc(n), True, 'additive update of the accumulator', True,
                   clause)
        elif isinstance(n, ast.Assign) and (
                any(isinstance(y, ast.Name) and y.id == var for y in ast.walk(n.value)) or pos[id(n)] < first_add):
            # `m = f(m, ..)` / `m = reduce(.., m)` may well add to m, and a re-binding before anything was added loses
            # nothing: neither is a witness of a lost contribution -- the form is not read by this rule
            raise AnalysisError(f'{f.fq}: `{norm_stmt(n)[:70]}` re-binds the accumulator `{var}` in a form the '
                                f'accumulation rule does not read')
        else:
            check(rep, 'ACC', f.fq, f'accumulator {var}: {norm_stmt(n)}', False, '',
                  f'`{norm_stmt(n)}` overwrites or subtracts from the accumulator instead of adding to it: '
                  f'contributions accumulated before it are lost', f.loc(n), clause)
    return good


class _Alpha(ast.NodeTransformer):
    def __init__(self, mapping):
        self.mapping = mapping

    def visit_Name(self, node):
        if node.id in self.mapping:
            return ast.copy_location(ast.Name(id=self.mapping[node.id], ctx=node.ctx), node)
        return node

    def visit_arg(self, node):
        if node.arg in self.mapping:
            node = ast.copy_location(ast.arg(arg=self.mapping[node.arg], annotation=None), node)
        return node


def alpha_body(f: FuncInfo, extra_subst=None) -> List[str]:
    """statements of the function body with locals renamed by order of first binding (v0, v1, ...), so that
    renaming a local variable does not change the text; docstring dropped"""
    import copy as _copy
    order = []
    for n in ast.walk(f.node):
        if isinstance(n, ast.Name) and isinstance(n.ctx, ast.Store) and n.id not in order:
            order.append((getattr(n, 'order', 0), 0, n.id))
    names = []
    for _, _, nm in sorted(order):
        if nm not in names:
            names.append(nm)
    params = [p.name for p in f.params]
    mapping = {nm: f'v{i}' for i, nm in enumerate(n for n in names if n not in params)}
    out = []
    for st in f.node.body:
        if isinstance(st, ast.Expr) and isinstance(st.value, ast.Constant):
            continue
        st2 = _Alpha(mapping).visit(_copy.deepcopy(st))
        txt = ' '.join(ast.unparse(st2).split())
        for a, b in (extra_subst or []):
            txt = txt.replace(a, b)
        out.append(txt)
    return out


def memo_rule(ctx, rep: Report, clause: str, modules):
    """R-MEMO over the functions of the given modules"""
    from ..rules_memo import check_memos
    funcs = [f for f in ctx.program.all_functions() if f.module.name in modules]
    res = check_memos(ctx, funcs)
    for ok, fq, construct, reason, loc in res:
        check(rep, 'MEMO', fq, construct, ok, reason, reason, loc, clause)
    if not res:
        rep.ob('MEMO', f'no memoised computation in {", ".join(sorted(m.split(".")[-1] for m in modules))}', '', True,
               'nothing cached across evaluations: every result is recomputed from its inputs', False, clause)
    return len(res)


def repeat_alias_rule(ctx, rep: Report, clause: str, modules):
    """no comprehension stores one mutable object under several keys/positions (the entries would alias each
    other: an in-place edit of one residue's modification list edits all of them)"""
    an, program = ctx.analyzer, ctx.program
    n = 0
    seen = set()
    for (fq, spec), evs in an.events.items():
        f = program.find_func(fq)
        if f is None or f.module.name not in modules:
            continue
        for ev in evs:
            if ev[0] == 'repeat_alias':
                _k, text, node, tys = ev
                key = (fq, text)
                if key in seen:
                    continue
                seen.add(key)
                n += 1
                check(rep, 'ALIAS-repeat', fq, f'`{text[:80]}` builds independent entries', False, '',
                      f'`{text[:80]}` stores the same {tys} object at every position: the entries alias each other, so a '
                      f'later in-place edit of one (e.g. popping a numeric shift for one residue) edits all of them',
                      f.loc(node), clause)
    if n == 0:
        rep.ob('ALIAS-repeat', f'no comprehension in {", ".join(sorted(m.split(".")[-1] for m in modules))} repeats one '
               f'mutable object', '', True, 'every position gets its own object', False, clause)


def value_preserving_rule(ctx, rep: Report, clause: str, modules=None):
    """no hidden precision: numbers travel through the package at full precision and are rounded only where the
    caller's `precision` says so.  Flags (a) round(x, <literal digits>), (b) a call that passes a numeric literal as
    precision=, (c) an f-string format spec on a computed value -- each silently fixes the number of digits of a mass
    or count that is later compared with, or parsed back into, the unrounded one"""
    import ast as _ast
    from ..loader import walk_own as _walk
    program = ctx.program
    n = 0
    bad = []
    for f in program.all_functions():
        if modules is not None and f.module.name not in modules:
            continue
        for x in _walk(f.node):
            n += 1
            if isinstance(x, _ast.Call) and isinstance(x.func, _ast.Name) and x.func.id == 'round' and len(x.args) == 2 and \
                    isinstance(x.args[1], _ast.Constant) and isinstance(x.args[1].value, int) and \
                    not isinstance(x.args[1].value, bool):
                bad.append((f, x, f'rounds to a fixed {x.args[1].value} digits'))
            if isinstance(x, _ast.Call):
                for kw in x.keywords:
                    if kw.arg == 'precision' and isinstance(kw.value, _ast.Constant) and \
                            isinstance(kw.value.value, (int, float)) and not isinstance(kw.value.value, bool):
                        bad.append((f, x, f'passes the literal precision {kw.value.value}'))
            if isinstance(x, _ast.FormattedValue) and x.format_spec is not None and not isinstance(x.value, _ast.Constant):
                bad.append((f, x, 'formats a computed value with a format spec'))
    for f, x, why in bad:
        check(rep, 'TOK-value', f.fq, f'`{norm_stmt(x)[:70]}` keeps full precision', False, '',
              f'`{norm_stmt(x)[:90]}` {why}: the digits cut here are missing when the value is compared with, summed '
              f'into or parsed back as the unrounded quantity (only the caller\'s `precision` may round)', f.loc(x), clause)
    if not bad:
        rep.ob('TOK-value', f'no fixed-digit rounding, literal precision or format spec in '
               f'{"the package" if modules is None else ", ".join(sorted(m.split(".")[-1] for m in modules))}', '', True,
               f'{n} expressions scanned', True, clause)


def self_accumulation_rule(ctx, rep: Report, clause: str, modules):
    """`D[K] = D2.get(K2, default) + ...` is an accumulation into D[K]: it has to read the entry it writes (D2 is D and
    K2 is K), otherwise counts gathered so far are overwritten or taken from another table"""
    import ast as _ast
    from ..loader import walk_own as _walk
    program = ctx.program
    n = 0
    for f in program.all_functions():
        if f.module.name not in modules:
            continue
        for x in _walk(f.node):
            if not (isinstance(x, _ast.Assign) and len(x.targets) == 1 and isinstance(x.targets[0], _ast.Subscript)):
                continue
            d, k = norm_stmt(x.targets[0].value), norm_stmt(x.targets[0].slice)
            gets = [c for c in _ast.walk(x.value) if isinstance(c, _ast.Call) and isinstance(c.func, _ast.Attribute) and
                    c.func.attr == 'get' and len(c.args) == 2]
            if not gets or not isinstance(x.value, _ast.BinOp):
                continue
            # the running total is the .get(...) that is a direct operand of the sum
            ops = [x.value.left, x.value.right]
            tot = [g for g in gets if any(g is o for o in ops)]
            if not tot:
                continue
            n += 1
            g = tot[0]
            d2, k2 = norm_stmt(g.func.value), norm_stmt(g.args[0])
            check(rep, 'ACC-self', f.fq, f'`{d}[...] = {d2}.get(...) + ...` reads the entry it writes', (d, k) == (d2, k2),
                  'same table, same key',
                  f'`{norm_stmt(x)[:100]}` stores into {d}[{k}] the sum built on {d2}[{k2}]: the count accumulated so '
                  f'far under {k} is replaced by a value taken from another entry', f.loc(x), clause)
    rep.floor('ACC-self', 'get-and-add accumulations', n, 3)


def stale_accumulator_rule(ctx, rep: Report, clause: str, modules, floor: int = 0):
    """a local that is added to inside a loop L and *used* inside L (not only after it) must be bound anew inside L:
    otherwise each iteration's use also contains what the earlier iterations added (a per-residue / per-rule subtotal
    that silently becomes a running total).  A total that is only read after the loop is the ordinary case and is not
    touched; running totals that are meant to be running (prefix sums) do not occur in the modules this is armed on."""
    import ast as _ast
    from ..loader import walk_own as _walk
    program = ctx.program
    n = 0
    for f in program.all_functions():
        if f.module.name not in modules:
            continue
        loops = [x for x in _walk(f.node) if isinstance(x, (_ast.For, _ast.While))]
        for lp in loops:
            inside = list(_ast.walk(lp))
            augs = {}
            for x in inside:
                if isinstance(x, _ast.AugAssign) and isinstance(x.target, _ast.Name) and isinstance(x.op, (_ast.Add, _ast.Sub)):
                    augs.setdefault(x.target.id, []).append(x)
                elif isinstance(x, _ast.Assign) and len(x.targets) == 1 and isinstance(x.targets[0], _ast.Name) and \
                        isinstance(x.value, _ast.BinOp) and isinstance(x.value.op, (_ast.Add, _ast.Sub)) and \
                        isinstance(x.value.left, _ast.Name) and x.value.left.id == x.targets[0].id:
                    augs.setdefault(x.targets[0].id, []).append(x)
            for v, sites in augs.items():
                n += 1
                rebound = any(isinstance(x, _ast.Assign) and x not in sites and any(
                    isinstance(t, _ast.Name) and t.id == v for t in _ast.walk(x.targets[0])) for x in inside) or \
                    any(isinstance(x, (_ast.For, _ast.comprehension)) and any(
                        isinstance(t, _ast.Name) and t.id == v for t in _ast.walk(x.target)) for x in inside)
                own = {id(y) for s_ in sites for y in _ast.walk(s_.target if isinstance(s_, _ast.AugAssign) else s_)
                       if isinstance(y, _ast.Name) and y.id == v and
                       (isinstance(s_, _ast.AugAssign) or y is s_.targets[0] or y is s_.value.left)}
                # the loop's own test/iterable is not a use of the subtotal
                reads = [y for y in inside if isinstance(y, _ast.Name) and y.id == v and isinstance(y.ctx, _ast.Load)
                         and id(y) not in own]
                if isinstance(lp, _ast.While):
                    reads = [y for y in reads if not any(y is z for z in _ast.walk(lp.test))]
                ok = rebound or not reads
                check(rep, 'ACC-stale', f.fq, f'`{v}`, added to and used inside one loop, is bound anew in that loop',
                      ok, 'a total read only after the loop, or a subtotal reset per iteration',
                      f'`{v}` is added to inside the loop at line {lp.lineno} and used there '
                      f'(`{norm_stmt(_stmt_of(f.node, reads[0]))[:80] if reads else ""}`) but never bound anew inside '
                      f'it: from the second iteration on the use also contains what the earlier iterations added',
                      f.loc(lp), clause)
    if floor:
        rep.floor('ACC-stale', 'accumulators inside loops', n, floor)
    return n


def _stmt_of(fnode, node):
    import ast as _ast
    best = None
    for st in _ast.walk(fnode):
        if isinstance(st, _ast.stmt) and not isinstance(st, (_ast.For, _ast.While, _ast.If, _ast.With, _ast.Try,
                                                              _ast.FunctionDef)):
            if any(x is node for x in _ast.walk(st)):
                best = st
    return best or node


def optional_number_tests_rule(ctx, rep: Report, clause: str, modules, floor: int = 0):
    """a parameter declared Optional[int] / Optional[float] (default None) means "not given" by None only: 0 is a value.
    Every test of such a parameter has to be a comparison (`is None`, `is not None`, `==`, `<`, ...); using the parameter
    itself as a truth value (`if p:`, `not p`, `p or default`, `x if p else y`) treats a given 0 as not given."""
    import ast as _ast
    from ..loader import walk_own as _walk
    program = ctx.program
    n = 0
    for f in program.all_functions():
        if f.module.name not in modules:
            continue
        numeric = set()
        for p in f.params:
            ann = norm_stmt(p.annotation) if p.annotation is not None else ''
            if p.default is not None and isinstance(p.default, _ast.Constant) and p.default.value is None and \
                    ('Optional[int]' in ann or 'Optional[float]' in ann or ann in ('int | None', 'float | None',
                                                                                     'Union[int, None]', 'Union[float, None]')):
                numeric.add(p.name)
        if not numeric:
            continue
        # a parameter re-bound in the function is no longer "the argument as given"
        rebound = {x.id for x in _walk(f.node) if isinstance(x, _ast.Name) and isinstance(x.ctx, _ast.Store)}
        for pname in sorted(numeric - rebound):
            n += 1
            bad = []
            for x in _walk(f.node):
                tests = []
                if isinstance(x, (_ast.If, _ast.While, _ast.IfExp)):
                    tests.append(x.test)
                if isinstance(x, _ast.BoolOp):
                    tests += list(x.values[:-1])      # `p or default`, `p and f(p)`
                if isinstance(x, _ast.UnaryOp) and isinstance(x.op, _ast.Not):
                    tests.append(x.operand)
                if isinstance(x, _ast.comprehension):
                    tests += list(x.ifs)
                for t in tests:
                    # the truth value of the parameter itself (also as an operand of and/or inside the test)
                    parts = [t]
                    while parts:
                        q = parts.pop()
                        if isinstance(q, _ast.BoolOp):
                            parts += list(q.values)
                        elif isinstance(q, _ast.UnaryOp) and isinstance(q.op, _ast.Not):
                            parts.append(q.operand)
                        elif isinstance(q, _ast.Name) and q.id == pname:
                            bad.append(x)
            check(rep, 'KIND', f.fq, f'optional number `{pname}` is tested against None, never for truth', not bad,
                  'is None / is not None',
                  f'`{norm_stmt(bad[0])[:70] if bad else ""}` uses `{pname}` as a truth value: a caller that passes 0 is '
                  f'treated as if the argument had not been given', f.loc(bad[0]) if bad else f.loc(), clause)
    if floor:
        rep.floor('KIND', 'optional numeric parameters', n, floor)
    return n



def terminus_owner_rule(ctx, rep, clause, module='peptacular.proforma.proforma_parser'):
    """SIB-owner: where the C-terminal modifications of an annotation X are dropped because a stretch ends before the
    last residue, the length in that test is the length of X -- not of some other annotation in scope.  (`stop <
    len(Y.sequence)` deciding about X.cterm_mods is right only if X and Y happen to have the same length.)"""
    import ast as _ast
    from ..canon import params_of
    n = 0
    for f in ctx.program.all_functions():
        if not f.fq.startswith(module + ':'):
            continue
        ps = set(params_of(f.node))
        defs = {}
        for x in walk_own(f.node):
            if isinstance(x, _ast.Assign):
                for t in x.targets:
                    if isinstance(t, _ast.Name):
                        defs.setdefault(t.id, []).append(x.value)
                    elif isinstance(t, _ast.Tuple) and isinstance(x.value, _ast.Tuple) and len(t.elts) == len(x.value.elts):
                        for a, b in zip(t.elts, x.value.elts):
                            if isinstance(a, _ast.Name):
                                defs.setdefault(a.id, []).append(b)

        def roots(e):
            out, seen, work = set(), set(), [e]
            while work:
                cur = work.pop()
                for y in _ast.walk(cur):
                    if isinstance(y, _ast.Name):
                        if y.id in ps:
                            out.add(y.id)
                        elif y.id in defs and y.id not in seen:
                            seen.add(y.id)
                            work += [v for v in defs[y.id] if not (isinstance(v, _ast.Constant) and v.value is None)]
            return out

        for x in walk_own(f.node):
            if not isinstance(x, _ast.If):
                continue
            lens = [y for y in _ast.walk(x.test) if isinstance(y, _ast.Call) and isinstance(y.func, _ast.Name) and
                    y.func.id == 'len' and y.args]
            # a length hoisted into a local: `n = len(self.sequence)` ... `if stop < n`
            for y in _ast.walk(x.test):
                if isinstance(y, _ast.Name) and y.id in defs and len(defs[y.id]) == 1 and \
                        isinstance(defs[y.id][0], _ast.Call) and isinstance(defs[y.id][0].func, _ast.Name) and \
                        defs[y.id][0].func.id == 'len' and defs[y.id][0].args:
                    lens.append(defs[y.id][0])
            if not lens:
                continue
            for st in x.body:
                if not (isinstance(st, _ast.Assign) and isinstance(st.value, _ast.Constant) and st.value.value is None):
                    continue
                t = st.targets[0]
                if 'cterm' not in norm_stmt(t).lower().replace('_', '').replace('cterminal', 'cterm'):
                    continue
                owner = roots(t.value if isinstance(t, _ast.Attribute) else t)
                lroots = set()
                for l_ in lens:
                    lroots |= roots(l_.args[0])
                if not owner or not lroots:
                    continue
                n += 1
                check(rep, 'SIB-owner', f.fq, f'`{norm_stmt(st)}`: the C-terminus is that of the annotation whose '
                      f'modifications are dropped', bool(owner & lroots),
                      f'the test measures {sorted(lroots)}, the modifications belong to {sorted(owner)}',
                      f'`{norm_stmt(x.test)}` measures the length of {sorted(lroots)} but decides about the C-terminal '
                      f'modifications of {sorted(owner)}: a stretch of the longer annotation that ends before its last '
                      f'residue keeps (or one that reaches it loses) the C-terminal modification',
                      f.loc(st), clause)
    rep.floor('SIB-owner', 'C-terminal drops guarded by a length test', n, 1)



_FAST_PATH_WITNESS = """
def count(self):
    if not self.has_internal_mods() and not self.has_intervals():
        return Counter(self.sequence)
    return Counter([a.serialize() for a in self.split()])
"""


def _fast_paths(fnode, kinds):
    """(return node, kinds with which the bare-residue return is taken) for every decided unmodified fast path"""
    import ast as _ast
    from ..guards import GuardEval, UNK, dominating_tests
    rets = [x for x in walk_own(fnode) if isinstance(x, _ast.Return) and x.value is not None]
    if len(rets) < 2:
        return

    def reads(e):
        out = {}
        for y in _ast.walk(e):
            if isinstance(y, _ast.Attribute) and isinstance(y.value, _ast.Name):
                out.setdefault(y.value.id, set()).add(y.attr)
        return out
    general = {}
    for r in rets:
        for root, attrs in reads(r.value).items():
            if attrs & {'slice', 'split', 'serialize'}:
                general.setdefault(root, []).append(r)
    for r in rets:
        rd = reads(r.value)
        for root, gens in general.items():
            if r in gens or not rd.get(root) or not rd[root] <= {'sequence', '_sequence'}:
                continue
            tests = [(t, pol) for t, pol in dominating_tests(fnode, r)
                     if any(isinstance(y, _ast.Call) and isinstance(y.func, _ast.Attribute) and
                            y.func.attr.startswith('has_') and isinstance(y.func.value, _ast.Name) and
                            y.func.value.id == root for y in _ast.walk(t))]
            if not tests:
                continue
            taken_with, undecided = [], False
            for k in kinds:
                env = {f'{root}.{q}()': (q == k) for q in kinds}
                env[f'{root}.has_mods()'] = True
                ok_all = True
                for t, pol in tests:
                    v = GuardEval(env).eval(t)
                    if v is UNK:
                        undecided, ok_all = True, False
                        break
                    if bool(v) != pol:
                        ok_all = False
                        break
                if ok_all:
                    taken_with.append(k[len('has_'):])
            if not undecided:
                yield r, taken_with


def unmodified_fast_path_rule(ctx, rep, clause, modules):
    """SIB-guard (fast path): a return that hands out the bare residues of an annotation X (only `X.sequence` is read)
    next to a general return that goes through X.slice() / X.split() / X.serialize() is taken only when X carries no
    modification of ANY kind.  The guard is evaluated on the ten single-kind annotations (has_<kind>() true for one
    kind only, has_mods() true): it must be false on each.  The expected count may be zero, so a built-in witness is
    read on every run."""
    import ast as _ast
    PFA_ = 'peptacular.proforma.proforma_parser:ProFormaAnnotation'
    hm = ctx.program.cls(PFA_).methods['has_mods']
    kinds = sorted({y.func.attr for y in _ast.walk(hm.node) if isinstance(y, _ast.Call) and
                    isinstance(y.func, _ast.Attribute) and y.func.attr.startswith('has_')})
    if len(kinds) < 10:
        raise AnalysisError(f'has_mods asks {len(kinds)} has_<kind>() questions, 10 expected (form not read)')
    w = [tw for _, tw in _fast_paths(_ast.parse(_FAST_PATH_WITNESS).body[0], kinds)]
    if len(w) != 1 or 'nterm_mods' not in w[0] or 'internal_mods' in w[0]:
        raise AnalysisError('fast-path rule: the built-in witness is no longer read as expected')
    n = 0
    for f in ctx.program.all_functions():
        if not any(f.fq.startswith(m + ':') for m in modules):
            continue
        for r, taken_with in _fast_paths(f.node, kinds):
            n += 1
            check(rep, 'SIB-guard', f.fq, f'the unmodified fast path `{norm_stmt(r)[:60]}` is taken only without any '
                  f'modification', not taken_with, 'guard false for each of the ten kinds',
                  f'the fast path returns the bare residues although the annotation carries {taken_with}: the general '
                  f'path (slice/split/serialize) would have shown them', f.loc(r), clause)
    rep.note(f'unmodified fast paths read: {n} (built-in witness recognised)')


_SHARED_ROW_WITNESS = """
def cover(labels, n, hits):
    cov = dict.fromkeys(labels, [0] * n)
    for label, i in hits:
        row = cov[label]
        row[i] += 1
    return cov
"""


def _mutable_display(e) -> bool:
    import ast as _ast
    if isinstance(e, (_ast.List, _ast.Dict, _ast.Set, _ast.ListComp, _ast.DictComp, _ast.SetComp)):
        return True
    if isinstance(e, _ast.BinOp) and isinstance(e.op, _ast.Mult):
        return _mutable_display(e.left) or _mutable_display(e.right)
    if isinstance(e, _ast.Call) and isinstance(e.func, _ast.Name) and e.func.id in ('list', 'dict', 'set', 'Counter',
                                                                                   'defaultdict', 'bytearray'):
        return True
    return False


def _shared_rows(fnode):
    """(creation node, mutation node): a container whose elements are ONE shared mutable object -- dict.fromkeys(keys,
    <mutable>) or [<mutable>] * n -- and an element of it that is written in place later in the same function"""
    import ast as _ast
    made = {}
    for x in walk_own(fnode):
        if isinstance(x, _ast.Assign) and len(x.targets) == 1 and isinstance(x.targets[0], _ast.Name):
            v = x.value
            shared = False
            if isinstance(v, _ast.Call) and isinstance(v.func, _ast.Attribute) and v.func.attr == 'fromkeys' and \
                    len(v.args) == 2 and _mutable_display(v.args[1]):
                shared = True
            if isinstance(v, _ast.BinOp) and isinstance(v.op, _ast.Mult):
                for side in (v.left, v.right):
                    if isinstance(side, _ast.List) and len(side.elts) == 1 and _mutable_display(side.elts[0]):
                        shared = True
            if shared:
                made[x.targets[0].id] = x
    if not made:
        return
    rows = {}      # alias of one element -> container
    for x in walk_own(fnode):
        if isinstance(x, _ast.Assign) and len(x.targets) == 1 and isinstance(x.targets[0], _ast.Name) and \
                isinstance(x.value, _ast.Subscript) and isinstance(x.value.value, _ast.Name) and x.value.value.id in made:
            rows[x.targets[0].id] = x.value.value.id
        if isinstance(x, _ast.For) and isinstance(x.iter, _ast.Call) and isinstance(x.iter.func, _ast.Attribute) and \
                x.iter.func.attr == 'values' and isinstance(x.iter.func.value, _ast.Name) and \
                x.iter.func.value.id in made and isinstance(x.target, _ast.Name):
            rows[x.target.id] = x.iter.func.value.id

    def element_of(e):
        if isinstance(e, _ast.Name) and e.id in rows:
            return rows[e.id]
        if isinstance(e, _ast.Subscript) and isinstance(e.value, _ast.Name) and e.value.id in made:
            return e.value.id
        return None
    for x in walk_own(fnode):
        tgt = None
        if isinstance(x, _ast.AugAssign) and isinstance(x.target, _ast.Subscript):
            tgt = x.target.value
        elif isinstance(x, _ast.Assign) and isinstance(x.targets[0], _ast.Subscript):
            tgt = x.targets[0].value
        elif isinstance(x, _ast.Call) and isinstance(x.func, _ast.Attribute) and x.func.attr in (
                'append', 'extend', 'add', 'update', 'insert', 'pop', 'remove', 'clear', 'setdefault', 'sort'):
            tgt = x.func.value
        if tgt is not None:
            c = element_of(tgt)
            if c is not None:
                yield made[c], x


def shared_rows_rule(ctx, rep, clause, modules):
    """EFF-shared-row: the rows of a table that are written in place are separate objects.  `dict.fromkeys(keys, [0] *
    n)` and `[[0] * n] * m` put ONE list under every key / index, so a count added to one row shows up in all."""
    import ast as _ast
    if not list(_shared_rows(_ast.parse(_SHARED_ROW_WITNESS).body[0])):
        raise AnalysisError('shared-row rule: the built-in witness is no longer recognised')
    n = 0
    for f in ctx.program.all_functions():
        if not any(f.fq.startswith(m + ':') for m in modules):
            continue
        n += 1
        hits = list(_shared_rows(f.node))
        check(rep, 'EFF-shared-row', f.fq, 'rows written in place are separate objects', not hits, 'no shared row',
              (f'`{norm_stmt(hits[0][0])[:80]}` stores one object under every key and `{norm_stmt(hits[0][1])[:50]}` '
               f'writes into it: every row receives the counts of all rows') if hits else '',
              f.loc(hits[0][0]) if hits else f.loc(), clause)
    rep.floor('EFF-shared-row', 'functions scanned', n, 5)


_KEY_WITNESS = """
def pair(fragments, peaks):
    by_mz = {f.mz: f for f in fragments}
    return [(by_mz[m], p) for m, p in peaks]
"""


def _value_keyed_tables(fnode):
    """look-up tables of records keyed by a measured value of the record alone (`by_mz = {f.mz: f for f in fragments}` ...
    `by_mz[m]`): two records with the same value share one slot"""
    import ast as _ast
    measured = {'mz', 'mass', 'neutral_mass', 'intensity'}
    # only tables that are looked up by key later (`table[k]`, `table.get(k)`): a dict used to drop duplicates and read
    # through .values() keeps one record per value on purpose
    looked_up = {y.value.id for y in walk_own(fnode) if isinstance(y, _ast.Subscript) and isinstance(y.ctx, _ast.Load) and
                 isinstance(y.value, _ast.Name)} | \
        {y.func.value.id for y in walk_own(fnode) if isinstance(y, _ast.Call) and isinstance(y.func, _ast.Attribute) and
         y.func.attr == 'get' and isinstance(y.func.value, _ast.Name)}
    for x in walk_own(fnode):
        if isinstance(x, _ast.Assign) and len(x.targets) == 1 and isinstance(x.targets[0], _ast.Name) and \
                x.targets[0].id in looked_up and isinstance(x.value, _ast.DictComp):
            d = x.value
            if isinstance(d.key, _ast.Attribute) and d.key.attr in measured and isinstance(d.key.value, _ast.Name) and \
                    isinstance(d.value, _ast.Name) and d.value.id == d.key.value.id and \
                    any(isinstance(g.target, _ast.Name) and g.target.id == d.value.id for g in d.generators):
                yield x
        if isinstance(x, _ast.For) and isinstance(x.target, _ast.Name):
            for st in _ast.walk(x):
                if isinstance(st, _ast.Assign) and len(st.targets) == 1 and isinstance(st.targets[0], _ast.Subscript) and \
                        isinstance(st.targets[0].slice, _ast.Attribute) and st.targets[0].slice.attr in measured and \
                        isinstance(st.targets[0].slice.value, _ast.Name) and st.targets[0].slice.value.id == x.target.id and \
                        isinstance(st.value, _ast.Name) and st.value.id == x.target.id and \
                        isinstance(st.targets[0].value, _ast.Name) and st.targets[0].value.id in looked_up:
                    yield st


def value_keyed_table_rule(ctx, rep, clause, modules):
    """KEY: no table of fragments / peaks is keyed by a measured value alone (m/z, mass, intensity): records that agree
    in that value (isobaric fragments) would share one slot and all but one lose their matches.  Zero instances
    expected; a built-in witness is read on every run."""
    import ast as _ast
    if not list(_value_keyed_tables(_ast.parse(_KEY_WITNESS).body[0])):
        raise AnalysisError('value-keyed table rule: the built-in witness is no longer recognised')
    n = 0
    for f in ctx.program.all_functions():
        if not any(f.fq.startswith(m + ':') for m in modules):
            continue
        n += 1
        hits = list(_value_keyed_tables(f.node))
        check(rep, 'KEY', f.fq, 'no table of records keyed by a measured value alone', not hits, 'none',
              f'`{norm_stmt(hits[0])[:80]}` keeps one record per value: two fragments with exactly the same m/z share a '
              f'slot, so all but the last lose their matches (and which one survives depends on the input order)'
              if hits else '', f.loc(hits[0]) if hits else f.loc(), clause)
    rep.floor('KEY', 'functions scanned for value-keyed tables', n, 5)
