"""C06 -- Digestion returns exactly the peptides the cleavage rules define (structural necessary conditions only)."""
import ast
from typing import Dict, List, Optional, Tuple

from ..loader import AnalysisError, norm_stmt, walk_own
from ..rules_flow import forwarding
from ..canon import Canon
from ..guards import GuardEval, UNK, specialise
from .common import add_fwd
from .common import check as ob

EXPLANATION = (
    'The property is a value relation (which integer triples come out for given sites, bounds and missed-cleavage '
    'counts); that relation is NOT decided here. Decided are the parts of it that are visible in the shape of the code '
    'and without which the relation cannot hold: (a) the site finder applies its offset exactly once on every yield '
    'path; (b) every option travels from digest / digest_from_config / sequential_digest to the span builders, and '
    'between the span builders, bound to the parameter of the same name; the spans of later sequential stages are '
    're-based by the start of their parent; (c) every length test that guards a yielded span keeps the closed interval '
    '[min_len, max_len] (decided over the five orderings of the length against the two bounds); (d) the missed-'
    'cleavage window of the enzymatic builder is the slice of the sorted site list that starts right after the start '
    'site and is missed_cleavages + 1 sites wide, and the number reported with a span is the position inside that '
    'window; the site list is de-duplicated, sorted and closed with 0 and max_index; (e) the all-positions shortcut '
    'counts distinct sites, the non-specific builder reports 0 for every span, and every other value build_spans '
    'yields depends on missed_cleavages; (f) semi-specific digestion yields the strict spans within the bounds and both '
    'the left and the right semi spans of the unbounded strict spans; (g) partial digestion adds exactly the whole '
    'sequence, complete digestion adds nothing. Not decided: the window arithmetic of the semi builders (de-duplication '
    'by the next shorter parent), the bounds encoded in range() limits, regular-expression semantics, ordering of the '
    'output -- value relations over runtime integers, which need execution or a solver.')

SP = 'peptacular.spans'
DG = 'peptacular.digestion'
BUILDERS = ('build_non_enzymatic_spans', 'build_left_semi_spans', 'build_right_semi_spans', 'build_enzymatic_spans',
            '_grouped_left_semi_span_builder', '_grouped_right_semi_span_builder', 'build_semi_spans', 'build_spans')


# ---------------------------------------------------------------------------------------------------------------------
def builder_forwarding(ctx, rep, clause):
    an, program = ctx.analyzer, ctx.program
    callers = {f.fq for f in program.all_functions() if f.module.name == SP}
    n = add_fwd(rep, forwarding(an, program, ['min_len', 'max_len', 'missed_cleavages', 'max_index', 'enzyme_sites'],
                                callers=callers), clause)
    rep.floor('FWD', 'option forwarding sites between the span builders', n, 12)


# ---------------------------------------------------------------------------------------------------------------------
def _span_tuples(f) -> List[Tuple[ast.Tuple, List[ast.AST]]]:
    """(yielded 3-tuple, the tests that guard it) for every span the function produces itself: `yield a, b, c` under
    if statements, or the element of a returned / yielded-from generator expression with its `if` clauses"""
    from ..guards import dominating_tests
    out = []
    for n in walk_own(f.node):
        if isinstance(n, ast.Yield) and isinstance(n.value, ast.Tuple) and len(n.value.elts) == 3:
            tests = [t if pol else ast.UnaryOp(op=ast.Not(), operand=t) for t, pol in dominating_tests(f.node, n)]
            out.append((n.value, tests))
        if isinstance(n, (ast.GeneratorExp, ast.ListComp)) and isinstance(n.elt, ast.Tuple) and len(n.elt.elts) == 3:
            tests = [t for g in n.generators for t in g.ifs]
            out.append((n.elt, tests))
        # a span passed on as a whole (`yield span`, `[... span ... for .. span in .. if ..]`): its ends are span[0], span[1]
        whole = None
        if isinstance(n, ast.Yield) and isinstance(n.value, ast.Name):
            whole = (n.value.id, [t if pol else ast.UnaryOp(op=ast.Not(), operand=t)
                                  for t, pol in dominating_tests(f.node, n)])
        if isinstance(n, (ast.GeneratorExp, ast.ListComp)) and any(g.ifs for g in n.generators):
            for g in n.generators:
                for nm in [x.id for x in ast.walk(g.target) if isinstance(x, ast.Name)]:
                    if any(isinstance(x, ast.Name) and x.id == nm for x in ast.walk(n.elt)) and g.ifs:
                        whole = (nm, list(g.ifs))
        if whole is not None:
            nm, tests = whole

            def sub(k):
                return ast.Subscript(value=ast.Name(id=nm, ctx=ast.Load()), slice=ast.Constant(value=k), ctx=ast.Load())
            if any(f'{nm}[1] - {nm}[0]' in norm_stmt(t) for t in tests):
                out.append((ast.Tuple(elts=[sub(0), sub(1), sub(2)], ctx=ast.Load()), tests))
    return out


def inclusive_bounds(ctx, rep, clause):
    """a span of length L is kept iff min_len <= L <= max_len: every test that guards a produced span and compares its
    length with a bound is decided for L one below, at and one above the bound"""
    program = ctx.program
    n = 0
    funcs = [program.func(f'{SP}:{name}') for name in BUILDERS] + \
        [g for g in program.all_functions() if g.module.name == DG]
    for f in funcs:
        c = Canon(f.node)
        for tup, tests in _span_tuples(f):
            a, b = tup.elts[0], tup.elts[1]
            length = norm_stmt(ast.BinOp(left=b, op=ast.Sub(), right=a))
            rlength = norm_stmt(ast.BinOp(left=c.resolve(b), op=ast.Sub(), right=c.resolve(a)))
            for t in tests:
                rt = c.resolve(t)
                txt = norm_stmt(t)
                names = {x.id for x in ast.walk(t) if isinstance(x, ast.Name)} | \
                    {x.id for x in ast.walk(rt) if isinstance(x, ast.Name)}
                if not ({'min_len', 'max_len'} & names):
                    continue
                lo, hi = 3, 5
                verdicts = {}
                for L in (2, 3, 4, 5, 6):
                    env = {length: L, rlength: L, 'min_len': lo, 'max_len': hi}
                    # the two ends by name, for tests written on the ends rather than on their difference
                    if isinstance(a, ast.Name) and isinstance(b, ast.Name):
                        env[a.id], env[b.id] = 10, 10 + L
                    v = GuardEval(env).eval(t)
                    verdicts[L] = v if v is not UNK else GuardEval(env).eval(rt)
                if any(v is UNK for v in verdicts.values()):
                    continue     # not a comparison of this span's length: not decided here
                n += 1
                want = {L: ((L >= lo) if 'min_len' in names else True) and ((L <= hi) if 'max_len' in names else True)
                        for L in verdicts}
                got = {L: bool(v) for L, v in verdicts.items()}
                bad = [L for L in sorted(got) if got[L] != want[L]]
                ob(rep, 'KIND', f.fq, f'the length test guarding `{norm_stmt(tup)}` keeps the closed interval '
                   f'[{"min_len" if "min_len" in names else ""}, {"max_len" if "max_len" in names else ""}]', not bad,
                   'lengths 2..6 against the bounds 3 and 5: kept exactly inside the closed interval',
                   f'with min_len=3 and max_len=5 the test `{txt[:80]}` {"keeps" if bad and got[bad[0]] else "drops"} a '
                   f'span of length {bad[0] if bad else ""}: the documented bounds are inclusive', f.loc(tup), clause)
    rep.floor('KIND', 'length tests on produced spans decided over the orderings', n, 5)


# ---------------------------------------------------------------------------------------------------------------------
def _affine(e: ast.AST) -> Optional[Dict[str, int]]:
    """integer-affine form {name or text: coefficient, '': constant}; None when the expression is not affine"""
    if isinstance(e, ast.Constant) and isinstance(e.value, int) and not isinstance(e.value, bool):
        return {'': e.value}
    if isinstance(e, ast.BinOp) and isinstance(e.op, (ast.Add, ast.Sub)):
        l, r = _affine(e.left), _affine(e.right)
        if l is None or r is None:
            return None
        out = dict(l)
        sg = 1 if isinstance(e.op, ast.Add) else -1
        for k, v in r.items():
            out[k] = out.get(k, 0) + sg * v
        return {k: v for k, v in out.items() if v != 0 or k == ''}
    if isinstance(e, ast.UnaryOp) and isinstance(e.op, ast.USub):
        v = _affine(e.operand)
        return None if v is None else {k: -x for k, x in v.items()}
    if isinstance(e, (ast.Name, ast.Attribute, ast.Subscript, ast.Call)):
        return {norm_stmt(e): 1}
    return None


def _diff(a: Dict[str, int], b: Dict[str, int]) -> Dict[str, int]:
    out = dict(a)
    for k, v in b.items():
        out[k] = out.get(k, 0) - v
    return {k: v for k, v in out.items() if v != 0}


def _last_binding(f, name: str, before: ast.AST) -> Optional[ast.AST]:
    """the value most recently assigned to `name` by a top-level statement that precedes `before`"""
    last = None
    for st in f.node.body:
        if st is before or any(x is before for x in ast.walk(st)):
            break
        if isinstance(st, ast.Assign) and any(isinstance(t, ast.Name) and t.id == name for t in st.targets):
            last = st.value
    return last


def missed_window(ctx, rep, clause):
    """build_enzymatic_spans: for the start site at position i of the sorted, de-duplicated site list closed with 0 and
    max_index, the end sites are the slice [i + 1 : i + missed_cleavages + 2] -- missed_cleavages + 1 sites wide,
    starting right after the start site -- and the number reported is the position inside that slice (the number of
    sites strictly inside the span)"""
    program = ctx.program
    f = program.func(f'{SP}:build_enzymatic_spans')
    c = Canon(f.node)
    # the site list the loops run over: closed with both ends, de-duplicated, sorted
    txt = ' ; '.join(norm_stmt(s) for s in f.node.body)
    site_param = 'enzyme_sites'
    closed = all(any(isinstance(x, ast.Call) and isinstance(x.func, ast.Attribute) and x.func.attr in ('add', 'append')
                     and x.args and norm_stmt(x.args[0]) == v for x in walk_own(f.node)) or
                 any(isinstance(x, (ast.Set, ast.List, ast.Tuple)) and any(norm_stmt(e) == v for e in x.elts)
                     for x in walk_own(f.node)) for v in ('0', 'max_index'))
    ob(rep, 'KIND', f.fq, 'the site list is closed with 0 and max_index', closed, 'both protein termini are sites',
       'a protein terminus is no longer added to the site list: the first or the last peptide is never produced',
       f.loc(), clause)
    outer = [x for x in walk_own(f.node) if isinstance(x, ast.For) and 'enumerate(' in norm_stmt(x.iter) and
             any(isinstance(y, ast.For) for y in ast.walk(x) if y is not x)]
    if len(outer) != 1:
        raise AnalysisError('build_enzymatic_spans: the loop over start sites was not found')
    o = outer[0]
    src = o.iter.args[0] if isinstance(o.iter, ast.Call) and o.iter.args else None
    if isinstance(src, ast.Name):
        src = _last_binding(f, src.id, o) or src
    src_txt = norm_stmt(src) if src is not None else ''
    ob(rep, 'KIND', f.fq, 'start sites are drawn from the sorted, de-duplicated site list',
       src_txt.startswith('sorted(') and ('set(' in txt), 'sorted(<set>)',
       f'the start sites come from `{src_txt[:60]}`: an unsorted or duplicated site makes the window of the next '
       f'missed_cleavages + 1 sites skip or repeat a site', f.loc(o), clause)
    inner = [y for y in ast.walk(o) if isinstance(y, ast.For) and y is not o]
    if len(inner) != 1 or not (isinstance(o.target, ast.Tuple) and len(o.target.elts) == 2):
        raise AnalysisError('build_enzymatic_spans: the loop over end sites was not found')
    i_name = o.target.elts[0].id
    y = inner[0]
    it = y.iter
    sl = None
    counted = False
    if isinstance(it, ast.Call) and norm_stmt(it.func) == 'enumerate' and it.args and isinstance(it.args[0], ast.Subscript) \
            and isinstance(it.args[0].slice, ast.Slice):
        sl = it.args[0].slice
        counted = len(it.args) == 1 and not it.keywords
    if sl is None or sl.lower is None or sl.upper is None or sl.step is not None:
        raise AnalysisError('build_enzymatic_spans: the window over the following sites is not a slice [lo:hi] under '
                            'enumerate')
    lo, hi = _affine(c.resolve(sl.lower)), _affine(c.resolve(sl.upper))
    ok_lo = lo is not None and _diff(lo, {i_name: 1, '': 1}) == {}
    ob(rep, 'KIND', f.fq, 'the window of end sites starts right after the start site', ok_lo, f'[{i_name} + 1 : ...]',
       f'the window starts at `{norm_stmt(sl.lower)}`: the start site itself is paired (an empty span) or the next site '
       f'is skipped', f.loc(y), clause)
    ok_w = lo is not None and hi is not None and _diff(_diff(hi, lo), {'missed_cleavages': 1, '': 1}) == {}
    ob(rep, 'KIND', f.fq, 'the window is missed_cleavages + 1 sites wide', ok_w, 'upper - lower == missed_cleavages + 1',
       f'the window [{norm_stmt(sl.lower)} : {norm_stmt(sl.upper)}] is not missed_cleavages + 1 sites wide: spans with '
       f'one site too many (or too few) strictly inside are produced', f.loc(y), clause)
    tups = [t for t, _ in _span_tuples(f)]
    j_name = y.target.elts[0].id if isinstance(y.target, ast.Tuple) and len(y.target.elts) == 2 else None
    ok_j = counted and j_name is not None and len(tups) == 1 and norm_stmt(c.resolve(tups[0].elts[2])) == j_name
    ob(rep, 'KIND', f.fq, 'the number reported with a span is its position inside the window', ok_j,
       'enumerate index, counted from 0', f'the third component of `{norm_stmt(tups[0]) if tups else "?"}` is not the '
       f'0-based position of the end site in the window: the reported number of missed cleavages is not the number of '
       f'sites inside the span', f.loc(y), clause)
    if tups and isinstance(o.target.elts[1], ast.Name) and isinstance(y.target, ast.Tuple):
        ends = (o.target.elts[1].id, y.target.elts[1].id if isinstance(y.target.elts[1], ast.Name) else '?')
        got = (norm_stmt(c.resolve(tups[0].elts[0])), norm_stmt(c.resolve(tups[0].elts[1])))
        ob(rep, 'KIND', f.fq, 'a span runs from the start site to the end site', got == ends, f'{ends}',
           f'the produced span is {got}, the loop variables are {ends}', f.loc(tups[0]), clause)


# ---------------------------------------------------------------------------------------------------------------------
def shortcut(ctx, rep, clause):
    """build_spans: the all-positions shortcut is taken on the number of *distinct* sites; it is the only exit that does
    not depend on missed_cleavages"""
    an, program = ctx.analyzer, ctx.program
    f = program.func(f'{SP}:build_spans')
    c = Canon(f.node)
    tests = []
    for n in walk_own(f.node):
        if isinstance(n, ast.If):
            for x in ast.walk(n.test):
                if isinstance(x, ast.Compare) and len(x.ops) == 1 and isinstance(x.ops[0], ast.Eq):
                    sides = [x.left, x.comparators[0]]
                    ln = [s for s in sides if isinstance(s, ast.Call) and norm_stmt(s.func) == 'len' and s.args]
                    other = [s for s in sides if s not in ln]
                    if ln and other and _affine(c.resolve(other[0])) is not None and \
                            _diff(_affine(c.resolve(other[0])), {'max_index': 1, '': 1}) == {}:
                        tests.append((n, ln[0]))
    ob(rep, 'KIND', f.fq, 'the all-positions shortcut exists (len(<sites>) == max_index + 1)', len(tests) == 1, '1 test',
       f'{len(tests)} such tests', f.loc(), clause)
    if len(tests) != 1:
        return
    node, ln = tests[0]
    # the flow-sensitive value of the counted list at the test: the last binding before the test
    arg = ln.args[0]
    val = arg
    if isinstance(arg, ast.Name):
        last = None
        for st in f.node.body:
            if st is node:
                break
            if isinstance(st, ast.Assign) and any(isinstance(t, ast.Name) and t.id == arg.id for t in st.targets):
                last = st.value
        val = last if last is not None else arg
    vt = norm_stmt(val)
    distinct = any(isinstance(x, ast.Call) and norm_stmt(x.func) in ('set', 'frozenset') for x in ast.walk(val)) or \
        isinstance(val, (ast.Set, ast.SetComp))
    ob(rep, 'KIND', f.fq, 'the shortcut counts distinct sites', distinct, vt[:60],
       f'the shortcut compares max_index + 1 with the length of `{vt[:60]}`, which is not de-duplicated: two rules that '
       f'report the same site make a specific digest look non-specific (or hide a non-specific one)', f.loc(node), clause)
    # every yielded value depends on missed_cleavages, except under the shortcut
    def reaches(expr, depth=0) -> set:
        """names in the backward slice of an expression: resolved locals, and for a loop variable what it ranges over"""
        names = set(c.names_of(expr))
        if depth < 4:
            for nm in list(names):
                for kind, payload in c.bindings.get(nm, []):
                    if kind == 'each':
                        names |= reaches(payload[0], depth + 1)
        return names
    k = 0
    for rnode in walk_own(f.node):
        if not isinstance(rnode, (ast.Yield, ast.YieldFrom)) or rnode.value is None:
            continue
        k += 1
        under = any(rnode is x for s in node.body for x in ast.walk(s))
        dep = 'missed_cleavages' in reaches(rnode.value)
        if under:
            ob(rep, 'RET', f.fq, 'the all-positions shortcut is limited by missed_cleavages or taken for the non-specific '
               'rule only', dep, 'depends on missed_cleavages',
               'the shortcut is taken whenever every position 0..max_index is a site and then yields every proper '
               'sub-span with 0 missed cleavages, whatever missed_cleavages is: for specific rules that together hit '
               'every position (digest("KKK", ["lys-n", "lys-c"], missed_cleavages=0)) spans with sites strictly inside '
               'are returned and reported as 0 missed cleavages', f.loc(rnode), clause)
        else:
            ob(rep, 'RET', f.fq, f'`{norm_stmt(rnode)[:50]}` depends on missed_cleavages', dep, 'in the backward slice',
               f'`{norm_stmt(rnode)[:60]}` is produced without missed_cleavages', f.loc(rnode), clause)
    rep.floor('RET', 'yields of build_spans', k, 3)


def nonspecific_zero(ctx, rep, clause):
    program = ctx.program
    f = program.func(f'{SP}:build_non_enzymatic_spans')
    c = Canon(f.node)
    tups = _span_tuples(f)
    ok = bool(tups) and all(isinstance(c.resolve(t.elts[2]), ast.Constant) and c.resolve(t.elts[2]).value == 0
                            for t, _ in tups)
    ob(rep, 'KIND', f.fq, 'non-specific spans are reported with 0 missed cleavages', ok, '(i, j, 0)',
       'the third component of a non-specific span is not the constant 0', f.loc(), clause)


def semi_union(ctx, rep, clause):
    """build_spans with semi=True yields the strict spans (filtered by the bounds) and the semi spans of the strict spans
    built *without* the upper bound; build_semi_spans yields the left and the right semi spans"""
    an, program = ctx.analyzer, ctx.program
    f = program.func(f'{SP}:build_spans')
    out = {}
    for val in (True, False):
        ge = GuardEval({'semi': val, 'len(enzyme_sites) == max_index + 1': False})
        calls = []
        for st in specialise(f.node.body, ge):
            from ..guards import resolve
            for x in ast.walk(resolve(st, ge)):
                if isinstance(x, ast.Call) and isinstance(x.func, ast.Name):
                    calls.append(x)
        out[val] = calls
    names = {v: {norm_stmt(c_.func) for c_ in cs} for v, cs in out.items()}
    ob(rep, 'SIB-dispatch', f.fq, 'semi-specific digestion builds the semi spans, specific digestion does not',
       'build_semi_spans' in names[True] and 'build_semi_spans' not in names[False] and
       'build_enzymatic_spans' in names[True] and 'build_enzymatic_spans' in names[False],
       'build_semi_spans under semi only', f'with semi: {sorted(names[True])}; without: {sorted(names[False])}', f.loc(),
       clause)
    # under semi the strict parents are built without the upper bound (a parent longer than max_len still has semi
    # spans within the bounds)
    for val in (True, False):
        enz = [c_ for c_ in out[val] if norm_stmt(c_.func) == 'build_enzymatic_spans']
        if not enz:
            continue
        call = enz[0]
        g = program.func(f'{SP}:build_enzymatic_spans')
        params = [a.arg for a in g.node.args.args]
        bind = {p: a for p, a in zip(params, call.args)}
        bind.update({kw.arg: kw.value for kw in call.keywords if kw.arg})
        mx = bind.get('max_len')
        is_none = mx is None or (isinstance(mx, ast.Constant) and mx.value is None)
        if val:
            ob(rep, 'SIB-dispatch', f.fq, 'under semi the strict parents are built without the upper bound', is_none,
               'max_len=None', f'the parents of the semi spans are built with max_len=`{norm_stmt(mx) if mx is not None else ""}`: '
               f'a strict span longer than max_len contributes no semi spans although its shorter semi spans are within '
               f'the bounds', f.loc(call), clause)
        else:
            ob(rep, 'SIB-dispatch', f.fq, 'without semi the strict spans are built with the upper bound',
               not is_none and 'max_len' in norm_stmt(mx), 'max_len=max_len', 'the upper bound is not applied', f.loc(call),
               clause)
    s = program.func(f'{SP}:build_semi_spans')
    called = {norm_stmt(x.func) for x in walk_own(s.node) if isinstance(x, ast.Call)}
    ob(rep, 'SIB-dispatch', s.fq, 'semi spans are the left and the right semi spans',
       {'_grouped_left_semi_span_builder', '_grouped_right_semi_span_builder'} <= called, 'both sides',
       f'only {sorted(called)} is used: spans sharing the other end with a strict span are never produced', s.loc(), clause)
    # the two one-sided builders keep the parent's end they share
    for name, keep, move in (('build_left_semi_spans', 0, 1), ('build_right_semi_spans', 1, 0)):
        b = program.func(f'{SP}:{name}')
        cb = Canon(b.node)
        tups = _span_tuples(b)
        ok = False
        if len(tups) == 1:
            kept = norm_stmt(cb.resolve(tups[0][0].elts[keep]))
            ok = kept in (f'span[{keep}]', 'unpack(span).%d' % keep) or kept == cb.text(ast.Subscript(
                value=ast.Name(id='span', ctx=ast.Load()), slice=ast.Constant(value=keep), ctx=ast.Load()))
            val_ = norm_stmt(cb.resolve(tups[0][0].elts[2]))
            ok_v = val_ in ('span[2]',)
            ob(rep, 'KIND', b.fq, 'a semi span carries the number reported with its parent', ok_v, 'span[2]',
               f'the third component is `{val_}`', b.loc(tups[0][0]), clause)
        ob(rep, 'KIND', b.fq, f'a {"left" if keep == 0 else "right"} semi span keeps the {"start" if keep == 0 else "end"} '
           f'of its parent', ok, f'span[{keep}]', f'the shared end is not taken from the parent span', b.loc(), clause)


def partial_digestion(ctx, rep, clause):
    """digest: with complete_digestion=False exactly the whole sequence (0, len, 0) is added to the result set, with
    True nothing is"""
    program = ctx.program
    f = program.func(f'{DG}:digest')
    c = Canon(f.node)
    added = {}
    for val in (True, False):
        ge = GuardEval({'complete_digestion': val})
        lits = []
        for st in specialise(f.node.body, ge):
            for x in ast.walk(st):
                if isinstance(x, ast.Tuple) and len(x.elts) == 3 and isinstance(x.ctx, ast.Load) and \
                        all(not isinstance(e, ast.Starred) for e in x.elts) and \
                        not any(isinstance(p, ast.Lambda) and any(x is y for y in ast.walk(p)) for p in ast.walk(st)):
                    lits.append(norm_stmt(c.resolve(x)))
        added[val] = lits
    # the whole sequence: (0, <the length handed to build_spans as max_index>, 0)
    mx = None
    for x in walk_own(f.node):
        if isinstance(x, ast.Call) and norm_stmt(x.func) == 'build_spans':
            mx = next((kw.value for kw in x.keywords if kw.arg == 'max_index'), x.args[0] if x.args else None)
    if mx is None:
        raise AnalysisError('digest: the call of build_spans was not found')
    mx_txt = norm_stmt(c.resolve(mx)).replace(' ', '')
    whole = [t for t in added[False] if t.replace(' ', '') == f'(0,{mx_txt},0)']
    ob(rep, 'KIND', f.fq, 'partial digestion adds the undigested sequence', len(whole) == 1 and len(added[False]) == 1,
       '(0, <max_index>, 0)', f'with complete_digestion=False the spans written by hand are {added[False]}', f.loc(),
       clause)
    ob(rep, 'KIND', f.fq, 'complete digestion adds nothing by hand', not added[True], 'nothing',
       f'with complete_digestion=True the spans {added[True]} are added', f.loc(), clause)


def check(ctx, rep):
    rep.explanation = EXPLANATION
    from . import C07, C13
    C13.site_index_offset(ctx, rep, 'C06a')
    C07.front_ends(ctx, rep, 'C06b')
    builder_forwarding(ctx, rep, 'C06b')
    inclusive_bounds(ctx, rep, 'C06c')
    missed_window(ctx, rep, 'C06d')
    shortcut(ctx, rep, 'C06e')
    nonspecific_zero(ctx, rep, 'C06e')
    semi_union(ctx, rep, 'C06f')
    partial_digestion(ctx, rep, 'C06g')
    from .common import optional_number_tests_rule
    optional_number_tests_rule(ctx, rep, 'C06c', ('peptacular.spans', 'peptacular.digestion'))
    from .common import unmodified_fast_path_rule
    unmodified_fast_path_rule(ctx, rep, 'C06b', ('peptacular.digestion',))
