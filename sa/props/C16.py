"""C16 -- subsequence search and coverage find every occurrence (structural necessary conditions)."""
import ast

from ..loader import AnalysisError, norm_stmt, walk_own
from ..rules_flow import forwarding
from .common import add_fwd
from .common import check as ob
from ..canon import Canon, localise, each, custom
from ..guards import GuardEval, UNK, dominating_tests, preceding_exits

EXPLANATION = (
    'Decides: (a) every regex scan that enumerates the occurrences of the query in the target passes '
    'overlapped=True (is_subsequence, find_indices, and the reference sibling get_regex_match_indices) -- necessary '
    'for "including overlapping occurrences"; the remaining finditer/findall sites are listed with the reason they '
    'are exempt; (b) ignore_mods travels percent_coverage -> coverage -> find_subsequence_indices and strips both '
    'operands; (c) coverage marks the same half-open range [i, i + len(query)) on the accumulate and the binary '
    'branch; (d) the order-insensitive containment test and count_residues do not edit their arguments (C08). '
    'Not decided: coverage arithmetic, percent in [0,1], multiset containment semantics (value-level).')

PP = 'peptacular.proforma.proforma_parser'
SF = 'peptacular.sequence.sequence_funcs'

# finditer/findall sites that are not occurrence enumerations of one sequence inside another
OVERLAP_EXEMPT = {
    f'{PP}:ProFormaAnnotation.condense_static_mods': 'single-residue patterns cannot overlap',
    'peptacular.fragmentation:get_losses': 'user loss regexes: re.findall counting semantics are the documented '
                                           'behaviour',
    'peptacular.util:get_regex_match_range': 'range helper: the compiled-pattern branch is documented as '
                                             'non-overlapping',
    'peptacular.mods.mod_db_setup:_get_resid_entries': 'OBO text scan',
    'peptacular.mods.mod_db_setup:_get_gno_entries': 'OBO text scan',
    'peptacular.chem.chem_util:_parse_condensed_chem_formula': 'tokeniser: consecutive, non-overlapping tokens by design',
    f'{PP}:parse_charge_adducts': 'tokeniser: consecutive, non-overlapping tokens by design',
}
OVERLAP_REQUIRED = [f'{PP}:ProFormaAnnotation.is_subsequence', f'{PP}:ProFormaAnnotation.find_indices',
                    'peptacular.util:get_regex_match_indices']


def overlapped_rule(ctx, rep, clause):
    program = ctx.program
    n_req = 0
    for f in program.all_functions():
        for node in walk_own(f.node):
            if isinstance(node, ast.Call) and isinstance(node.func, ast.Attribute) and \
                    node.func.attr in ('finditer', 'findall'):
                ov = any(kw.arg == 'overlapped' and isinstance(kw.value, ast.Constant) and kw.value.value is True
                         for kw in node.keywords)
                if f.fq in OVERLAP_REQUIRED:
                    n_req += 1
                    ob(rep, 'CALL-overlapped', f.fq, f'`{norm_stmt(node)[:70]}` enumerates overlapping occurrences', ov,
                       'overlapped=True',
                       f'`{norm_stmt(node)[:70]}` scans without overlapped=True: an occurrence that overlaps the '
                       f'previous match is never reported (e.g. query AA in target AAA is found at 0 only)',
                       f.loc(node), clause)
                elif f.fq in OVERLAP_EXEMPT:
                    rep.ob('CALL-overlapped', f'{f.fq} :: {norm_stmt(node)[:60]}', f.loc(node), True,
                           'reviewed exemption: ' + OVERLAP_EXEMPT[f.fq], False, clause)
                else:
                    ob(rep, 'CALL-overlapped', f.fq, f'new regex scan `{norm_stmt(node)[:70]}`', ov,
                       'overlapped=True', f'a regex enumeration outside the reviewed table without overlapped=True: '
                       f'`{norm_stmt(node)[:70]}`', f.loc(node), clause)
    # a required enumerator may also be written as a str.find loop: it must resume one position after each hit
    for fq in OVERLAP_REQUIRED:
        f = program.func(fq)
        has_re = any(isinstance(n, ast.Call) and isinstance(n.func, ast.Attribute) and n.func.attr in ('finditer', 'findall')
                     for n in walk_own(f.node))
        if has_re:
            continue
        finds = [n for n in walk_own(f.node) if isinstance(n, ast.Call) and isinstance(n.func, ast.Attribute) and
                 n.func.attr in ('find', 'index') and len(n.args) >= 2]
        if not finds:
            raise AnalysisError(f'{fq}: no occurrence enumeration recognised (neither a regex scan nor a find loop)')
        for c in finds:
            n_req += 1
            resume = c.args[1]
            src = norm_stmt(resume)
            if isinstance(resume, ast.Name):
                for a in walk_own(f.node):
                    if isinstance(a, ast.Assign) and any(isinstance(t, ast.Name) and t.id == resume.id for t in a.targets) \
                            and not (isinstance(a.value, ast.Constant)):
                        src = norm_stmt(a.value)
            ok = src.replace(' ', '').endswith('+1') and 'len' not in src and 'size' not in src
            ob(rep, 'CALL-overlapped', fq, f'find loop `{norm_stmt(c)[:60]}` resumes one position after each hit', ok,
               f'resumes at {src}', f'the scan resumes at `{src}`: occurrences that overlap the previous hit are skipped '
               f'(query AA in target AAA is found at 0 only)', f.loc(c), clause)
    rep.floor('CALL-overlapped', 'occurrence-enumerating scans', n_req, 3)


def _roots(c: Canon, e, seen=None) -> set:
    """parameters an expression's value derives from, following the bindings of locals"""
    seen = seen if seen is not None else set()
    out = set()
    for x in ast.walk(e):
        if isinstance(x, ast.Name):
            if c.is_local(x.id):
                if x.id in seen:
                    continue
                seen.add(x.id)
                for kind, payload in c.bindings.get(x.id, []):
                    src = payload if kind in ('assign', 'aug') else payload[0]
                    if isinstance(src, ast.AST):
                        out |= _roots(c, src, seen)
            elif x.id in c.params:
                out.add(x.id)
    return out


def strip_both(ctx, rep, clause):
    """find_subsequence_indices: the *query* searches itself in the *target*, and with ignore_mods both operands of
    that search are the stripped annotations (read under ignore_mods=True: what each operand was last bound to)"""
    from ..guards import specialise
    program = ctx.program
    f = program.func(f'{SF}:find_subsequence_indices')
    c = Canon(f.node)
    search = [x for x in walk_own(f.node) if isinstance(x, ast.Call) and isinstance(x.func, ast.Attribute) and
              x.func.attr == 'find_indices' and len(x.args) == 1]
    if len(search) != 1:
        raise AnalysisError('find_subsequence_indices: the delegating find_indices call was not found')
    recv, arg = search[0].func.value, search[0].args[0]

    def single_root(e):
        # a parameter that is re-bound in place (sequence = sequence.strip()) is its own root
        names = {x.id for x in ast.walk(e) if isinstance(x, ast.Name)}
        r = _roots(c, e) | (names & {'sequence', 'subsequence'})
        return r
    rq, rt_ = single_root(recv), single_root(arg)
    ob(rep, 'SIB-strip-both', f.fq, 'the query searches itself in the target (not the reverse)',
       'subsequence' in rq and 'sequence' not in rq and 'sequence' in rt_ and 'subsequence' not in rt_,
       '<query>.find_indices(<target>)', f'the search is `{norm_stmt(search[0])}`: receiver derives from {sorted(rq)}, '
       f'argument from {sorted(rt_)}', f.loc(search[0]), clause)
    # what the two operands are bound to when ignore_mods is set
    stripped = set()
    for st in specialise(f.node.body, GuardEval({'ignore_mods': True, 'ignore_mods is True': True}, c.aliases())):
        if isinstance(st, ast.Assign) and len(st.targets) == 1:
            pairs = []
            t, v = st.targets[0], st.value
            if isinstance(t, ast.Tuple) and isinstance(v, ast.Tuple) and len(t.elts) == len(v.elts):
                pairs = list(zip(t.elts, v.elts))
            else:
                pairs = [(t, v)]
            for t_, v_ in pairs:
                if not isinstance(t_, ast.Name):
                    continue
                is_strip = isinstance(v_, ast.Call) and isinstance(v_.func, ast.Attribute) and v_.func.attr == 'strip' \
                    and isinstance(v_.func.value, ast.Name) and (v_.func.value.id == t_.id or
                                                                 v_.func.value.id in stripped or True)
                if is_strip:
                    stripped.add(t_.id)
                else:
                    stripped.discard(t_.id)
    names = {norm_stmt(recv), norm_stmt(arg)}
    ob(rep, 'SIB-strip-both', f.fq, 'with ignore_mods both the target and the query are stripped',
       names <= stripped, 'both operands', f'only {sorted(names & stripped)} of {sorted(names)} is stripped under '
       f'ignore_mods: a modified query never equals an unmodified target stretch', f.loc(search[0]), clause)


def early_rejects(ctx, rep, clause):
    """an exit of the search that answers "not found" without looking at the candidate stretches may rely on the
    modification state of the *whole* target only in one case: a modified query in a completely unmodified target.
    An unmodified query still occurs on the unmodified stretches of a modified target (a digested peptide in its
    protein), so the exit guards are decided over {query modified?} x {target modified?}"""
    program = ctx.program
    n = 0
    for fq, q, t in ((f'{SF}:find_subsequence_indices', 'subsequence', 'sequence'),
                     (f'{PP}:ProFormaAnnotation.find_indices', 'self', 'other')):
        f = program.func(fq)
        c = Canon(f.node)
        exits = [x for x in walk_own(f.node) if isinstance(x, ast.Return) and
                 isinstance(x.value, (ast.List, ast.Tuple)) and not x.value.elts]
        for ex in exits:
            tests = list(dominating_tests(f.node, ex)) + [(tt, False) for tt in preceding_exits(f.node.body, ex)]
            reads_mods = any('has_' in norm_stmt(tt) and 'has_sequence' not in norm_stmt(tt) or '_mods' in norm_stmt(tt)
                             for tt, _p in tests)
            n += 1
            bad = None
            if reads_mods:
                for qm in (False, True):
                    for tm in (False, True):
                        if (qm, tm) == (True, False):
                            continue
                        env = {}
                        for who, val in ((q, qm), (t, tm)):
                            for pred in ('has_mods', 'has_internal_mods', 'has_nterm_mods', 'has_cterm_mods',
                                         'has_intervals', 'has_labile_mods', 'has_static_mods', 'has_isotope_mods',
                                         'has_unknown_mods'):
                                env[f'{who}.{pred}()'] = val
                            env[f'{who}.has_sequence()'] = True
                            env[f"{who}.sequence == ''"] = False
                        ge = GuardEval(env, c.aliases())
                        taken = True
                        for tt, pol in tests:
                            v = ge.eval(tt)
                            if v is UNK or bool(v) != pol:
                                taken = False
                        if taken and bad is None:
                            bad = (qm, tm)
            ob(rep, 'SIB-strip-both', fq, f'"not found" exit `{"; ".join(norm_stmt(tt)[:50] for tt, _p in tests)[:110]}` does '
               f'not depend on modifications elsewhere in the target', bad is None,
               'decided over {query modified?} x {target modified?}',
               f'the search answers "not found" without looking when the query is '
               f'{"modified" if bad and bad[0] else "unmodified"} and the target is '
               f'{"modified" if bad and bad[1] else "unmodified"} somewhere: an occurrence on a stretch whose '
               f'modifications do equal the query\'s is never reported (a digested peptide is not found in its protein)',
               f.loc(ex), clause)
    return n


def multiset_kinds(ctx, rep, clause):
    """the order-insensitive containment test works on residue *multisets* (Counters): the size of a multiset
    (sum of its counts) and the size of its support (number of distinct keys, len()) are different kinds and are
    never equated -- a query with a repeated residue has more residues than keys"""
    program = ctx.program
    f = program.func(f'{SF}:is_subsequence')
    c = Canon(f.node)
    counters = {n_ for n_ in c.order if c.is_local(n_) and any(
        kind == 'assign' and isinstance(pl, ast.Call) and norm_stmt(pl.func) in ('count_residues', 'Counter', 'collections.Counter')
        for kind, pl in c.bindings[n_])}
    bad = []
    n = 0
    for x in walk_own(f.node):
        if isinstance(x, ast.Compare) and len(x.ops) == 1:
            sides = [c.resolve(x.left), c.resolve(x.comparators[0])]
            kinds = []
            for sd in sides:
                t = norm_stmt(sd)
                if isinstance(sd, ast.Call) and norm_stmt(sd.func) == 'sum' and '.values()' in t:
                    kinds.append('size')
                elif isinstance(sd, ast.Call) and norm_stmt(sd.func) == 'len' and sd.args and (
                        (isinstance(sd.args[0], ast.Name) and sd.args[0].id in counters) or
                        (isinstance(sd.args[0], ast.Call) and norm_stmt(sd.args[0].func) in ('count_residues', 'Counter'))):
                    kinds.append('support')
                else:
                    kinds.append('?')
            if '?' not in kinds:
                n += 1
            if set(kinds) == {'size', 'support'}:
                bad.append(x)
    ob(rep, 'KIND', f.fq, 'multiset size and support size are not equated in the containment test', not bad,
       f'{len(counters)} Counter local(s)', f'`{norm_stmt(bad[0]) if bad else ""}` compares the number of residues '
       f'(sum of counts) with the number of distinct residues (len of the Counter): a query that repeats a residue is '
       f'wrongly rejected, and one whose repeated residue occurs once in the target wrongly accepted',
       f.loc(bad[0]) if bad else f.loc(), clause)
    if not counters:
        raise AnalysisError('is_subsequence: the residue Counters of the order-insensitive branch were not found')


def _as_slice(c: Canon, sl):
    """(lower, upper) of a[lower:upper] or of a[s] with s = slice(lower, upper)"""
    if isinstance(sl, ast.Slice):
        return sl.lower, sl.upper
    r = c.resolve(sl)
    if isinstance(r, ast.Call) and norm_stmt(r.func) == 'slice' and len(r.args) == 2:
        return r.args[0], r.args[1]
    return None


def coverage_ranges(ctx, rep, clause):
    program = ctx.program

    def returned(c, fnode):
        for n in ast.walk(fnode):
            if isinstance(n, ast.Return) and isinstance(n.value, ast.Name) and c.is_local(n.value.id):
                return n.value.id
        return None
    f = localise(program.func(f'{SF}:coverage'), {'cov_arr': custom(returned), 'subsequence': each('subsequences')})
    c = Canon(f.node)
    targets = []
    for node in walk_own(f.node):
        if isinstance(node, ast.Assign) and isinstance(node.targets[0], ast.Subscript) and \
                norm_stmt(node.targets[0].value) == 'cov_arr' and _as_slice(c, node.targets[0].slice) is not None:
            targets.append(node)

    def bounds(t):
        lo, up = _as_slice(c, t.targets[0].slice)
        return norm_stmt(c.resolve(lo)) if lo is not None else '', norm_stmt(c.resolve(up)) if up is not None else ''
    if len(targets) != 2:
        # the two writes into the coverage array were not found in coverage() itself (moved into writer functions
        # chosen at run time, ...): the rule does not read this form -- not a witness of two different ranges
        raise AnalysisError(f'coverage: expected the two slice writes into the coverage array (accumulate / binary), found '
                            f'{len(targets)}')
    ok = bounds(targets[0]) == bounds(targets[1])
    ob(rep, 'SIB-range', f.fq, 'accumulate and binary branch mark the same range', ok,
       ' : '.join(bounds(targets[0])) if targets else '', 'the two branches write different ranges', f.loc(), clause)
    for i, t in enumerate(targets):
        lo, up = bounds(t)
        ob(rep, 'SIB-range', f.fq, f'range store #{i + 1} marks [i, i + len(query))',
           up in (f'{lo} + sequence_length(subsequence)', f'{lo} + len(subsequence)',
                  f'sequence_length(subsequence) + {lo}', f'len(subsequence) + {lo}'),
           'half-open range of the occurrence', f'marks [{lo}, {up})', f.loc(t), clause)
    # every listed subsequence that fits into the target is searched: a guard that skips the search is decided over
    # the finite set of (query length q, target length n) with 1 <= q <= n
    loop = None
    for node in walk_own(f.node):
        if isinstance(node, ast.For) and norm_stmt(node.iter) == 'subsequences':
            loop = node
    if loop is None:
        raise AnalysisError('coverage: the loop over the listed subsequences was not found')
    search = [x for x in ast.walk(loop) if isinstance(x, ast.Call) and norm_stmt(x.func) == 'find_subsequence_indices']
    if not search:
        raise AnalysisError('coverage: the search call inside the loop was not found')
    tests = list(dominating_tests(loop, search[0])) + [(t, False) for t in preceding_exits(loop.body, search[0])]
    bad = None
    for n_ in range(1, 5):
        for q in range(1, n_ + 1):
            env = {}
            for qa in ('sequence_length(subsequence)', 'len(subsequence)', 'len(subsequence.sequence)'):
                env[qa] = q
            for na in ('len(cov_arr)', 'sequence_length(sequence)', 'len(sequence)', 'len(sequence.sequence)'):
                env[na] = n_
            ge = GuardEval(env, c.aliases())
            for t, pol in tests:
                v = ge.eval(t)
                if v is not UNK and bool(v) != pol and bad is None:
                    bad = (q, n_, norm_stmt(t))
    ob(rep, 'SIB-range', f.fq, 'every listed subsequence that fits into the target is searched', bad is None,
       f'{len(tests)} guard(s) decided for 1 <= len(query) <= len(target) <= 4',
       f'for a query of length {bad[0] if bad else ""} and a target of length {bad[1] if bad else ""} the guard '
       f'`{bad[2] if bad else ""}` skips the search: occurrences of that subsequence are never marked', f.loc(search[0]),
       clause)


def check(ctx, rep):
    rep.explanation = EXPLANATION
    an, program = ctx.analyzer, ctx.program
    overlapped_rule(ctx, rep, 'C16a')
    callers = {f'{SF}:{n}' for n in ('percent_coverage', 'coverage', 'find_subsequence_indices', 'is_subsequence')}
    n = add_fwd(rep, forwarding(an, program, ['ignore_mods', 'accumulate'], callers=callers), 'C16b')
    rep.floor('FWD', 'ignore_mods forwarding sites', n, 2)
    strip_both(ctx, rep, 'C16b')
    early_rejects(ctx, rep, 'C16a')
    coverage_ranges(ctx, rep, 'C16c')
    multiset_kinds(ctx, rep, 'C16d')
    from . import C20 as _c20
    _c20.hash_eq(ctx, rep, 'C16d')
    from . import C20
    C20.empty_vs_absent(ctx, rep, 'C16a')
    for fq in (f'{SF}:is_subsequence', f'{SF}:count_residues', f'{SF}:find_subsequence_indices', f'{SF}:coverage',
               f'{PP}:ProFormaAnnotation.is_subsequence', f'{PP}:ProFormaAnnotation.find_indices',
               f'{PP}:ProFormaAnnotation.count_residues'):
        s = an.summaries.get((fq, ()))
        if s is None:
            raise AnalysisError(f'no summary for {fq}')
        ob(rep, 'EFF-mutates-argument', fq, 'arguments are not written', not s.mutates, 'pure query',
           f'writes parameter index(es) {sorted(s.mutates)}', program.func(fq).loc(), 'C16d')
    from .common import memo_rule, terminus_owner_rule, unmodified_fast_path_rule
    terminus_owner_rule(ctx, rep, 'C16a')
    from .common import shared_rows_rule
    shared_rows_rule(ctx, rep, 'C16c', (SF,))
    unmodified_fast_path_rule(ctx, rep, 'C16d', (PP, SF, 'peptacular.digestion'))
    memo_rule(ctx, rep, 'C16e', ('peptacular.sequence.sequence_funcs', 'peptacular.proforma.proforma_parser'))
