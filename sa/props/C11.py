"""C11 -- reordering and cutting a peptide moves modifications with their residues (structural conditions)."""
import ast
import copy
from typing import Dict, List, Optional, Set, Tuple

from ..loader import AnalysisError, norm_stmt, walk_own, FuncInfo
from ..rules_flow import forwarding
from ..poly import atom, const, padd, pmul, fmt, Poly
from .common import add_fwd
from .common import check as ob
from ..canon import Canon, localise, each, custom
from ..guards import GuardEval, UNK, dominating_tests, preceding_exits

EXPLANATION = (
    'Decides: (a) for every method with an `inplace` switch (slice, shift, shuffle, reverse, sort_residues, '
    'condense_static_mods, strip) the in-place branch applies the same field updates to self as the other branch '
    'applies to the copy, and no value in the in-place branch is read from a field of self after that field was '
    'overwritten in the same branch -- necessary for "inplace in {False, True} giving the same result"; (b) index '
    'kinds: residue-modification keys are mapped as Positions (reverse: n-1-p, slice: p-start filtered by '
    'start <= p < stop, shift: (p-k) mod n) and interval bounds as Boundaries (reverse: start\' = n-end, '
    'end\' = n-start; slice: max(0, b-start)) -- necessary for "intervals still cover the same residues after a '
    'reversal"; (c) each reordering method rewrites the sequence and the residue modifications and leaves global '
    'and terminal fields to the copy (reverse touches the termini only through swap_terms); (d) the non-inplace '
    'forms do not write self and shuffle uses a private generator (C08); (e) the module-level wrappers forward '
    'include_plus / swap_terms / seed / n. Not decided: that the index maps are the right permutations for every '
    'input, slice composition, split-then-join identity, mass invariance.')

PP = 'peptacular.proforma.proforma_parser'
PFA = f'{PP}:ProFormaAnnotation'
TWINS = ['slice', 'shift', 'shuffle', 'reverse', 'sort_residues', 'condense_static_mods', 'strip']


def _inplace_test(test) -> Optional[bool]:
    """True: test means inplace, False: test means not inplace, None: unrelated"""
    if isinstance(test, ast.Name) and test.id == 'inplace':
        return True
    if isinstance(test, ast.UnaryOp) and isinstance(test.op, ast.Not):
        r = _inplace_test(test.operand)
        return None if r is None else not r
    if isinstance(test, ast.Compare) and isinstance(test.left, ast.Name) and test.left.id == 'inplace' and \
            len(test.ops) == 1 and isinstance(test.comparators[0], ast.Constant) and \
            isinstance(test.comparators[0].value, bool):
        v = test.comparators[0].value
        if isinstance(test.ops[0], (ast.Is, ast.Eq)):
            return v
        if isinstance(test.ops[0], (ast.IsNot, ast.NotEq)):
            return not v
    return None


def _strip_copy(e) -> str:
    """value text modulo deepcopy/copy wrappers"""
    while isinstance(e, ast.Call) and norm_stmt(e.func) in ('copy.deepcopy', 'deepcopy', 'copy.copy') and e.args:
        e = e.args[0]
    return norm_stmt(e)


def _updates(stmts, obj: str, cond: Tuple[str, ...] = ()) -> List[Tuple[str, Tuple[str, ...], str, ast.AST]]:
    out = []
    for st in stmts:
        if isinstance(st, ast.Assign) and len(st.targets) == 1 and isinstance(st.targets[0], ast.Attribute) and \
                isinstance(st.targets[0].value, ast.Name) and st.targets[0].value.id == obj:
            out.append((st.targets[0].attr.lstrip('_'), cond, _strip_copy(st.value), st))
        elif isinstance(st, ast.If):
            t = norm_stmt(st.test)
            out += _updates(st.body, obj, cond + (t,))
            out += _updates(st.orelse, obj, cond + ('not ' + t,))
    return out


def twins(ctx, rep, clause):
    program = ctx.program
    cls = program.cls(PFA)
    fields = [n.lstrip('_') for n in cls.field_names()]
    n = 0
    for name in TWINS:
        m = cls.methods.get(name)
        if m is None or m.param('inplace') is None:
            raise AnalysisError(f'anchor method missing: ProFormaAnnotation.{name}(inplace=...)')
        n += 1
        # shape 1: one alias that is either self or a copy -> a single code path
        alias = _alias_shape(m)
        if alias is not None:
            ob(rep, 'SIB-twin', m.fq, f'{name}: both modes run the same statements on one object (self or a copy)', True,
               'single code path', '', m.loc(), clause)
            # when that object is self, a field of self read after it was written through the alias is the new value
            written, bad = set(), []
            started = False
            for st in _linear(m.node.body):
                if isinstance(st, ast.Assign) and any(isinstance(t, ast.Name) and t.id == alias for t in st.targets):
                    started = True
                    continue
                if not started:
                    continue
                src = st.value if isinstance(st, ast.Assign) else (st.test if isinstance(st, ast.If) else st)
                reads = _self_reads(src)
                for x in ast.walk(src) if src is not None else []:
                    if isinstance(x, ast.Attribute) and isinstance(x.value, ast.Name) and x.value.id == alias and \
                            isinstance(x.ctx, ast.Load):
                        reads.add(x.attr.lstrip('_'))
                for r in sorted(reads):
                    if r in written:
                        bad.append((st, r))
                if isinstance(st, ast.Assign) and isinstance(st.targets[0], ast.Attribute) and \
                        isinstance(st.targets[0].value, ast.Name) and st.targets[0].value.id in (alias, 'self'):
                    written.add(st.targets[0].attr.lstrip('_'))
            ob(rep, 'SIB-twin', m.fq, f'{name}: no field is read after it was written through the shared object',
               not bad, 'every read precedes the write of that field',
               f'`{norm_stmt(bad[0][0])[:70]}` reads {bad[0][1]} after it was assigned through the object that is self in '
               f'in-place mode: in that mode the value just written is read back (both termini end up with the same '
               f'modifications), the copy mode still reads the old one' if bad else '', m.loc(bad[0][0]) if bad else
               m.loc(), clause)
            continue
        blocks = []
        for node in walk_own(m.node):
            if isinstance(node, ast.If):
                pol = _inplace_test(node.test)
                if pol is True and node.body and isinstance(node.body[-1], ast.Return):
                    blocks.append(node)
        if not blocks:
            raise AnalysisError(f'{m.fq}: in-place branch not found')
        for blk in blocks:
            # the sibling: statements that follow the in-place block in the same statement list
            parent_list = _containing_list(m.node, blk)
            tail = parent_list[parent_list.index(blk) + 1:]
            a = _updates(blk.body, 'self')
            copy_var = None
            ctor_fields = None
            for st in tail:
                if isinstance(st, ast.Assign) and isinstance(st.targets[0], ast.Name) and \
                        _strip_copy(st.value) == 'self':
                    copy_var = st.targets[0].id
                    ob(rep, 'SIB-twin', m.fq, f'{name}: the other branch works on a copy of self',
                       _strip_copy(st.value) != norm_stmt(st.value), norm_stmt(st),
                       f'`{norm_stmt(st)}` aliases self: the non-inplace form edits the annotation it was called on',
                       m.loc(st), clause)
                if isinstance(st, ast.Return) and isinstance(st.value, ast.Call) and \
                        norm_stmt(st.value.func) == 'ProFormaAnnotation':
                    ctor_fields = {kw.arg.lstrip('_'): _strip_copy(kw.value) for kw in st.value.keywords}
                # a fresh object bound to a local, filled field by field and returned
                if isinstance(st, ast.Assign) and isinstance(st.targets[0], ast.Name) and isinstance(st.value, ast.Call) and \
                        norm_stmt(st.value.func) == 'ProFormaAnnotation' and copy_var is None:
                    ctor_fields = {kw.arg.lstrip('_'): _strip_copy(kw.value) for kw in st.value.keywords}
                    fresh_var = st.targets[0].id
                    for f_, c_, v_, _n in _updates(tail, fresh_var):
                        if not c_:
                            ctor_fields[f_] = v_
            if copy_var is not None:
                b = _updates(tail, copy_var)
            elif ctor_fields is not None:
                # a fresh object: every field not passed takes the dataclass default (None)
                b = [(f, (), ctor_fields.get(f, 'None'), tail[-1]) for f in fields]
                a = a + [(f, (), f'self.{f}', blk) for f in fields if f not in {x[0] for x in a}]
                if _enclosing_test(m.node, blk) == 'not self.has_mods()':
                    # under "no modification present" every other field is None on both sides by the guard
                    a = [x for x in a if x[0] == 'sequence']
                    b = [x for x in b if x[0] == 'sequence']
            else:
                raise AnalysisError(f'{m.fq}: the copy branch after the in-place block is not understood')

            def canon(v: str) -> str:
                return v.replace('self._', 'self.')
            sa = sorted((f, c, canon(v)) for f, c, v, _ in a)
            sb = sorted((f, c, canon(v)) for f, c, v, _ in b)
            ob(rep, 'SIB-twin', m.fq, f'{name}: in-place branch updates the same fields with the same values as the copy '
               f'branch', sa == sb, f'{len(sa)} updates in both',
               f'in-place updates {_diff(sa, sb)} differ from the copy branch: the two modes return different peptides',
               m.loc(blk), clause, {'inplace': sa, 'copy': sb})
            # read-after-overwrite inside the in-place block
            written: Set[str] = set()
            bad = []
            for st in _linear(blk.body):
                reads = _self_reads(st if not isinstance(st, ast.Assign) else st.value) if not isinstance(st, ast.If) \
                    else _self_reads(st.test)
                for r in reads:
                    if r in written:
                        bad.append((st, r))
                if isinstance(st, ast.Assign) and isinstance(st.targets[0], ast.Attribute) and \
                        isinstance(st.targets[0].value, ast.Name) and st.targets[0].value.id == 'self':
                    written.add(st.targets[0].attr.lstrip('_'))
            ob(rep, 'SIB-twin', m.fq, f'{name}: the in-place branch reads no field of self after overwriting it',
               not bad, 'every read of self precedes the overwrite of that field',
               f'`{norm_stmt(bad[0][0])[:60]}` reads self.{bad[0][1]} after the in-place branch has already overwritten '
               f'it: the test/value is computed from the new state while the copy branch uses the old one'
               if bad else '', m.loc(bad[0][0]) if bad else m.loc(blk), clause)
    rep.floor('SIB-twin', 'methods with an inplace switch', n, 7)


def _enclosing_test(fnode, target) -> Optional[str]:
    for node in ast.walk(fnode):
        if isinstance(node, ast.If) and target in node.body:
            return norm_stmt(node.test)
    return None


def _diff(a, b):
    sa, sb = set(a), set(b)
    return f'only in-place: {sorted(sa - sb)}; only copy: {sorted(sb - sa)}'


def _alias_shape(m: FuncInfo) -> Optional[str]:
    """`if inplace is False: x = deepcopy(self) else: x = self` (or the conditional expression form)"""
    cm = Canon(m.node)
    for st in m.node.body:
        if isinstance(st, ast.Assign) and len(st.targets) == 1 and isinstance(st.targets[0], ast.Name) and \
                isinstance(st.value, ast.IfExp) and _inplace_test(cm.resolve(st.value.test)) is not None:
            a, b = st.value.body, st.value.orelse
            pol = _inplace_test(cm.resolve(st.value.test))
            self_arm, copy_arm = (a, b) if pol else (b, a)
            if norm_stmt(self_arm) == 'self' and _strip_copy(copy_arm) == 'self' and norm_stmt(copy_arm) != 'self':
                return st.targets[0].id
        if isinstance(st, ast.If) and _inplace_test(st.test) is not None and len(st.body) == 1 and len(st.orelse) == 1 \
                and isinstance(st.body[0], ast.Assign) and isinstance(st.orelse[0], ast.Assign):
            a, b = st.body[0], st.orelse[0]
            if norm_stmt(a.targets[0]) == norm_stmt(b.targets[0]) and \
                    {_strip_copy(a.value), _strip_copy(b.value)} == {'self'} and \
                    {norm_stmt(a.value) == 'self', norm_stmt(b.value) == 'self'} == {True, False}:
                pol = _inplace_test(st.test)
                self_branch_is_body = norm_stmt(a.value) == 'self'
                if self_branch_is_body == pol:
                    return norm_stmt(a.targets[0])
    return None


def _containing_list(fnode, target):
    for node in ast.walk(fnode):
        for fld in ('body', 'orelse', 'finalbody'):
            lst = getattr(node, fld, None)
            if isinstance(lst, list) and target in lst:
                return lst
    raise AnalysisError('statement list not found')


def _linear(stmts):
    for st in stmts:
        yield st
        if isinstance(st, ast.If):
            yield from _linear(st.body)
            yield from _linear(st.orelse)


def _self_reads(node) -> Set[str]:
    out = set()
    if node is None:
        return out
    for n in ast.walk(node):
        if isinstance(n, ast.Attribute) and isinstance(n.value, ast.Name) and n.value.id == 'self' and \
                isinstance(n.ctx, ast.Load):
            out.add(n.attr.lstrip('_'))
        if isinstance(n, ast.Call) and isinstance(n.func, ast.Name) and n.func.id == 'len' and n.args and \
                isinstance(n.args[0], ast.Name) and n.args[0].id == 'self':
            out.add('sequence')
    return out


# ---------------------------------------------------------------------------------------------------------
def epoly(e) -> Poly:
    """polynomial of an index expression; len(...)/attributes/names are atoms, max(0, x) and x % n are opaque
    wrappers around the polynomial of x"""
    if isinstance(e, ast.Constant) and isinstance(e.value, int) and not isinstance(e.value, bool):
        return const(e.value)
    if isinstance(e, ast.BinOp):
        if isinstance(e.op, ast.Add):
            return padd(epoly(e.left), epoly(e.right))
        if isinstance(e.op, ast.Sub):
            return padd(epoly(e.left), epoly(e.right), -1)
        if isinstance(e.op, ast.Mult):
            return pmul(epoly(e.left), epoly(e.right))
        if isinstance(e.op, ast.Mod):
            return atom(f'({fmt(epoly(e.left))}) mod ({fmt(epoly(e.right))})')
    if isinstance(e, ast.UnaryOp) and isinstance(e.op, ast.USub):
        return pmul(epoly(e.operand), const(-1))
    if isinstance(e, ast.Call) and isinstance(e.func, ast.Name) and e.func.id == 'max' and len(e.args) == 2 and \
            isinstance(e.args[0], ast.Constant) and e.args[0].value == 0:
        return atom(f'max0({fmt(epoly(e.args[1]))})')
    if isinstance(e, ast.Call) and isinstance(e.func, ast.Name) and e.func.id == 'len' and e.args:
        t = norm_stmt(e.args[0])
        if t in ('self.sequence', 'self', 'self._sequence'):
            return atom('len')
    if isinstance(e, ast.IfExp):
        return epoly(e.body)  # `x if b is not None else None`: the value arm
    return atom(norm_stmt(e))


def _assigned(m: FuncInfo, name: str) -> List[ast.AST]:
    out = []
    for n in walk_own(m.node):
        if isinstance(n, ast.Assign) and len(n.targets) == 1 and isinstance(n.targets[0], ast.Name) and \
                n.targets[0].id == name:
            out.append(n)
    return out


class _Rekey:
    """how a method re-keys the residue modifications: `for p, mods in self.internal_mods.items(): D[KEY] = copy(mods)`
    or `{KEY: copy(mods) for p, mods in self.internal_mods.items() if COND}`"""

    def __init__(self, m: FuncInfo):
        self.m = m
        self.key = self.pos = self.node = None
        self.tests: List[Tuple[ast.AST, bool]] = []
        self.exits: List[ast.AST] = []
        self.ordered = False

        def over_mods(it) -> bool:
            t = norm_stmt(it)
            return 'internal_mods' in t and t.endswith('.items()')
        for x in ast.walk(m.node):
            if isinstance(x, ast.DictComp) and len(x.generators) == 1 and over_mods(x.generators[0].iter) and \
                    isinstance(x.generators[0].target, ast.Tuple) and isinstance(x.generators[0].target.elts[0], ast.Name):
                g = x.generators[0]
                self.key, self.pos, self.node = x.key, g.target.elts[0].id, x
                self.tests = [(t, True) for t in g.ifs]
                self.ordered = True   # a comprehension cannot leave early
                return
        for loop in ast.walk(m.node):
            if isinstance(loop, ast.For) and (over_mods(loop.iter) or (
                    isinstance(loop.iter, ast.Call) and norm_stmt(loop.iter.func) == 'sorted' and loop.iter.args and
                    over_mods(loop.iter.args[0]))) and isinstance(loop.target, ast.Tuple) and \
                    isinstance(loop.target.elts[0], ast.Name):
                for node in ast.walk(loop):
                    if isinstance(node, ast.Assign) and isinstance(node.targets[0], ast.Subscript) and \
                            isinstance(node.targets[0].value, ast.Name):
                        self.key, self.pos, self.node = node.targets[0].slice, loop.target.elts[0].id, node
                        self.tests = list(dominating_tests(loop, node)) + [(t, False) for t in
                                                                          preceding_exits(loop.body, node)]
                        self.exits = [y for y in ast.walk(loop) if isinstance(y, (ast.Break, ast.Return))]
                        self.ordered = isinstance(loop.iter, ast.Call) and norm_stmt(loop.iter.func) == 'sorted'
                        return
        raise AnalysisError(f'{m.fq}: the re-keying of the residue modifications (loop or dict comprehension over '
                            f'internal_mods.items()) was not found')


def _interval_ctor(m: FuncInfo):
    """(call, keywords, function node that owns the call, name of the source-interval variable)"""
    for owner in [m.node] + [x for x in ast.walk(m.node) if isinstance(x, ast.FunctionDef) and x is not m.node]:
        for node in walk_own(owner):
            if isinstance(node, ast.Call) and isinstance(node.func, ast.Name) and node.func.id == 'Interval':
                kws = {kw.arg: kw.value for kw in node.keywords}
                if 'start' in kws and 'end' in kws:
                    src = None
                    for kw in ('ambiguous', 'mods', 'start', 'end'):
                        for y in ast.walk(kws.get(kw, ast.Constant(value=None))):
                            if isinstance(y, ast.Attribute) and isinstance(y.value, ast.Name) and \
                                    y.attr in ('ambiguous', 'mods', 'start', 'end'):
                                src = src or y.value.id
                    return node, kws, owner, src
    raise AnalysisError(f'{m.fq}: the Interval(start=..., end=...) construction was not found')


class _Rename(ast.NodeTransformer):
    def __init__(self, mapping):
        self.mapping = mapping

    def visit_Name(self, n):
        return ast.copy_location(ast.Name(id=self.mapping.get(n.id, n.id), ctx=n.ctx), n)


def _values(owner, c: Canon, e, rename) -> List[Tuple[ast.AST, ast.AST]]:
    """(node for the report, expression) pairs an argument can take: the resolved expression, or every plain
    assignment of a local that is bound more than once (tuple swaps and None arms are skipped); position / interval
    variables are spelled `p` / `interval`"""
    def norm(x):
        return _Rename(rename).visit(copy.deepcopy(c.resolve(x)))
    if isinstance(e, ast.Name) and c.is_local(e.id) and c.single_value(e.id) is None:
        out = []
        for node in walk_own(owner):
            if isinstance(node, ast.Assign) and len(node.targets) == 1 and isinstance(node.targets[0], ast.Name) and \
                    node.targets[0].id == e.id:
                if isinstance(node.value, ast.Tuple) or (isinstance(node.value, ast.Constant) and node.value.value is None):
                    continue
                out.append((node, norm(node.value)))
        return out
    return [(e, norm(e))]


def index_kinds(ctx, rep, clause, methods=('reverse', 'slice', 'shift')):
    program = ctx.program
    cls = program.cls(PFA)
    n_ = atom('len')

    def expect(m: FuncInfo, owner, c: Canon, e, rename, want: Poly, what: str, kind: str):
        vals = _values(owner, c, e, rename)
        if not vals:
            raise AnalysisError(f'{m.fq}: no value found for {norm_stmt(e)}')
        for node, val in vals:
            got = epoly(val)
            ob(rep, 'KIND', m.fq, f'{what}: {fmt(want)}', got == want, f'{kind} map',
               f'`{norm_stmt(val)[:90]}` computes {fmt(got)}; a {kind} must be mapped to {fmt(want)}', m.loc(node), clause)

    def interval_exprs(m):
        call, kws, owner, src = _interval_ctor(m)
        # locals of an inner helper are resolved there first, then the enclosing method's (the shift amount, the length)
        c_in = Canon(owner)
        c_out = Canon(m.node)

        class Two:
            def is_local(self_, n):
                return c_in.is_local(n)

            def single_value(self_, n):
                return c_in.single_value(n)

            def resolve(self_, x):
                return c_out.resolve(c_in.resolve(x)) if owner is not m.node else c_in.resolve(x)
        return call, kws, owner, Two(), ({src: 'interval'} if src else {})

    if 'reverse' in methods:
        rev = cls.methods['reverse']
        c = Canon(rev.node)
        rk = _Rekey(rev)
        expect(rev, rev.node, c, rk.key, {rk.pos: 'p'}, padd(padd(n_, atom('p'), -1), const(1), -1),
               'reverse maps a residue Position p to len-1-p', 'Position')
        _call, kws, owner, c2, ren = interval_exprs(rev)
        expect(rev, owner, c2, kws['start'], ren, padd(n_, atom('interval.end'), -1),
               'reverse maps interval Boundaries (s, e) to (len-e, len-s), new start', 'Boundary')
        expect(rev, owner, c2, kws['end'], ren, padd(n_, atom('interval.start'), -1),
               'reverse maps interval Boundaries (s, e) to (len-e, len-s), new end', 'Boundary')
    if 'slice' in methods:
        sl = cls.methods['slice']
        c = Canon(sl.node)
        rk = _Rekey(sl)
        ren = {rk.pos: 'p'}
        key_ok = epoly(_Rename(ren).visit(copy.deepcopy(c.resolve(rk.key)))) == padd(atom('p'), atom('start'), -1)
        ob(rep, 'KIND', sl.fq, 'slice re-bases a residue Position k to k - start', key_ok, 'Position - Boundary',
           'the new key of a residue modification is not k - start', sl.loc(rk.node), clause)
        # the entry is kept for exactly the keys start <= p < stop: decided over a finite set of orderings
        bad = None
        undecided = False
        for pv in range(-1, 6):
            for sv in range(0, 5):
                for ev in range(0, 6):
                    ge = GuardEval({'p': pv, 'start': sv, 'stop': ev}, c.aliases())
                    runs = True
                    for t, pol in rk.tests:
                        v = ge.eval(_Rename(ren).visit(copy.deepcopy(t)))
                        if v is UNK:
                            undecided = True
                            continue
                        if bool(v) != pol:
                            runs = False
                    if runs != (sv <= pv < ev) and bad is None:
                        bad = (pv, sv, ev, runs)
        filt_ok = bad is None and not undecided and bool(rk.tests)
        ob(rep, 'KIND', sl.fq, 'slice keeps exactly the Positions start <= k < stop', filt_ok, 'half-open range',
           'the filter on residue-modification keys is not `start <= k < stop`' +
           (f': for k={bad[0]}, start={bad[1]}, stop={bad[2]} the modification is {"kept" if bad[3] else "dropped"}'
            if bad else ' (a guard could not be decided over k, start, stop)'), sl.loc(rk.node), clause)
        ob(rep, 'KIND', sl.fq, 'slice visits every residue-modification key', not rk.exits or rk.ordered,
           'no early exit from the loop over the (unordered) position map',
           f'the loop over self.internal_mods leaves early (`{norm_stmt(rk.exits[0]) if rk.exits else ""}`): the keys of that '
           f'dict are in insertion order, not residue order (after reverse/shift/add_internal_mod), so modifications '
           f'filed after a larger position are lost from the piece', sl.loc(rk.exits[0]) if rk.exits else sl.loc(rk.node),
           clause)
        call, kws, owner, c2, iren = interval_exprs(sl)
        expect(sl, owner, c2, kws['start'], iren, atom(f'max0({fmt(padd(atom("interval.start"), atom("start"), -1))})'),
               'slice re-bases an interval Boundary b to max(0, b - start), new start', 'Boundary')
        expect(sl, owner, c2, kws['end'], iren, atom(f'max0({fmt(padd(atom("interval.end"), atom("start"), -1))})'),
               'slice re-bases an interval Boundary b to max(0, b - start), new end', 'Boundary')
        # which intervals are kept: the half-open ranges [s, e) and [start, stop) intersect -- the governing tests of
        # the construction (enclosing ifs, or the ifs of the comprehension it sits in)
        gov = [t for t, pol in dominating_tests(sl.node, call) if pol]
        for x in ast.walk(sl.node):
            if isinstance(x, (ast.ListComp, ast.GeneratorExp)) and any(y is call for y in ast.walk(x.elt)):
                gov += [t for g_ in x.generators for t in g_.ifs]
        atoms = set()
        flip = {ast.Lt: '>', ast.Gt: '<', ast.LtE: '>=', ast.GtE: '<='}
        sym = {ast.Lt: '<', ast.Gt: '>', ast.LtE: '<=', ast.GtE: '>='}
        for t in gov:
            t = _Rename(iren).visit(copy.deepcopy(t))
            if not ('interval.start' in norm_stmt(t) or 'interval.end' in norm_stmt(t)):
                continue
            parts = t.values if isinstance(t, ast.BoolOp) and isinstance(t.op, ast.And) else [t]
            for p_ in parts:
                if isinstance(p_, ast.Compare) and len(p_.ops) == 1 and type(p_.ops[0]) in sym:
                    l, r = norm_stmt(p_.left), norm_stmt(p_.comparators[0])
                    if l.startswith('interval.'):
                        atoms.add((l, sym[type(p_.ops[0])], r))
                    elif r.startswith('interval.'):
                        atoms.add((r, flip[type(p_.ops[0])], l))
        ob(rep, 'KIND', sl.fq, 'slice keeps an interval iff [s, e) intersects [start, stop)',
           atoms == {('interval.start', '<', 'stop'), ('interval.end', '>', 'start')}, 'interval.start < stop and '
           'interval.end > start', f'interval filter is {sorted(atoms)}: an interval that only touches the slice at a '
           f'boundary (e == start or s == stop) is carried into the piece as an empty interval with its modifications',
           sl.loc(call), clause)
        cuts = [x for x in walk_own(sl.node) if isinstance(x, ast.Subscript) and isinstance(x.slice, ast.Slice) and
                norm_stmt(x.value) in ('self.sequence', 'self._sequence')]
        ob(rep, 'KIND', sl.fq, 'slice cuts the residues with [start:stop]',
           len(cuts) == 1 and norm_stmt(cuts[0]).endswith('[start:stop]'), 'same half-open range as the keys',
           f'residues are cut with `{norm_stmt(cuts[0]) if cuts else "?"}`', sl.loc(), clause)
    if 'shift' in methods:
        sh = cls.methods['shift']
        c = Canon(sh.node)
        rk = _Rekey(sh)
        amount = atom(f'({fmt(atom("n"))}) mod ({fmt(n_)})')
        expect(sh, sh.node, c, rk.key, {rk.pos: 'p'}, atom(f'({fmt(padd(atom("p"), amount, -1))}) mod ({fmt(n_)})'),
               'shift maps a Position p to (p - n mod len) mod len', 'Position')
        call, kws, owner, c2, iren = interval_exprs(sh)
        expect(sh, owner, c2, kws['start'], iren, atom(f'({fmt(padd(atom("interval.start"), amount, -1))}) mod ({fmt(n_)})'),
               'shift maps the first covered Position s of an interval to (s - n mod len) mod len', 'Position')
        expect(sh, owner, c2, kws['end'], iren,
               padd(atom(f'({fmt(padd(padd(atom("interval.end"), const(1), -1), amount, -1))}) mod ({fmt(n_)})'), const(1)),
               'shift maps the end Boundary e of an interval through its last residue: ((e - 1 - n mod len) mod len) + 1',
               'Boundary')
        swaps = [x for x in ast.walk(sh.node) if isinstance(x, ast.Assign) and isinstance(x.targets[0], ast.Tuple) and
                 isinstance(x.value, ast.Tuple) and len(x.value.elts) == 2 and
                 [norm_stmt(e_) for e_ in x.targets[0].elts] == [norm_stmt(e_) for e_ in reversed(x.value.elts)] and
                 {norm_stmt(e_) for e_ in x.value.elts} == {norm_stmt(kws['start']), norm_stmt(kws['end'])}]
        ob(rep, 'KIND', sh.fq, 'shift does not repair a wrapped interval by exchanging its bounds', not swaps,
           'no start/end exchange', 'an interval that wraps around the end after the rotation gets its start and end '
           'exchanged: the result covers the complementary residues, and shift(k) followed by shift(-k) is not the identity',
           sh.loc(swaps[0]) if swaps else sh.loc(), clause)
        rot = None
        for x in walk_own(sh.node):
            if isinstance(x, ast.BinOp) and isinstance(x.op, ast.Add) and isinstance(x.left, ast.Subscript) and \
                    isinstance(x.right, ast.Subscript) and isinstance(x.left.slice, ast.Slice) and \
                    isinstance(x.right.slice, ast.Slice):
                rot = x
        ok = False
        if rot is not None:
            a, b = rot.left, rot.right
            ok = norm_stmt(a.value) == norm_stmt(b.value) == 'self.sequence' and a.slice.upper is None and \
                b.slice.lower is None and a.slice.lower is not None and b.slice.upper is not None and \
                epoly(c.resolve(a.slice.lower)) == amount and epoly(c.resolve(b.slice.upper)) == amount
        ob(rep, 'KIND', sh.fq, 'shift rotates the residues by the same amount', ok,
           'residue i moves to (i - n mod len) mod len', 'the residue rotation no longer matches the index map', sh.loc(),
           clause)


def rewritten_fields(ctx, rep, clause):
    program = ctx.program
    cls = program.cls(PFA)
    want = {
        'slice': {'sequence', 'internal_mods', 'intervals', 'nterm_mods', 'cterm_mods'},
        'shift': {'sequence', 'internal_mods', 'intervals'},
        'shuffle': {'sequence', 'internal_mods'},
        'reverse': {'sequence', 'internal_mods', 'intervals', 'nterm_mods', 'cterm_mods'},
        'sort_residues': {'sequence', 'internal_mods'},
    }
    for name, fields in want.items():
        m = cls.methods[name]
        got = set()
        for node in walk_own(m.node):
            if isinstance(node, ast.Assign) and isinstance(node.targets[0], ast.Attribute) and \
                    isinstance(node.targets[0].value, ast.Name):
                got.add(node.targets[0].attr.lstrip('_'))
        ob(rep, 'FLD', m.fq, f'{name} rewrites exactly {sorted(fields)}', got == fields, 'global fields are inherited '
           'from the copy', f'rewrites {sorted(got)}: ' + (f'{sorted(fields - got)} would keep stale indices' if
                                                          fields - got else f'{sorted(got - fields)} is a whole-'
                                                          f'peptide field that must stay in place'), m.loc(), clause)
    # terminal modifications: read off what each mode finally assigns, per value of swap_terms (branches pruned under
    # that value, local aliases followed in statement order), so an if/else, an if without else, or a conditional
    # expression are all read alike
    from ..guards import specialise, resolve as gresolve
    rev = cls.methods['reverse']
    got = {}
    for flag in (True, False):
        ge = GuardEval({'swap_terms': flag})
        env = {}
        assigned = {}
        for st in specialise(rev.node.body, ge):
            if isinstance(st, ast.Assign) and len(st.targets) == 1:
                val = gresolve(st.value, GuardEval({'swap_terms': flag}))
                while isinstance(val, ast.Call) and norm_stmt(val.func) in ('copy.deepcopy', 'deepcopy', 'copy.copy') and val.args:
                    val = val.args[0]
                if isinstance(val, ast.Name) and val.id in env:
                    val = env[val.id]
                t = st.targets[0]
                if isinstance(t, ast.Tuple) and isinstance(val, ast.Tuple) and len(t.elts) == len(val.elts):
                    # a, b = (x, y) if flag else (y, x) ; a, b = b, a  -- the right-hand side is read before any target
                    # is written
                    new_vals = [env.get(v_.id, v_) if isinstance(v_, ast.Name) else v_ for v_ in val.elts]
                    for t_, nv in zip(t.elts, new_vals):
                        if isinstance(t_, ast.Name):
                            env[t_.id] = nv
                    continue
                if isinstance(t, ast.Name):
                    env[t.id] = val
                elif isinstance(t, ast.Attribute) and t.attr.lstrip('_') in ('nterm_mods', 'cterm_mods'):
                    src = val.attr.lstrip('_') if isinstance(val, ast.Attribute) and norm_stmt(val.value) == 'self' \
                        else norm_stmt(val)
                    assigned.setdefault(norm_stmt(t.value), {})[t.attr.lstrip('_')] = src
        got[flag] = assigned
    want_swap = {'nterm_mods': 'cterm_mods', 'cterm_mods': 'nterm_mods'}
    ok = bool(got[True]) and all(m_ == want_swap for m_ in got[True].values()) and \
        all(m_ in ({}, {'nterm_mods': 'nterm_mods', 'cterm_mods': 'cterm_mods'}) for m_ in got[False].values())
    ob(rep, 'FLD', rev.fq, 'terminal modifications swap only under swap_terms', ok,
       'swap under the flag, stay otherwise', f'the terminal modifications are not exchanged exactly under swap_terms: '
       f'with the flag {got[True]}, without it {got[False]}', rev.loc(), clause)


def effects(ctx, rep, clause):
    an, program = ctx.analyzer, ctx.program
    cls = program.cls(PFA)
    for name in TWINS + ['split']:
        m = cls.methods[name]
        spec = (('inplace', False),) if m.param('inplace') is not None else ()
        s = an.summaries.get((m.fq, spec))
        if s is None:
            raise AnalysisError(f'no summary for {m.fq} {spec}')
        ob(rep, 'EFF-mutates-argument', m.fq, f'{name}(inplace=False) does not write self', 0 not in s.mutates,
           'works on a copy', f'writes self: {[w.root_stmt for w in s.mutates.get(0, {}).values()][:3]}', m.loc(),
           clause)
        ob(rep, 'EFF-process-rng', m.fq, f'{name} does not use the process-wide random generator', not s.rng,
           'private generator or none', f'{[w.root_stmt for w in s.rng.values()]}', m.loc(), clause)


def check(ctx, rep):
    rep.explanation = EXPLANATION
    an, program = ctx.analyzer, ctx.program
    twins(ctx, rep, 'C11a')
    index_kinds(ctx, rep, 'C11b')
    from . import C01
    C01.marker_order(ctx, rep, 'C11b')
    rewritten_fields(ctx, rep, 'C11c')
    effects(ctx, rep, 'C11d')
    sf = 'peptacular.sequence.sequence_funcs'
    callers = {f'{sf}:{n}' for n in ('reverse', 'shuffle', 'shift', 'sort', 'split', 'span_to_sequence')}
    n = add_fwd(rep, forwarding(an, program, ['include_plus', 'swap_terms', 'seed', 'n'], callers=callers), 'C11e')
    rep.floor('FWD', 'forwarding sites in the reorder wrappers', n, 9)
