"""C15 -- chemical and glycan formulas survive a write/parse round trip and add linearly (structural conditions)."""
import ast
import os
import re as _re
from typing import Set, List, Dict

from ..loader import AnalysisError, norm_stmt, walk_own
from ..consteval import ConstEval
from .common import check as ob
from .common import calls_in
from ..canon import Canon, localise, each, custom

EXPLANATION = (
    'Decides: (a) writer/reader agreement of the formula notation: the writer emits key + count with the key in '
    'brackets iff it starts with a digit or is D/T; every unbracketed key the writer can emit (all element symbols '
    'of the bundled table + e, p, n) is matched whole by the element group of the reader\'s token pattern and its '
    'alphabet is disjoint from the count alphabet; the count language of ints and of decimals with up to 4 places '
    'is inside the reader\'s count group; bracketed components are split off before the condensed pattern sees '
    'them; (b) the "is an isotope key" predicate is the same in the writer (bracketing), in chem_mass (average-mode '
    'exemption) and in the isotope-component parser (D/T shortcut); (c) the token loops of the four formula parsers '
    'accumulate repeated elements instead of overwriting; (d) zero counts are dropped on both writer branches and '
    'chem_mass(str) is chem_mass(parse_chem_formula(str, sep)); (e) glycan components are resolved name then '
    'synonym in both glycan_mass and _glycan_comp and the glycan writer always writes the count. Not decided: '
    'equality of the re-parsed composition for every composition, additivity of float masses.')

CU = 'peptacular.chem.chem_util'


def _isotope_predicate(expr) -> Set[str]:
    """normal form of `x[0].isdigit() or x == 'D' or x == 'T'` (variable names abstracted)"""
    parts = expr.values if isinstance(expr, ast.BoolOp) and isinstance(expr.op, ast.Or) else [expr]
    out = set()
    for p in parts:
        if isinstance(p, ast.Call) and isinstance(p.func, ast.Attribute) and p.func.attr == 'isdigit' and \
                isinstance(p.func.value, ast.Subscript) and isinstance(p.func.value.slice, ast.Constant) and \
                p.func.value.slice.value == 0:
            out.add('first-char-is-digit')
        elif isinstance(p, ast.Compare) and len(p.ops) == 1 and isinstance(p.ops[0], ast.In) and \
                isinstance(p.comparators[0], (ast.Tuple, ast.List, ast.Set)) and \
                all(isinstance(x, ast.Constant) for x in p.comparators[0].elts):
            first = isinstance(p.left, ast.Subscript) and isinstance(p.left.slice, ast.Constant) and p.left.slice.value == 0
            for x in p.comparators[0].elts:   # x in ('D', 'T')  is  x == 'D' or x == 'T'
                out.add(f'first-char=={x.value}' if first else f'=={x.value}')
        elif isinstance(p, ast.Compare) and len(p.ops) == 1 and isinstance(p.ops[0], ast.Eq) and \
                isinstance(p.comparators[0], ast.Constant):
            left = p.left
            if isinstance(left, ast.Subscript) and isinstance(left.slice, ast.Constant) and left.slice.value == 0:
                out.add(f'first-char=={p.comparators[0].value}')
            else:
                out.add(f'=={p.comparators[0].value}')
        else:
            out.add('?' + norm_stmt(p))
    return out


def _returned_name(c, fnode):
    for n in ast.walk(fnode):
        if isinstance(n, ast.Return) and isinstance(n.value, ast.Name) and c.is_local(n.value.id):
            return n.value.id
    return None


def writer_func(program):
    """write_chem_formula with its loop variables spelled k, v and its text accumulator s"""
    return localise(program.func(f'{CU}:write_chem_formula'),
                    {'k': each('composition.items()', (0,)), 'v': each('composition.items()', (1,)),
                     's': custom(_returned_name)})


def writer_scope(ctx):
    """write_chem_formula and the private helpers of chem_util it calls (a helper that writes one component)"""
    an, program = ctx.analyzer, ctx.program
    w = program.func(f'{CU}:write_chem_formula')
    out = [w]
    for r in calls_in(an, w.fq):
        g = r.callee
        if g is not None and g.module.name == CU and g.name.startswith('_') and g.fq not in {x.fq for x in out}:
            out.append(g)
    return out


def _mode_part(v) -> bool:
    """`monoisotopic is True` / `monoisotopic` as one operand of the `or`: the mode, not part of the key predicate"""
    return any(isinstance(x, ast.Name) and x.id == 'monoisotopic' for x in ast.walk(v))


def predicates(ctx, rep, clause):
    program = ctx.program
    w = program.func(f'{CU}:write_chem_formula')
    m = program.func(f'{CU}:chem_mass')
    p = program.func(f'{CU}:_parse_isotope_component')
    found = {}
    for f in writer_scope(ctx) + [m]:
        for n in ast.walk(f.node):
            # the predicate may be an if test, the test of a conditional expression, or a named boolean; nested
            # functions (a private writer helper) are searched too
            if isinstance(n, ast.BoolOp) and isinstance(n.op, ast.Or) and 'isdigit' in norm_stmt(n):
                parts = [v for v in n.values if not (_mode_part(v))]
                found['chem_mass' if f is m else 'write_chem_formula'] = (
                    _isotope_predicate(ast.BoolOp(op=ast.Or(), values=parts) if len(parts) > 1 else parts[0]), n, f)
    for n in walk_own(p.node):
        if isinstance(n, ast.If) and isinstance(n.test, ast.BoolOp) and "'D'" in norm_stmt(n.test) and \
                any(isinstance(s, ast.Return) for s in n.body):
            found[p.name] = (_isotope_predicate(n.test), n, p)
    if set(found) != {'write_chem_formula', 'chem_mass', '_parse_isotope_component'}:
        raise AnalysisError(f'isotope-key predicates found only in {sorted(found)}')
    full = {'first-char-is-digit', '==D', '==T'}
    for name in ('write_chem_formula', 'chem_mass'):
        pred, node, f = found[name]
        ob(rep, 'SIB-predicate', f.fq, f'{name}: isotope-key predicate is (starts with a digit) or D or T', pred == full,
           'same predicate as its siblings', f'predicate is {sorted(pred)}: a key is bracketed by the writer but '
           f'weighed as a plain element (or the reverse)', f.loc(node), clause)
    pred, node, _f = found['_parse_isotope_component']
    ob(rep, 'SIB-predicate', p.fq, 'the D/T shortcut of the isotope-component parser covers D and T',
       pred == {'first-char==D', 'first-char==T'}, 'D and T', f'shortcut is {sorted(pred)}', p.loc(node), clause)
    # the writer brackets under the predicate and only then: the f-string with the [ ] literals is governed by a test
    # that is (an alias of) the predicate, the plain two-value f-string sits on the other arm
    from ..guards import dominating_tests
    _pred, pnode, pf = found['write_chem_formula']
    cpf = Canon(pf.node)
    shapes = {}
    for js in [x for x in ast.walk(pf.node) if isinstance(x, ast.JoinedStr)]:
        lits = ''.join(v.value if isinstance(v, ast.Constant) else '{}' for v in js.values)
        gov = [(cpf.resolve(t), pol) for t, pol in dominating_tests(pf.node, js)]
        under = [pol for t, pol in gov if 'isdigit' in norm_stmt(t)]
        shapes.setdefault(lits, []).append(under[-1] if under else None)
    ok = shapes.get('[{}{}]') == [True] and False in (shapes.get('{}{}') or [])
    ob(rep, 'TOK-formula', w.fq, 'isotope keys are written as [key count], other keys as key count', ok,
       'bracketed iff isotope key', f'f-string shapes and the arm of the predicate they sit on: {shapes}',
       pf.loc(pnode), clause)


def symbols(program) -> List[str]:
    path = os.path.join(program.pkg_dir, 'data', 'chem.txt')
    out = []
    with open(path) as fh:
        for line in fh:
            if line.startswith('Atomic Symbol'):
                s = line.split('=')[1].strip()
                if s not in out:
                    out.append(s)
    return out


def valid_keys(program) -> Set[str]:
    """every key the mass tables know: symbols, <mass number><symbol>, and the literal aliases the table builder adds"""
    path = os.path.join(program.pkg_dir, 'data', 'chem.txt')
    out, sym = set(), None
    with open(path) as fh:
        for line in fh:
            if line.startswith('Atomic Symbol'):
                sym = line.split('=')[1].strip()
                out.add(sym)
            elif line.startswith('Mass Number') and sym:
                out.add(line.split('=')[1].strip() + sym)
    try:
        f = program.func('peptacular.element_setup:get_isotopic_atomic_masses')
        for x in walk_own(f.node):
            if isinstance(x, ast.Assign) and isinstance(x.targets[0], ast.Subscript) and \
                    isinstance(x.targets[0].slice, ast.Constant) and isinstance(x.targets[0].slice.value, str):
                out.add(x.targets[0].slice.value)
    except KeyError:
        pass
    return out


def token_language(ctx, rep, clause):
    program = ctx.program
    ce = ConstEval(program)
    cond = ce.value('constants', 'CONDENSED_CHEM_FORMULA_PATTERN')
    iso = ce.value('constants', 'ISOTOPE_COMPONENT_PATTERN')
    if not (isinstance(cond, tuple) and cond[0] == 'regex') or not (isinstance(iso, tuple) and iso[0] == 'regex'):
        raise AnalysisError('formula token patterns are not literal regex.compile(...) calls')
    import re
    try:
        rc, ri = re.compile(cond[1]), re.compile(iso[1])
    except re.error as e:
        raise AnalysisError(f'token pattern not understood by the stdlib regex parser: {e}')
    syms = symbols(program)
    if len(syms) < 100:
        raise AnalysisError(f'only {len(syms)} element symbols read from chem.txt')
    keys = [s for s in syms if not (s[0].isdigit() or s in ('D', 'T'))] + ['e', 'p', 'n']
    bad = []
    for k in keys:
        # the reader tokenises key+count; the key must be matched whole by group 1 when followed by a count
        for cnt in ('1', '-2', '0.5', '12'):
            m = rc.match(k + cnt)
            if not m or m.group(1) != k or m.group(2) != cnt:
                bad.append((k, cnt, m.groups() if m else None))
    ob(rep, 'TOK-formula', 'peptacular.constants', f'every unbracketed key the writer can emit ({len(keys)} symbols) is '
       f'tokenised whole by CONDENSED_CHEM_FORMULA_PATTERN', not bad, 'element group matches each symbol exactly',
       f'mis-tokenised: {bad[:4]}: such a composition does not survive write -> parse', program.module('constants').relpath,
       clause)
    # two adjacent components stay two components: the reader must not glue the electron key `e` (or any key) and its
    # count onto the count of the component before it (exponent notation is not part of the count language)
    glued = []
    for k1 in ('C', 'Cl', 'Se', 'H'):
        for c1 in ('6', '0.5', '12'):
            for k2 in ('e', 'p', 'n', 'C', 'O'):
                for c2 in ('-12', '2', '-1.5', '10'):
                    if k1 == k2:
                        continue
                    toks = [(m.group(1), m.group(2)) for m in rc.finditer(k1 + c1 + k2 + c2) if m.group(0)]
                    if toks != [(k1, c1), (k2, c2)] and len(glued) < 4:
                        glued.append((k1 + c1 + k2 + c2, toks))
    ob(rep, 'TOK-formula', 'peptacular.constants', 'two adjacent components are tokenised as two components', not glued,
       '240 pairs of (key, count)(key, count) checked against CONDENSED_CHEM_FORMULA_PATTERN',
       f'mis-tokenised pairs: {glued[:3]}: what the writer emits for such a composition parses back to another one',
       program.module('constants').relpath, clause)
    # count language: ints and decimals with <= 4 places, no exponent form
    counts = ['1', '-1', '500', '-200', '0.5', '-0.0001', '12.3456', '3.0']
    badc = [c for c in counts if not rc.fullmatch('C' + c) or rc.fullmatch('C' + c).group(2) != c or
            not ri.fullmatch('13C' + c) or ri.fullmatch('13C' + c).group(3) != c]
    ob(rep, 'TOK-formula', 'peptacular.constants', 'the count forms the writer produces are inside the reader\'s count group',
       not badc, 'signed ints and plain decimals', f'not matched: {badc}', program.module('constants').relpath, clause)
    # count alphabet vs element alphabet
    alpha = set(''.join(keys))
    ob(rep, 'TOK-formula', 'peptacular.constants', 'element alphabet and count alphabet are disjoint',
       not (alpha & set('0123456789.-')), 'letters vs digits/sign/point', f'overlap: {sorted(alpha & set("0123456789.-"))}',
       program.module('constants').relpath, clause)
    # the writer never produces exponent notation through precision rounding of floats it formats with f'{v}'
    w = program.func(f'{CU}:write_chem_formula')
    # brackets are split off first
    pc = localise(program.func(f'{CU}:parse_chem_formula'), {'component': each('_split_chem_formula(formula)')})
    txt = ' '.join(norm_stmt(s) for s in ast.walk(pc.node) if isinstance(s, (ast.For, ast.If)))
    ok = '_split_chem_formula(formula)' in txt and "component.startswith('[')" in txt and \
        '_parse_isotope_component(component[1:-1])' in txt and '_parse_condensed_chem_formula(component)' in txt
    ob(rep, 'TOK-formula', pc.fq, 'bracketed components go to the isotope parser, the rest to the condensed parser',
       ok, 'split first, then dispatch on the leading bracket', 'the dispatch between bracketed and condensed components '
       'changed', pc.loc(), clause)
    def _cursor(c, fnode):
        for n in ast.walk(fnode):
            if isinstance(n, ast.While) and isinstance(n.test, ast.Compare) and isinstance(n.test.left, ast.Name) and \
                    norm_stmt(n.test.comparators[0]) == 'len(formula)':
                return n.test.left.id
        return None

    def _start(c, fnode):
        for n in ast.walk(fnode):
            if isinstance(n, ast.Call) and isinstance(n.func, ast.Attribute) and n.func.attr == 'index' and \
                    len(n.args) == 2 and isinstance(n.args[1], ast.Name):
                return n.args[1].id
        return None
    sp = localise(program.func(f'{CU}:_split_chem_formula'), {'i': custom(_cursor), 'component_start': custom(_start)})
    stxt = ' '.join(norm_stmt(s) for s in ast.walk(sp.node) if isinstance(s, (ast.If, ast.While, ast.Assign)))
    # the plain stretch ends at the first bracket of either kind: a membership test of one character of the formula
    # against exactly the two brackets (scanned with `not in`, or searched for with `in`)
    _spf = program.func(f'{CU}:_split_chem_formula')
    both = any(isinstance(x, ast.Compare) and len(x.ops) == 1 and isinstance(x.ops[0], (ast.In, ast.NotIn)) and
               isinstance(x.comparators[0], (ast.Constant, ast.Tuple, ast.List, ast.Set)) and
               (set(x.comparators[0].value) if isinstance(x.comparators[0], ast.Constant) and
                isinstance(x.comparators[0].value, str) else
                {e.value for e in getattr(x.comparators[0], 'elts', []) if isinstance(e, ast.Constant)}) == {'[', ']'} and
               isinstance(x.left, ast.Subscript) and norm_stmt(x.left.value) == 'formula'
               for x in ast.walk(_spf.node))
    cursor_ = _cursor(None, program.func(f'{CU}:_split_chem_formula').node)
    opens = any(isinstance(x, ast.Compare) and len(x.ops) == 1 and isinstance(x.ops[0], ast.Eq) and
                isinstance(x.left, ast.Subscript) and norm_stmt(x.left.value) == 'formula' and
                isinstance(x.left.slice, ast.Name) and x.left.slice.id in (cursor_, 'i') and
                isinstance(x.comparators[0], ast.Constant) and x.comparators[0].value == '['
                for x in ast.walk(_spf.node))
    closes = any(isinstance(x, ast.Call) and isinstance(x.func, ast.Attribute) and x.func.attr == 'index' and
                 norm_stmt(x.func.value) == 'formula' and len(x.args) == 2 and isinstance(x.args[0], ast.Constant) and
                 x.args[0].value == ']' and isinstance(x.args[1], ast.Name) for x in ast.walk(_spf.node))
    ok = opens and closes and both
    ob(rep, 'TOK-formula', sp.fq, 'components are delimited by [ and the next ]', ok, 'bracket-delimited',
       'the component splitter no longer cuts at the brackets', sp.loc(), clause)


def accumulate(ctx, rep, clause):
    program = ctx.program
    n = 0
    for fname, var_hint in (('parse_chem_formula', None), ('_parse_condensed_chem_formula', None),
                            ('_parse_isotope_component', None), ('_parse_split_chem_formula', None)):
        f = program.func(f'{CU}:{fname}')
        ret = [x for x in walk_own(f.node) if isinstance(x, ast.Return) and isinstance(x.value, ast.Name)]
        names = {r.value.id for r in ret}
        stores = []
        for x in walk_own(f.node):
            tgt = None
            if isinstance(x, ast.Assign) and isinstance(x.targets[0], ast.Subscript) and \
                    isinstance(x.targets[0].value, ast.Name) and x.targets[0].value.id in names:
                tgt = x
            if isinstance(x, ast.AugAssign) and isinstance(x.target, ast.Subscript) and \
                    isinstance(x.target.value, ast.Name) and x.target.value.id in names:
                tgt = x
            if tgt is not None:
                stores.append(tgt)
        for x in walk_own(f.node):
            if isinstance(x, ast.Call) and isinstance(x.func, ast.Attribute) and x.func.attr == 'update' and \
                    isinstance(x.func.value, ast.Name) and x.func.value.id in names:
                n += 1
                ob(rep, 'ACC', f.fq, f'`{norm_stmt(x)}` accumulates', False, '',
                   f'`{norm_stmt(x)}` overwrites counts already collected for the same element: parsing is no longer '
                   f'additive across components (C2[13C]C3 would have 3 carbons)', f.loc(x), clause)
                stores.append(x)
        if not stores:
            raise AnalysisError(f'{fname}: no store into the result dictionary found')
        for st in stores:
            if isinstance(st, ast.Call):
                continue
            n += 1
            if isinstance(st, ast.AugAssign):
                ok = isinstance(st.op, ast.Add)
            else:
                v = norm_stmt(st.value)
                d = norm_stmt(st.targets[0].value)
                k = norm_stmt(st.targets[0].slice)
                ok = f'{d}.get({k}, 0) +' in v or _under_not_in(f, st, d, k)
            ob(rep, 'ACC', f.fq, f'`{norm_stmt(st)}` accumulates', ok, 'repeated elements add up',
               f'`{norm_stmt(st)}` overwrites an earlier count of the same element: parsing is no longer additive '
               f'(C2C3 would have 3 carbons)', f.loc(st), clause)
    rep.floor('ACC', 'stores into formula result dictionaries', n, 5)


_CASE_METHODS = {'upper': str.upper, 'lower': str.lower, 'capitalize': str.capitalize, 'swapcase': str.swapcase,
                 'casefold': str.casefold}


def verbatim_keys(ctx, rep, clause):
    """the key a component is stored under is the text that was matched: on its way from the match to the store it
    passes through no spelling table and no case conversion that changes a valid element / isotope symbol.  (The writer
    emits every key verbatim, so a parser that re-spells `2H` as `D` cannot give the composition back.)"""
    program = ctx.program
    valid = valid_keys(program)
    mod = program.module(CU)
    top: Dict[str, ast.AST] = {}
    for st in mod.tree.body:
        if isinstance(st, ast.Assign) and len(st.targets) == 1 and isinstance(st.targets[0], ast.Name):
            top[st.targets[0].id] = st.value
        elif isinstance(st, ast.AnnAssign) and isinstance(st.target, ast.Name) and st.value is not None:
            top[st.target.id] = st.value
    n = 0
    for fname in ('parse_chem_formula', '_parse_condensed_chem_formula', '_parse_isotope_component',
                  '_parse_split_chem_formula'):
        f = program.func(f'{CU}:{fname}')
        ret = {r.value.id for r in walk_own(f.node) if isinstance(r, ast.Return) and isinstance(r.value, ast.Name)}
        defs: Dict[str, List[ast.AST]] = {}
        for x in walk_own(f.node):
            if isinstance(x, ast.Assign):
                for t in x.targets:
                    if isinstance(t, ast.Name):
                        defs.setdefault(t.id, []).append(x.value)
            elif isinstance(x, ast.AugAssign) and isinstance(x.target, ast.Name):
                defs.setdefault(x.target.id, []).append(x.value)
            elif isinstance(x, ast.AnnAssign) and isinstance(x.target, ast.Name) and x.value is not None:
                defs.setdefault(x.target.id, []).append(x.value)
        keys = []
        for x in walk_own(f.node):
            if isinstance(x, ast.Assign) and isinstance(x.targets[0], ast.Subscript) and \
                    isinstance(x.targets[0].value, ast.Name) and x.targets[0].value.id in ret:
                keys.append((x, x.targets[0].slice))
            elif isinstance(x, ast.AugAssign) and isinstance(x.target, ast.Subscript) and \
                    isinstance(x.target.value, ast.Name) and x.target.value.id in ret:
                keys.append((x, x.target.slice))
            elif isinstance(x, ast.Call) and isinstance(x.func, ast.Attribute) and x.func.attr == 'setdefault' and \
                    isinstance(x.func.value, ast.Name) and x.func.value.id in ret and x.args:
                keys.append((x, x.args[0]))
        for site, key in keys:
            # definition closure of the key expression
            exprs, seen, work = [key], set(), [key]
            while work:
                e = work.pop()
                for y in ast.walk(e):
                    if isinstance(y, ast.Name) and y.id in defs and y.id not in seen and y.id not in ret:
                        seen.add(y.id)
                        exprs += defs[y.id]
                        work += defs[y.id]
            bad = None
            for e in exprs:
                for y in ast.walk(e):
                    table = None
                    if isinstance(y, ast.Call) and isinstance(y.func, ast.Attribute) and y.func.attr == 'get' and y.args:
                        table = y.func.value
                    elif isinstance(y, ast.Subscript) and isinstance(y.value, ast.Name) and y.value.id not in ret:
                        table = y.value
                    if table is not None:
                        lit = table
                        if isinstance(lit, ast.Name):
                            lit = (defs.get(lit.id) or [None])[0] if lit.id in defs and len(defs[lit.id]) == 1 else \
                                top.get(lit.id)
                        if isinstance(lit, ast.Dict) and all(isinstance(k, ast.Constant) and isinstance(v, ast.Constant)
                                                            for k, v in zip(lit.keys, lit.values)):
                            moved = [(k.value, v.value) for k, v in zip(lit.keys, lit.values)
                                     if k.value in valid and v.value != k.value]
                            if moved:
                                bad = f'`{norm_stmt(y)[:70]}` re-spells the valid symbol {moved[0][0]!r} as {moved[0][1]!r}'
                    if isinstance(y, ast.Call) and isinstance(y.func, ast.Attribute) and y.func.attr in _CASE_METHODS \
                            and not y.args:
                        moved = sorted(v for v in valid if _CASE_METHODS[y.func.attr](v) != v)
                        if moved:
                            bad = f'`{norm_stmt(y)[:70]}` changes the valid symbol {moved[0]!r}'
                    if isinstance(y, ast.Call) and isinstance(y.func, ast.Attribute) and y.func.attr == 'replace' and \
                            len(y.args) >= 2 and all(isinstance(a, ast.Constant) and isinstance(a.value, str)
                                                     for a in y.args[:2]) and y.args[0].value:
                        moved = sorted(v for v in valid if y.args[0].value in v and y.args[0].value != y.args[1].value)
                        if moved:
                            bad = f'`{norm_stmt(y)[:70]}` changes the valid symbol {moved[0]!r}'
            n += 1
            ob(rep, 'PROV', f.fq, f'`{norm_stmt(site)[:60]}`: the key is the matched text', bad is None,
               'no spelling table or case conversion between the match and the store',
               f'{bad}: the writer emits that key verbatim, so writing a composition that holds it and parsing the '
               f'string back gives a different composition (and two distinct keys are merged into one)',
               f.loc(site), clause)
    rep.floor('PROV', 'component keys followed from the store back to the match', n, 5)


def _under_not_in(f, st, d, k) -> bool:
    """`if k in d: d[k] += v else: d[k] = v`  -- the plain store is on the branch where the key is absent"""
    for n in walk_own(f.node):
        if isinstance(n, ast.If) and norm_stmt(n.test) == f'{k} in {d}' and st in n.orelse:
            return True
        if isinstance(n, ast.If) and norm_stmt(n.test) == f'{k} not in {d}' and st in n.body:
            return True
    return False


def writer_and_mass(ctx, rep, clause):
    program = ctx.program
    w = program.func(f'{CU}:write_chem_formula')
    # every place that emits components filters on the count: a comprehension `if` or a guard in the loop compares
    # the count (second element of the iterated pairs) with 0
    import re as _re
    cw = Canon(w.node)
    helper_names = {g_.name for g_ in writer_scope(ctx) if g_.fq != w.fq}
    emitters = []
    for x in walk_own(w.node):
        if isinstance(x, (ast.ListComp, ast.GeneratorExp)) and any(
                isinstance(y, ast.JoinedStr) or (isinstance(y, ast.Call) and isinstance(y.func, ast.Name) and
                                                 y.func.id in helper_names) for y in ast.walk(x.elt)):
            emitters.append(('comprehension', ' '.join(cw.text(i_) for g_ in x.generators for i_ in g_.ifs), x))
        if isinstance(x, ast.For) and any(isinstance(y, ast.AugAssign) for y in ast.walk(x)):
            emitters.append(('loop', ' '.join(cw.text(y.test) for y in ast.walk(x) if isinstance(y, ast.If)), x))
    flt = _re.compile(r'each\([^)]*\)\.1 (!=|==) 0|(!=|==) 0')
    bad = [e for e in emitters if not flt.search(e[1])]
    ob(rep, 'TOK-formula', w.fq, 'zero counts are dropped on the separated and on the condensed branch',
       len(emitters) >= 2 and not bad, f'{len(emitters)} emitting sites, all filtered on count != 0',
       f'an emitting {bad[0][0] if bad else "site"} writes components without filtering zero counts (or fewer than two '
       f'emitting sites were recognised: {len(emitters)})', w.loc(bad[0][2]) if bad else w.loc(), clause)
    m = program.func(f'{CU}:chem_mass')
    ok = any(isinstance(n, ast.If) and norm_stmt(n.test) == 'isinstance(formula, str)' and
             norm_stmt(n.body[0]) == 'formula = parse_chem_formula(formula, sep)' for n in walk_own(m.node))
    ob(rep, 'TOK-formula', m.fq, 'chem_mass(str) is chem_mass(parse_chem_formula(str, sep))', ok, 'by construction',
       'the string form is no longer parsed with the caller\'s separator', m.loc(), clause)
    g = localise(program.func('peptacular.glycan:write_glycan_formula'),
                 {'component': each('glycan_dict.items()', (0,)), 'count': each('glycan_dict.items()', (1,))})
    ok = "f'{component}{sep}{count}'" in ' '.join(norm_stmt(s) for s in g.node.body)
    ob(rep, 'TOK-formula', g.fq, 'the glycan writer always writes the count', ok, 'name + count',
       'counts of 1 are omitted or the form changed', g.loc(), clause)


def glycan_tokenizer(ctx, rep, clause):
    """the glycan tokenizer matches the longest known name at the cursor; it must not rewrite the formula in a way
    that destroys a character some bundled name contains (data fact: names and synonyms of the monosaccharide table)"""
    import re as _re
    program = ctx.program
    names = set()
    with open(os.path.join(program.pkg_dir, 'data', 'monosaccharides_updated.obo')) as fh:
        for line in fh:
            if line.startswith('name: '):
                names.add(line[len('name: '):].strip())
            elif line.startswith('synonym: '):
                m = _re.search(r'"([^"]+)"', line)
                if m:
                    names.add(m.group(1))
    if len(names) < 20:
        raise AnalysisError('monosaccharide names not read')
    f = program.func('peptacular.mods.mod_db_setup:_parse_glycan_formula')
    k = 0
    for n in walk_own(f.node):
        if isinstance(n, ast.Call) and isinstance(n.func, ast.Attribute) and n.func.attr in ('replace', 'strip', 'translate') \
                and n.args and isinstance(n.args[0], ast.Constant) and isinstance(n.args[0].value, str):
            k += 1
            ch = n.args[0].value
            hit = sorted(x for x in names if ch and ch in x)
            ob(rep, 'TOK-glycan', f.fq, f'`{norm_stmt(n)[:60]}` does not destroy a character of a known name', not hit,
               'no bundled name contains it', f'`{norm_stmt(n)[:60]}` removes {ch!r}, which occurs in the bundled '
               f'name(s) {hit[:3]}: a glycan written with such a name no longer parses to what it was written from',
               f.loc(n), clause)
    longest = any('names_sorted' in norm_stmt(n.iter) for n in ast.walk(f.node) if isinstance(n, (ast.For, ast.comprehension)))
    ob(rep, 'TOK-glycan', f.fq, 'names are tried longest first', longest, 'MONOSACCHARIDES_DB.names_sorted',
       'the tokenizer no longer iterates the length-sorted name list: a short name would shadow a longer one', f.loc(),
       clause)
    g = program.func('peptacular.mods.mod_db_setup:EntryDb._get_names_sorted')
    txt = ' '.join(Canon(g.node).text(s) for s in g.node.body)
    ob(rep, 'TOK-glycan', g.fq, 'the name list is sorted by length, descending',
       'key=lambda arg0: len(arg0), reverse=True' in txt or 'key=len, reverse=True' in txt,
       'longest match first', 'the name list is not sorted longest-first', g.loc(), clause)


def separator_literal(ctx, rep, clause):
    """the separator is an arbitrary string chosen by the caller ('|' is documented): it may be handed to str.split /
    str.join / f-strings / comparisons / a callee's own sep parameter, never to a regular expression unescaped"""
    program = ctx.program
    n = 0
    for f in program.all_functions():
        if f.module.name not in (CU, 'peptacular.glycan', 'peptacular.chem.chem_calc') or f.param('sep') is None:
            continue
        parents = {}
        for node in ast.walk(f.node):
            for ch in ast.iter_child_nodes(node):
                parents[id(ch)] = node
        for x in ast.walk(f.node):
            if not (isinstance(x, ast.Name) and x.id == 'sep' and isinstance(x.ctx, ast.Load)):
                continue
            n += 1
            cur, escaped, regex_call = x, False, None
            while id(cur) in parents:
                cur = parents[id(cur)]
                if isinstance(cur, ast.Call):
                    fn = norm_stmt(cur.func)
                    if fn in ('re.escape', 'regex.escape'):
                        escaped = True
                    elif fn.split('.')[0] in ('re', 'regex') and '.' in fn:
                        regex_call = cur
                        break
                if isinstance(cur, ast.stmt):
                    break
            ob(rep, 'CALL-literal', f.fq, f'the separator is used literally', regex_call is None or escaped,
               'split / join / formatting', f'`{norm_stmt(regex_call)[:80] if regex_call is not None else ""}` puts the '
               f"caller's separator into a regular expression without re.escape: for sep='|' (or '.', '+', ...) the "
               f'pattern means something else and the written formula no longer parses back', f.loc(x), clause)
    rep.floor('CALL-literal', 'uses of a sep parameter in the formula modules', n, 4)


def fresh_count_per_component(ctx, rep, clause):
    """the count added for a component is bound anew in every iteration of the component loop (on every path), so a
    component written without a count cannot inherit the count of the component before it"""
    from ..guards import assigned_on_every_path
    program = ctx.program
    k = 0
    for fname in ('_parse_condensed_chem_formula', '_parse_split_chem_formula'):
        f = program.func(f'{CU}:{fname}')
        c = Canon(f.node)
        for loop in [x for x in walk_own(f.node) if isinstance(x, (ast.For, ast.While))]:
            for st in ast.walk(loop):
                tgt = None
                if isinstance(st, ast.AugAssign) and isinstance(st.target, ast.Subscript) and isinstance(st.op, ast.Add):
                    tgt, val = st.target, st.value
                elif isinstance(st, ast.Assign) and isinstance(st.targets[0], ast.Subscript) and \
                        isinstance(st.value, ast.BinOp) and isinstance(st.value.op, ast.Add):
                    tgt, val = st.targets[0], st.value
                if tgt is None:
                    continue
                d = norm_stmt(tgt.value)
                addends = {y.id for y in ast.walk(val) if isinstance(y, ast.Name) and c.is_local(y.id) and y.id != d
                           and y.id not in {z.id for z in ast.walk(tgt.slice) if isinstance(z, ast.Name)}}
                for name in sorted(addends):
                    # only loops that contain the store directly (innermost) are judged
                    inner = [l for l in ast.walk(loop) if isinstance(l, (ast.For, ast.While)) and l is not loop and
                             any(z is st for z in ast.walk(l))]
                    if inner:
                        continue
                    k += 1
                    ok = assigned_on_every_path(loop.body, name, st)
                    ob(rep, 'ACC', f.fq, f'the count added by `{c.text(st)[:60]}` is bound in the same iteration on every path',
                       ok is True, 'definitely assigned before the store',
                       f'`{name}` is added to the composition but some path through the loop body reaches the store '
                       f'without binding it: the value of the previous component is used (a symbol written without a '
                       f'count inherits the count before it: C2H2O -> O2)', f.loc(st), clause)
    rep.floor('ACC', 'count addends in the component loops', k, 1)


def explicit_zero(ctx, rep, clause):
    """an omitted count means 1; a written count of 0 means 0 (the bundled monosaccharide table writes H0O3S1).
    The default therefore has to be decided on the count *text*, never on the truthiness of the converted number"""
    import re as _re
    program = ctx.program
    zero_in_data = []
    with open(os.path.join(program.pkg_dir, 'data', 'monosaccharides_updated.obo')) as fh:
        for line in fh:
            m = _re.search(r'has_chemical_formula "([^"]+)"', line)
            if m and _re.search(r'[A-Za-z]0(?![0-9.])', m.group(1)):
                zero_in_data.append(m.group(1))
    n = 0
    for fname in ('_parse_condensed_chem_formula', '_parse_isotope_component', '_parse_split_chem_formula'):
        f = program.func(f'{CU}:{fname}')
        for x in walk_own(f.node):
            if isinstance(x, ast.BoolOp) and isinstance(x.op, ast.Or) and \
                    any(isinstance(c, ast.Call) and norm_stmt(c.func) in ('convert_type', 'int', 'float')
                        for c in ast.walk(x.values[0])) and isinstance(x.values[-1], ast.Constant) and \
                    isinstance(x.values[-1].value, (int, float)):
                n += 1
                ob(rep, 'TOK-formula', f.fq, 'the default count is chosen by the presence of the count text', False, '',
                   f'`{norm_stmt(x)}` replaces every falsy count by {x.values[-1].value}: an explicit 0 '
                   f'(bundled data: {zero_in_data[:2]}) is read as {x.values[-1].value}, so the composition is no longer '
                   f'the count-weighted sum', f.loc(x), clause)
        for x in walk_own(f.node):
            if isinstance(x, ast.IfExp) and any(isinstance(c, ast.Call) and norm_stmt(c.func) == 'convert_type'
                                               for c in ast.walk(x.body)):
                n += 1
                # the test must look at the same text that is converted
                conv = [c for c in ast.walk(x.body) if isinstance(c, ast.Call) and norm_stmt(c.func) == 'convert_type'][0]
                txt_ = norm_stmt(conv.args[0]) if conv.args else None
                t_ = norm_stmt(x.test)
                # a presence test of the very text that is converted: truthiness, != '', is not None, len(..) > 0
                same = txt_ is not None and t_ in (txt_, f"{txt_} != ''", f"'' != {txt_}", f'{txt_} is not None',
                                                   f'len({txt_}) > 0', f'len({txt_}) != 0', f'bool({txt_})')
                ob(rep, 'TOK-formula', f.fq, f'`{norm_stmt(x)[:70]}`: the default applies iff the count text is empty',
                   bool(same), 'tested on the text', f'the default is chosen by `{norm_stmt(x.test)}`, which is not the '
                   f'text being converted', f.loc(x), clause)
    rep.floor('TOK-formula', 'count defaults in the formula parsers', n, 1)
    fresh_count_per_component(ctx, rep, clause)


def check(ctx, rep):
    rep.explanation = EXPLANATION
    separator_literal(ctx, rep, 'C15a')
    explicit_zero(ctx, rep, 'C15c')
    token_language(ctx, rep, 'C15a')
    predicates(ctx, rep, 'C15b')
    accumulate(ctx, rep, 'C15c')
    verbatim_keys(ctx, rep, 'C15a')
    writer_and_mass(ctx, rep, 'C15d')
    glycan_tokenizer(ctx, rep, 'C15e')
    from .common import value_preserving_rule, self_accumulation_rule
    value_preserving_rule(ctx, rep, 'C15d', ('peptacular.chem.chem_util', 'peptacular.chem.chem_calc', 'peptacular.glycan'))
    self_accumulation_rule(ctx, rep, 'C15c', ('peptacular.chem.chem_util', 'peptacular.chem.chem_calc', 'peptacular.glycan', 'peptacular.mods.mod_db_setup'))
    from . import C10
    C10.lookup_order(ctx, rep, 'C15e')
