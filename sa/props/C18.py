"""C18 -- condensing modifications to mass shifts preserves the peptide (structural necessary conditions)."""
import ast

from ..loader import AnalysisError, norm_stmt, walk_own
from ..rules_flow import forwarding, param_reaches_returns
from .common import add_fwd, add_ret
from .common import check as ob
from ..canon import Canon
from . import C04

EXPLANATION = (
    'Decides: (a) before mass(piece) - mass(stripped piece) is summed over one-residue pieces, every whole-peptide '
    'field that slicing copies to every piece and that mass() reads (computed: labile, unknown-position, charge, '
    'charge adducts) is neutralised -- otherwise it is counted once per residue and the result cannot have the '
    'original mass; (b) every value written into the result is the result of round(...) on a mass and the result '
    'starts from the stripped sequence -- "contains only numeric modifications"; (c) include_plus reaches the '
    'serializer and precision reaches every rounding; the caller\'s annotation is not edited (C08). '
    'Not decided: mass preservation within rounding for every annotation (float, needs the calculator as oracle); '
    'interval modifications are treated like the other whole-peptide content (R-STRIP condition ii).')

FQ = 'peptacular.mass_calc:condense_to_mass_mods'


def provenance(ctx, rep, clause):
    program = ctx.program
    f = program.func(FQ)
    target = None
    for n in walk_own(f.node):
        if isinstance(n, ast.Assign) and isinstance(n.value, ast.Call) and isinstance(n.value.func, ast.Attribute) and \
                n.value.func.attr == 'strip' and isinstance(n.targets[0], ast.Name):
            target = n.targets[0].id
    ob(rep, 'PROV', FQ, 'the result starts from annotation.strip()', target is not None, f'{target} = ....strip()',
       'the result annotation no longer starts from the stripped sequence: named modifications can survive', f.loc(),
       clause)
    if target is None:
        return
    from ..canon import helper_inliner
    cn = Canon(f.node, inliner=helper_inliner(program, f.module.name, exclude=('mod_mass', 'mass', 'round')))
    k = 0
    for n in walk_own(f.node):
        if isinstance(n, ast.Call) and isinstance(n.func, ast.Attribute) and isinstance(n.func.value, ast.Name) and \
                n.func.value.id == target and (n.func.attr.startswith('add_') or n.func.attr.startswith('set_')):
            if n.func.attr in ('add_charge', 'add_charge_adducts'):
                continue  # charge state is carried over unchanged, it is not a modification
            k += 1
            val = n.args[-1] if n.args else None
            if n.func.attr == 'add_intervals' and n.args:
                # an interval is written back as Interval(start, end, ambiguous, <None | [Mod(round(...), 1)]>)
                iv = cn.resolve(n.args[0])
                mods_args = [c.args[3] for c in ast.walk(iv) if isinstance(c, ast.Call) and
                             norm_stmt(c.func) == 'Interval' and len(c.args) >= 4]
                mods_args += [kw.value for c in ast.walk(iv) if isinstance(c, ast.Call) and norm_stmt(c.func) == 'Interval'
                              for kw in c.keywords if kw.arg == 'mods']
                val = None
                if len(mods_args) == 1:
                    # every non-None binding of the modification list is [Mod(round(...), 1)]
                    cands = [mods_args[0]]
                    if isinstance(mods_args[0], ast.Name):
                        cands = [a.value for a in ast.walk(f.node) if isinstance(a, ast.Assign) and
                                 norm_stmt(a.targets[0]) == mods_args[0].id]

                    def arms(e):
                        if isinstance(e, ast.IfExp):
                            return arms(e.body) + arms(e.orelse)
                        return [e]
                    cands = [x for cnd in cands for x in arms(cnd)
                             if not (isinstance(x, ast.Constant) and x.value is None)]
                    rounds = []
                    for cnd in cands:
                        if isinstance(cnd, ast.List) and len(cnd.elts) == 1 and isinstance(cnd.elts[0], ast.Call) and \
                                norm_stmt(cnd.elts[0].func) == 'Mod' and cnd.elts[0].args:
                            rounds.append(cnd.elts[0].args[0])
                        else:
                            rounds.append(None)
                    if rounds and all(r is not None for r in rounds):
                        val = rounds[0]
            if val is not None:
                val = cn.resolve(val)     # a local, or a small helper that rounds the sum, is read through
            # a value staged in a local dict (`shifts[i] = round(...)` ... `for i, shift in shifts.items(): add(i, shift)`)
            if isinstance(val, ast.Name):
                for kind, payload in cn.bindings.get(val.id, []):
                    if kind == 'each' and payload[1] == (1,) and isinstance(payload[0], ast.Call) and \
                            isinstance(payload[0].func, ast.Attribute) and payload[0].func.attr == 'items' and \
                            isinstance(payload[0].func.value, ast.Name):
                        d_ = payload[0].func.value.id
                        stored = [a.value for a in walk_own(f.node) if isinstance(a, ast.Assign) and
                                  isinstance(a.targets[0], ast.Subscript) and norm_stmt(a.targets[0].value) == d_]
                        stored = [cn.resolve(x) for x in stored]
                        if stored and all(norm_stmt(x) == norm_stmt(stored[0]) for x in stored):
                            val = stored[0]
            ok = isinstance(val, ast.Call) and isinstance(val.func, ast.Name) and val.func.id == 'round'
            ob(rep, 'PROV', FQ, f'`{norm_stmt(n)[:70]}` writes a rounded number', ok, 'round(<mass>, precision)',
               f'`{norm_stmt(n)[:70]}` writes something that is not the result of round(...): the output may '
               f'contain a non-numeric modification', f.loc(n), clause)
            if ok and val.args:
                # rounded once: the mass inside round(...) is computed at full precision (an inner rounding is
                # multiplied by the ^n multiplier and summed over the modifications of the site)
                inner = cn.resolve(val.args[0])
                early = [x for x in ast.walk(inner) if isinstance(x, ast.Name) and x.id == 'precision']
                early += [x for x in ast.walk(inner) if isinstance(x, ast.Call) and norm_stmt(x.func) == 'round']
                ob(rep, 'PROV', FQ, f'the value written by `{n.func.attr}` is rounded once, at the end', not early,
                   'the mass inside round(...) does not depend on precision',
                   f'the mass handed to round() in `{norm_stmt(n)[:60]}` is `{norm_stmt(inner)[:90]}`, which is already '
                   f'rounded to `precision` per modification unit: with a ^n multiplier or several modifications the '
                   f'rounding errors add up beyond the precision of the written shift', f.loc(n), clause)
    rep.floor('PROV', 'values written into the condensed annotation', k, 4)
    ret = [n for n in walk_own(f.node) if isinstance(n, ast.Return)]
    ok = len(ret) == 1 and f'{target}.serialize(' in norm_stmt(ret[0])
    ob(rep, 'PROV', FQ, 'returns the serialized result annotation', ok, norm_stmt(ret[0]) if ret else '',
       'does not return the serialization of the condensed annotation', f.loc(), clause)


def check(ctx, rep):
    rep.explanation = EXPLANATION
    an, program = ctx.analyzer, ctx.program
    C04.strip_rule(ctx, rep, FQ, 'C18a')
    from . import C20
    C20.has_mods_coverage(ctx, rep, 'C18a')
    provenance(ctx, rep, 'C18b')
    from .common import memo_rule
    memo_rule(ctx, rep, 'C18b', ('peptacular.mass_calc',))
    from . import C01
    C01.value_text(ctx, rep, 'C18b')
    from .common import value_preserving_rule
    value_preserving_rule(ctx, rep, 'C18b', ('peptacular.proforma.proforma_dataclasses', 'peptacular.proforma.proforma_parser', 'peptacular.proforma.input_convert', 'peptacular.mass_calc'))
    n = add_fwd(rep, forwarding(an, program, ['include_plus'], callers={FQ}), 'C18c')
    rep.floor('FWD', 'include_plus forwarding in condense_to_mass_mods', n, 1)
    add_ret(rep, param_reaches_returns(an, program, FQ, ['sequence', 'include_plus', 'precision']), 'C18c')
    # the caller's annotation is not edited (shared with C08)
    s = an.summaries.get((FQ, ()))
    ob(rep, 'EFF-mutates-argument', FQ, 'the argument annotation is not written', not s.mutates,
       'works on a copy', f'writes parameter(s) {sorted(s.mutates)}', program.func(FQ).loc(), 'C18c')
    from .common import optional_number_tests_rule
    optional_number_tests_rule(ctx, rep, 'C18b', ('peptacular.mass_calc',))
