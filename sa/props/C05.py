"""C05 -- fragment ion series obey the chemistry of backbone cleavage (table identities + application shape)."""
import ast
from fractions import Fraction

from .. import rules_tab as rt
from ..poly import PathEval, fmt, atom, const, padd, pmul
from ..loader import AnalysisError, norm_stmt, walk_own
from .common import add_checks, calls_in
from .common import check as ob
from ..canon import Canon, each

EXPLANATION = (
    'The relation between the ion series is linear: every ion mass is the sum over its span\'s residue components '
    'plus a term that depends only on (ion type, charge, isotope, loss). Decides: (a) the backbone-cleavage '
    'identities on the composition tables, exactly (b+y = M+2H+, a=b-CO, c=b+NH3, x=y+CO-H2, z=y-NH3, '
    'immonium = residue-CO+H+, internal by/ay/cy, pairing END[f]+START[b] of all nine internal types, every ion '
    'singly charged); (b) the application shape: per syntactic path adjust_mass returns exactly base + '
    'ADJ[ion] + (charge*proton | (charge-1)*proton + ION_ADJ[ion] | adduct mass) + isotope*neutron + loss, adjust_mz '
    'divides by the charge, _build_fragments feeds sum(components[start:stop]) and the loop elements of '
    'charges/ion_types/isotopes/losses; (c) the float tables are derived from the composition tables only. '
    'Not decided: hydrogen bookkeeping of internal ions with an x/z-type N-terminus (the statement does not fix '
    'it), numeric values to 1e-5 Da beyond the listed isotope masses.')

ADJUST_MASS = 'peptacular.mass_calc:adjust_mass'
ADJUST_MZ = 'peptacular.mass_calc:adjust_mz'
BUILD = 'peptacular.fragmentation:_build_fragments'


def _norm_poly(p):
    """replace the adduct-mass call atom by a canonical name when it is applied to (charge_adducts, monoisotopic)"""
    out = {}
    for mono, c in p.items():
        m2 = []
        for name, e in mono:
            if name.startswith('_parse_charge_adducts_mass(') and 'charge_adducts' in name and 'monoisotopic' in name:
                name = 'ADDUCT_MASS'
            m2.append((name, e))
        out[tuple(sorted(m2))] = c
    return out


def expected_adjust_mass():
    exp = {}
    common = padd(padd(atom('base_mass'), atom('loss')), pmul(atom('NEUTRON_MASS'), atom('isotope')))
    for mode, pre in (('mono', 'MONOISOTOPIC'), ('avg', 'AVERAGE')):
        adj = atom(f'{pre}_FRAGMENT_ADJUSTMENTS[ion_type]')
        ion = atom(f'{pre}_FRAGMENT_ION_ADJUSTMENTS[ion_type]')
        prot = pmul(atom('PROTON_MASS'), atom('charge'))
        exp[f'{mode}/precursor-like (p, n): + charge protons'] = padd(padd(common, adj), prot)
        exp[f'{mode}/fragment: + (charge-1) protons + ion offset'] = \
            padd(padd(padd(padd(common, adj), prot), atom('PROTON_MASS'), -1), ion)
        exp[f'{mode}/explicit adducts'] = padd(padd(common, adj), atom('ADDUCT_MASS'))
    return exp


def affine_shape(ctx, rep, clause):
    program = ctx.program
    f = program.func(ADJUST_MASS)
    def helper(name):
        g_ = program.find_func(f'{f.module.name}:{name}')
        # only helpers whose value is part of the affine shape (not the adduct parser, which is an opaque atom)
        return g_.node if g_ is not None and name.startswith('_') and name not in ('_parse_charge_adducts_mass',) else None
    paths = PathEval(f.node, {'charge is None': False, 'precision is not None': False}, resolver=helper).run()
    got = [(c, _norm_poly(p)) for c, p in paths]
    exp = expected_adjust_mass()
    used = set()
    for cond, p in got:
        hit = [k for k, e in exp.items() if e == p]
        ctext = ' and '.join(f'{"" if v else "not "}({t})' for t, v in cond)
        ob(rep, 'AFF', ADJUST_MASS, f'path [{ctext}] returns a reference form', bool(hit),
           f'{hit[0] if hit else ""}: {fmt(p)}',
           f'on this path adjust_mass returns {fmt(p)}, which is none of the six reference forms '
           f'(base + ADJ[ion] + charge carrier + isotope*NEUTRON_MASS + loss)', f.loc(), clause,
           {'path': ctext, 'returned': fmt(p)})
        used |= set(hit)
    for k in exp:
        ob(rep, 'AFF', ADJUST_MASS, f'reference form reachable: {k}', k in used, 'some path returns it',
           f'no path of adjust_mass returns the form for {k}: {fmt(exp[k])}', f.loc(), clause)
    rep.floor('AFF', 'paths through adjust_mass', len(got), 6)
    g = program.func(ADJUST_MZ)
    paths = PathEval(g.node, {'charge is None': False, 'precision is not None': False}).run()
    forms = {fmt(p) for _, p in paths}
    ob(rep, 'AFF', ADJUST_MZ, 'returns base_mass / charge (base_mass for charge 0)',
       forms == {'base_mass', 'base_mass*charge^-1'}, 'm/z = m / z',
       f'adjust_mz returns {sorted(forms)}', g.loc(), clause)


def build_fragments_bindings(ctx, rep, clause):
    an, program = ctx.analyzer, ctx.program
    f = program.func(BUILD)
    base_ok = False
    n_calls = 0
    want = {'charge': 'charges', 'ion_type': 'ion_types', 'isotope': 'isotopes', 'loss': 'losses',
            'monoisotopic': 'monoisotopic', 'base_mass': 'mass_components'}
    for r in calls_in(an, BUILD):
        if r.callee is None or r.callee.fq != ADJUST_MASS:
            continue
        call = r.node
        charge_av = r.args_av.get(r.callee.param('charge').index)
        first = r.binding.get('base_mass')
        if isinstance(first, ast.Call) or (isinstance(first, ast.Name) and first.id != 'base_mass' and
                                           _assigned_from_sum(f, first.id)):
            # the neutral per-span base: sum(mass_components[span[0]:span[1]])
            e = first if isinstance(first, ast.Call) else _assigned_from_sum(f, first.id)
            base_ok = _is_span_sum(Canon(f.node).resolve(e), (each('spans')(Canon(f.node)) or ['span'])[0])
            ob(rep, 'KIND', BUILD, 'span base is sum(mass_components[span[0]:span[1]])', base_ok,
               'a residue contributes iff start <= index < stop',
               f'the base mass is {norm_stmt(e) if e is not None else "?"}: a modification would no longer '
               f'shift exactly the ions that contain its residue', f.loc(call), clause)
            continue
        n_calls += 1
        for pname, src in want.items():
            av = r.args_av.get(r.callee.param(pname).index)
            if pname in ('charge',) and av is not None and av.const is not None and av.const == 0 and \
                    isinstance(av.const, int):
                continue  # the neutral-mass variant
            ok = av is not None and src in av.deps
            ob(rep, 'FWD', BUILD, f'adjust_mass({pname}=...) at `{norm_stmt(call)[:60]}` derives from `{src}`', ok,
               f'bound to a value derived from {src}',
               f'`{pname}` is {"not passed" if av is None else "bound to a value independent of " + src}: every '
               f'fragment would be computed for the same {pname}', f.loc(call), clause)
    rep.floor('FWD', 'adjust_mass call sites in _build_fragments', n_calls, 2)
    if not base_ok:
        ob(rep, 'KIND', BUILD, 'a neutral span base exists', False, '', 'no adjust_mass(sum(mass_components[...]), '
           'charge=0, ...) call found', f.loc(), clause)


def _assigned_from_sum(f, name):
    for n in walk_own(f.node):
        if isinstance(n, ast.Assign) and any(isinstance(t, ast.Name) and t.id == name for t in n.targets) and \
                isinstance(n.value, ast.Call) and isinstance(n.value.func, ast.Name) and n.value.func.id == 'sum':
            return n.value
    return None


def _is_span_sum(e, span_name='span') -> bool:
    if not (isinstance(e, ast.Call) and isinstance(e.func, ast.Name) and e.func.id == 'sum' and e.args):
        return False
    a = e.args[0]
    if not (isinstance(a, ast.Subscript) and isinstance(a.slice, ast.Slice) and isinstance(a.value, ast.Name)
            and a.value.id == 'mass_components'):
        return False
    lo, up = a.slice.lower, a.slice.upper

    def is_span(x, i):
        return isinstance(x, ast.Subscript) and isinstance(x.value, ast.Name) and x.value.id == span_name and \
            isinstance(x.slice, ast.Constant) and x.slice.value == i
    return is_span(lo, 0) and is_span(up, 1) and a.slice.step is None


def check(ctx, rep):
    rep.explanation = EXPLANATION
    program = ctx.program
    t = rt.Tables(program)
    add_checks(rep, rt.cleavage_chemistry_checks(t), 'C05a')
    add_checks(rep, rt.series_partition_checks(t), 'C05a')
    affine_shape(ctx, rep, 'C05b')
    build_fragments_bindings(ctx, rep, 'C05b')
    from . import C04
    C04.shortcut_rule(ctx, rep, 'peptacular.fragmentation:_get_mass_components', 'C05b')
    C04.builder_subsets(ctx, rep, 'C05a')
    C04.projections(ctx, rep, 'C05b')
    add_checks(rep, rt.derived_table_checks(program), 'C05c', 'peptacular.chem.chem_constants')
    add_checks(rep, rt.sibling_table_checks(t), 'C05c')
    from .common import memo_rule
    memo_rule(ctx, rep, 'C05d', ('peptacular.fragmentation', 'peptacular.mass_calc'))
