"""C09 -- the parser is total; validation is deferred but never silent (exception discipline, R-EXC)."""
import ast
from typing import Dict, List, Optional, Set, Tuple

from ..loader import AnalysisError, norm_stmt, walk_own, FuncInfo
from .common import check as ob
from ..canon import Canon

EXPLANATION = (
    'For the call graph rooted at parse(): every operation that can raise is an obligation discharged by a rule -- '
    '(a) cursor typestate: every read of the input at the cursor (self._current(), self.sequence[self.position], '
    '_parse_char) happens in state CHECKED, established by a dominating `not self._end_of_sequence()` test and '
    'destroyed by anything that advances the cursor; (b) str-only operations on Mod.val (declared '
    'Union[str, int, float]) are guarded by isinstance(..., str); (c) every explicit raise resolves to a class '
    'whose MRO contains ValueError; (d) every cursor loop makes progress (advances, returns, raises or breaks) on '
    'every syntactic path through its body, and the phase that may return without consuming returns only on '
    'characters the next phase consumes. For the deferred clause, in the graphs rooted at mod_mass / mod_comp / '
    '_parse_mod_delta_mass_only: (e) raises are ValueError subclasses, handlers re-raise a ValueError subclass or '
    'are in the reviewed table, the three resolvers end in a raise, and the accumulating callers wrap no resolver '
    'call in a swallowing handler. Not decided: that a returned annotation is always serialisable; exceptions from '
    'the charge-adduct sub-grammar at mass time (outside the statement\'s corpus).')

PP = 'peptacular.proforma.proforma_parser'
PARSER = f'{PP}:_ProFormaParser'
ADVANCERS = {'_skip', '_parse_char', '_parse_modification', '_parse_modifications', '_parse_integer'}
READERS = {'_current', '_parse_char'}  # need a checked cursor at the call

VALUE_ERROR_BUILTINS = {'ValueError', 'UnicodeError', 'UnicodeDecodeError', 'UnicodeEncodeError'}


# ---------------------------------------------------------------------------------------------------------
def reachable(an, program, roots: List[str]) -> List[FuncInfo]:
    seen: Dict[str, FuncInfo] = {}
    stack = [program.func(r) for r in roots]
    while stack:
        f = stack.pop()
        if f.fq in seen:
            continue
        seen[f.fq] = f
        for key, recs in an.calls.items():
            if key[0] != f.fq:
                continue
            for r in recs:
                if r.callee is not None and not r.by_name and r.callee.fq not in seen:
                    stack.append(r.callee)
                    # a dataclass construction runs __post_init__
                if r.ext and r.ext.startswith('dataclass:'):
                    ci = program.find_class(r.ext.split(':')[-1])
                    if ci is not None and '__post_init__' in ci.methods:
                        stack.append(ci.methods['__post_init__'])
        # repository decorators wrap the function: their nested wrapper runs too
        for d in f.decorators:
            t = d.func if isinstance(d, ast.Call) else d
            if isinstance(t, ast.Name):
                r = program.resolve_name(f.module.name, t.id)
                if r and r[0] == 'func':
                    stack.append(r[1])
                    stack.extend(r[1].nested.values())
        stack.extend(f.nested.values())
    return list(seen.values())


def is_value_error_class(program, module, expr) -> Tuple[Optional[bool], str]:
    """does the raised expression denote a ValueError subclass?  (None: cannot tell)"""
    e = expr.func if isinstance(expr, ast.Call) else expr
    if isinstance(e, ast.Name):
        name = e.id
        if name in VALUE_ERROR_BUILTINS:
            return True, name
        r = program.resolve_name(module.name, name)
        if r and r[0] == 'class':
            mro = program.class_mro_names(r[1])
            return any(b in VALUE_ERROR_BUILTINS for b in mro), name
        if name in ('TypeError', 'KeyError', 'IndexError', 'AttributeError', 'RuntimeError', 'Exception',
                    'NotImplementedError', 'AssertionError', 'LookupError', 'ArithmeticError', 'ZeroDivisionError',
                    'OSError', 'IOError', 'ImportError', 'StopIteration'):
            return False, name
        return None, name
    return None, norm_stmt(e)


# ---------------------------------------------------------------------------------------------------------
# (a) cursor typestate
class Cursor:
    """syntax-directed typestate over one method of _ProFormaParser"""

    def __init__(self, f: FuncInfo, requires: Set[str], advancing: Set[str]):
        self.f = f
        self.requires = requires
        self.advancing = advancing
        self.violations: List[Tuple[ast.AST, str]] = []
        self.requires_at_entry = False
        self.n_reads = 0

    # state: 'C' checked, 'U' unchecked after an advance, 'E' entry (unknown, nothing happened yet)
    def run(self):
        self.block(self.f.node.body, 'E')

    def block(self, stmts, state: str) -> Optional[str]:
        for st in stmts:
            if state is None:
                return None
            state = self.stmt(st, state)
        return state

    def stmt(self, st, state):
        if isinstance(st, (ast.Return, ast.Raise)):
            for ch in ast.iter_child_nodes(st):
                if isinstance(ch, ast.expr):
                    state = self.expr(ch, state)
            return None
        if isinstance(st, (ast.Break, ast.Continue)):
            return None
        if isinstance(st, ast.If):
            s_true, s_false = self.test(st.test, state)
            a = self.block(st.body, s_true)
            b = self.block(st.orelse, s_false)
            return self.join(a, b)
        if isinstance(st, ast.While):
            s_true, s_false = self.test(st.test, state)
            out = self.block(st.body, s_true)
            # the loop head re-tests; after the loop the state is what the failed test leaves (unchecked)
            _t, s_exit = self.test(st.test, self.join(out, state) or state)
            return self.join(s_exit, 'U') if s_exit else 'U'
        if isinstance(st, ast.For):
            state = self.expr(st.iter, state)
            out = self.block(st.body, state)
            return self.join(out, state)
        if isinstance(st, ast.Try):
            a = self.block(st.body, state)
            outs = [a]
            for h in st.handlers:
                outs.append(self.block(h.body, 'U'))
            res = None
            for o in outs:
                res = self.join(res, o)
            if st.finalbody:
                res = self.block(st.finalbody, res or 'U')
            return res
        if isinstance(st, ast.AugAssign):
            state = self.expr(st.value, state)
            if norm_stmt(st.target) == 'self.position':
                return 'U'
            return state
        if isinstance(st, ast.Assign):
            state = self.expr(st.value, state)
            for t in st.targets:
                if norm_stmt(t) == 'self.position':
                    return 'U'
                if isinstance(t, (ast.Subscript, ast.Attribute)):
                    state = self.expr(t.value, state) if not isinstance(t, ast.Attribute) else state
            return state
        for ch in ast.iter_child_nodes(st):
            if isinstance(ch, ast.expr):
                state = self.expr(ch, state)
        return state

    @staticmethod
    def join(a, b):
        if a is None:
            return b
        if b is None:
            return a
        if a == b:
            return a
        order = {'U': 0, 'E': 1, 'C': 2}
        return a if order[a] < order[b] else b

    def test(self, t, state) -> Tuple[str, str]:
        """-> (state if true, state if false)"""
        if isinstance(t, ast.UnaryOp) and isinstance(t.op, ast.Not):
            if self.is_end_call(t.operand):
                return 'C', state
            a, b = self.test(t.operand, state)
            return b, a
        if self.is_end_call(t):
            return state, 'C'
        if isinstance(t, ast.BoolOp) and isinstance(t.op, ast.And):
            cur = state
            for v in t.values:
                cur, _f = self.test(v, cur)
            return cur, state
        if isinstance(t, ast.BoolOp) and isinstance(t.op, ast.Or):
            cur = state
            for v in t.values:
                _t, cur = self.test(v, cur)
            return state, cur
        s = self.expr(t, state)
        return s, s

    @staticmethod
    def is_end_call(e) -> bool:
        return isinstance(e, ast.Call) and isinstance(e.func, ast.Attribute) and e.func.attr == '_end_of_sequence'

    def read(self, node, state):
        self.n_reads += 1
        if state == 'C':
            return
        if state == 'E':
            self.requires_at_entry = True
            return
        self.violations.append((node, norm_stmt(node)))

    def expr(self, e, state):
        """evaluate in syntactic order; returns the state after the expression"""
        if isinstance(e, ast.BoolOp):
            a, b = self.test(e, state)
            return self.join(a, b)
        if isinstance(e, ast.IfExp):
            s_true, s_false = self.test(e.test, state)
            a = self.expr(e.body, s_true)
            b = self.expr(e.orelse, s_false)
            return self.join(a, b)
        if isinstance(e, ast.Subscript):
            state = self.expr(e.value, state)
            state = self.expr(e.slice, state)
            if norm_stmt(e.value) == 'self.sequence' and norm_stmt(e.slice) == 'self.position':
                self.read(e, state)
            return state
        if isinstance(e, ast.Call):
            for a in e.args:
                state = self.expr(a, state)
            for kw in e.keywords:
                state = self.expr(kw.value, state)
            if isinstance(e.func, ast.Attribute) and isinstance(e.func.value, ast.Name) and e.func.value.id == 'self':
                name = e.func.attr
                if name in self.requires:
                    self.read(e, state)
                if name in self.advancing:
                    return 'U'
                return state
            if isinstance(e.func, ast.Attribute):
                state = self.expr(e.func.value, state)
            return state
        for ch in ast.iter_child_nodes(e):
            if isinstance(ch, ast.expr):
                state = self.expr(ch, state)
        return state


def cursor_typestate(ctx, rep, clause):
    program = ctx.program
    cls = program.cls(PARSER)
    absorbed = set(cls.methods[next(iter(cls.methods))].module.normalised.get('__absorbed__', ())) if cls.methods else set()
    # (new private methods read through at every call are analysed inside their callers)
    methods = {n: m for n, m in cls.methods.items() if m.qualname not in absorbed}
    length_names = {'len(self.sequence)', 'len(self._sequence)'}
    init = cls.methods.get('__init__')
    if init is not None:
        # self.sequence = <param> ... self.length = len(<param>)
        held = {norm_stmt(x.value) for x in walk_own(init.node) if isinstance(x, ast.Assign) and len(x.targets) == 1 and
                norm_stmt(x.targets[0]) in ('self.sequence', 'self._sequence')}
        for x in walk_own(init.node):
            if isinstance(x, ast.Assign) and len(x.targets) == 1 and isinstance(x.value, ast.Call) and \
                    norm_stmt(x.value.func) == 'len' and len(x.value.args) == 1 and \
                    norm_stmt(x.value.args[0]) in held | {'self.sequence', 'self._sequence'}:
                length_names.add(norm_stmt(x.targets[0]))
    # which methods advance the cursor (transitively)
    advancing: Set[str] = set()
    changed = True
    while changed:
        changed = False
        for n, m in methods.items():
            if n in advancing:
                continue
            for x in walk_own(m.node):
                if isinstance(x, (ast.AugAssign, ast.Assign)) and any(
                        norm_stmt(t) == 'self.position' for t in ([x.target] if isinstance(x, ast.AugAssign) else x.targets)):
                    if n != '__init__':
                        advancing.add(n)
                        changed = True
                        break
                if isinstance(x, ast.Call) and isinstance(x.func, ast.Attribute) and \
                        isinstance(x.func.value, ast.Name) and x.func.value.id == 'self' and x.func.attr in advancing:
                    advancing.add(n)
                    changed = True
                    break
    # which methods need a checked cursor at entry (fixed point)
    requires: Set[str] = set()
    for _ in range(6):
        new = set()
        for n, m in methods.items():
            c = Cursor(m, requires, advancing)
            c.run()
            if c.requires_at_entry:
                new.add(n)
        if new == requires:
            break
        requires = new
    if '_current' not in requires:
        raise AnalysisError('cursor typestate: _ProFormaParser._current is not recognised as reading at the cursor')
    total_reads = 0
    for n, m in sorted(methods.items()):
        c = Cursor(m, requires, advancing)
        c.run()
        total_reads += c.n_reads
        for node, text in c.violations:
            ob(rep, 'EXC-cursor', m.fq, f'`{text}` reads the input at the cursor after the cursor moved, without a '
               f'bounds test', False, '',
               f'`{text}` is reached in a state where the cursor has been advanced and `_end_of_sequence()` has not '
               f'been re-tested: input that ends right there raises IndexError instead of a format error',
               m.loc(node), clause)
        if not c.violations:
            rep.ob('EXC-cursor', f'{m.fq}: {c.n_reads} cursor read(s)', m.loc(), True,
                   'every read at the cursor is dominated by a bounds test with no advance in between' +
                   (' (requires a checked cursor at entry)' if n in requires else ''), c.n_reads > 0, clause)
    # look-ahead reads: self.sequence[<anything but the cursor itself>] (an index, not a slice) has no bounds test
    # in the typestate above; it is sound only under a test that compares that very index with the length
    from ..guards import dominating_tests
    for n, m in sorted(methods.items()):
        for x in walk_own(m.node):
            if isinstance(x, ast.Subscript) and norm_stmt(x.value) in ('self.sequence', 'self._sequence') and \
                    not isinstance(x.slice, ast.Slice) and norm_stmt(x.slice) != 'self.position' and \
                    isinstance(x.ctx, ast.Load):
                idx = norm_stmt(x.slice)
                guarded = False
                for t, pol in dominating_tests(m.node, x):
                    tt = norm_stmt(t)
                    if idx in tt and 'len(self.sequence)' in tt and pol:
                        guarded = True
                # the index is the variable of `for i in range(.., <length of the input>)`
                for y in walk_own(m.node):
                    if isinstance(y, ast.For) and isinstance(y.target, ast.Name) and y.target.id == idx and \
                            isinstance(y.iter, ast.Call) and norm_stmt(y.iter.func) == 'range' and \
                            1 <= len(y.iter.args) <= 2 and norm_stmt(y.iter.args[-1]) in length_names and \
                            any(z is x for b_ in y.body for z in ast.walk(b_)) and \
                            not any(isinstance(z, ast.Name) and z.id == idx and isinstance(z.ctx, ast.Store)
                                    for b_ in y.body for z in ast.walk(b_)):
                        guarded = True
                # a short-circuit conjunct to the left inside the same test also guards
                for y in walk_own(m.node):
                    if isinstance(y, ast.BoolOp) and isinstance(y.op, ast.And):
                        for i_, v_ in enumerate(y.values):
                            if any(z is x for z in ast.walk(v_)):
                                left = ' '.join(norm_stmt(w) for w in y.values[:i_])
                                if idx in left and 'len(self.sequence)' in left:
                                    guarded = True
                ob(rep, 'EXC-cursor', m.fq, f'look-ahead read `{norm_stmt(x)}` is bounds-tested', guarded,
                   f'guarded by a test of {idx} against len(self.sequence)',
                   f'`{norm_stmt(x)}` indexes the input at `{idx}` with no test of that index against the length of '
                   f'the input: input that ends right after the cursor raises IndexError instead of a format error',
                   m.loc(x), clause)
    # entry points must not require a checked cursor
    for n in ('parse', '_parse_sequence_start', '_parse_sequence_middle', '_parse_sequence_end', '_parse_modifications',
              '_parse_integer', '_peek'):
        if n not in methods:
            raise AnalysisError(f'anchor method missing: _ProFormaParser.{n}')
        ob(rep, 'EXC-cursor', methods[n].fq, 'callable with the cursor at the end of the input', n not in requires,
           'guards its own reads', 'reads at the cursor before testing the bounds: called at the end of the input it '
           'raises IndexError', methods[n].loc(), clause)
    rep.floor('EXC-cursor', 'cursor reads in _ProFormaParser', total_reads, 12)
    rep.coverage_extra['cursor_methods_requiring_checked_entry'] = sorted(requires)
    rep.coverage_extra['cursor_methods_advancing'] = sorted(advancing)


# ---------------------------------------------------------------------------------------------------------
# (b) str-only operations on Mod.val
STR_METHODS = {'split', 'lower', 'upper', 'startswith', 'endswith', 'strip', 'replace', 'find'}


def union_field_guard(ctx, rep, funcs: List[FuncInfo], clause):
    n = 0
    for f in funcs:
        def visit_block(stmts, guards: Set[str]):
            g = set(guards)
            for st in stmts:
                visit(st, g)
                # early-exit idiom: `if not isinstance(x, str): raise/return/continue` guards the rest of the block
                if isinstance(st, ast.If) and not st.orelse and st.body and \
                        isinstance(st.body[-1], (ast.Raise, ast.Return, ast.Continue, ast.Break)):
                    g |= _not_isinstance_str_else(st.test)

        def visit(node, guards: Set[str]):
            nonlocal n
            if isinstance(node, ast.If) or isinstance(node, ast.IfExp):
                g_true = guards | _isinstance_str(node.test)
                visit_expr_with_and(node.test, guards)
                body = node.body if isinstance(node.body, list) else [node.body]
                orelse = node.orelse if isinstance(node.orelse, list) else [node.orelse]
                visit_block(body, g_true)
                visit_block(orelse, guards | _not_isinstance_str_else(node.test))
                return
            if isinstance(node, (ast.FunctionDef, ast.AsyncFunctionDef, ast.Lambda)) and node is not f.node:
                return
            check_node(node, guards)
            for fld in ('body', 'orelse', 'finalbody'):
                blk = getattr(node, fld, None)
                if isinstance(blk, list) and blk and isinstance(blk[0], ast.stmt):
                    visit_block(blk, guards)
            for h in getattr(node, 'handlers', []) or []:
                visit_block(h.body, guards)
            for ch in ast.iter_child_nodes(node):
                if isinstance(ch, ast.stmt) or isinstance(ch, ast.ExceptHandler):
                    continue
                visit(ch, guards)

        def visit_expr_with_and(test, guards):
            if isinstance(test, ast.BoolOp) and isinstance(test.op, ast.And):
                g = set(guards)
                for v in test.values:
                    visit(v, g)
                    g |= _isinstance_str(v)
            else:
                visit(test, guards)

        def check_node(node, guards):
            nonlocal n
            target = None
            what = None
            if isinstance(node, ast.Compare) and len(node.ops) == 1 and isinstance(node.ops[0], (ast.In, ast.NotIn)) and \
                    isinstance(node.left, ast.Constant) and isinstance(node.left.value, str):
                target, what = node.comparators[0], f'`{norm_stmt(node)}`'
            elif isinstance(node, ast.Call) and isinstance(node.func, ast.Attribute) and node.func.attr in STR_METHODS:
                target, what = node.func.value, f'`{norm_stmt(node)}`'
            if target is None or not (isinstance(target, ast.Attribute) and target.attr == 'val'):
                return
            n += 1
            key = norm_stmt(target)
            ob(rep, 'EXC-union', f.fq, f'str-only operation {what} on {key} (Union[str, int, float])', key in guards,
               f'dominated by isinstance({key}, str)',
               f'{what} is applied to {key}, which is an int or float for numeric modifications: TypeError instead of '
               f'a format error', f.loc(node), clause)
        visit_block(f.node.body, set())
    rep.floor('EXC-union', 'str-only operations on Mod.val in the parse graph', n, 1)


def _isinstance_str(test) -> Set[str]:
    out = set()
    parts = test.values if isinstance(test, ast.BoolOp) and isinstance(test.op, ast.And) else [test]
    for p in parts:
        if isinstance(p, ast.Call) and isinstance(p.func, ast.Name) and p.func.id == 'isinstance' and len(p.args) == 2 \
                and norm_stmt(p.args[1]) == 'str':
            out.add(norm_stmt(p.args[0]))
    return out


def _not_isinstance_str_else(test) -> Set[str]:
    if isinstance(test, ast.UnaryOp) and isinstance(test.op, ast.Not):
        return _isinstance_str(test.operand)
    return set()


# ---------------------------------------------------------------------------------------------------------
# (c) raise hierarchy, (e) handlers
REVIEWED_HANDLERS = {
    # (function fq, normalised handler head) -> reason
    ('peptacular.chem.chem_calc:_parse_mod_delta_mass_only', 'except DeltaMassCompositionError: continue'):
        'a prefixed signed number has no composition: the alternative is handled as a mass shift below',
}


def raise_discipline(ctx, rep, funcs: List[FuncInfo], clause, label: str):
    program = ctx.program
    n = 0
    for f in funcs:
        for node in walk_own(f.node):
            if isinstance(node, ast.Raise):
                if node.exc is None:
                    continue  # bare re-raise inside a handler
                n += 1
                ok, name = is_value_error_class(program, f.module, node.exc)
                if ok is None:
                    # `raise err` of a caught exception object
                    if isinstance(node.exc, ast.Name):
                        ok = True
                        name = f'{name} (re-raise of the caught exception)'
                    else:
                        raise AnalysisError(f'{f.fq}: raised expression not understood: {norm_stmt(node)}')
                ob(rep, 'EXC-raise', f.fq, f'`{norm_stmt(node)[:80]}` raises a ValueError subclass', bool(ok),
                   f'{name} is in the ValueError family',
                   f'{name} is not a ValueError: callers that catch the documented error type see an unrelated '
                   f'exception', f.loc(node), clause)
    rep.floor('EXC-raise', f'explicit raises in the {label} graph', n, 5)


def handler_discipline(ctx, rep, funcs: List[FuncInfo], clause, label: str):
    program = ctx.program
    n = 0
    for f in funcs:
        for node in walk_own(f.node):
            if not isinstance(node, ast.Try):
                continue
            for h in node.handlers:
                n += 1
                head = f'except {norm_stmt(h.type) if h.type is not None else ""}: ' + \
                       (type(h.body[0]).__name__.lower() if h.body else '')
                body0 = h.body[0] if h.body else None
                head = f'except {norm_stmt(h.type) if h.type is not None else ""}: ' + \
                       ('pass' if isinstance(body0, ast.Pass) else 'continue' if isinstance(body0, ast.Continue)
                        else 'try' if isinstance(body0, ast.Try) else norm_stmt(body0)[:40] if body0 is not None else '')
                raises = [x for s in h.body for x in ast.walk(s) if isinstance(x, ast.Raise)]
                ok = False
                why = ''
                if raises and all(self_ok(program, f, r) for r in raises) and _all_paths_raise(h.body):
                    ok, why = True, 're-raises a ValueError subclass on every path'
                elif _probe_only(node, f):
                    ok, why = True, 'the guarded block only calls built-in conversions: no error of the resolver can ' \
                                    'arrive here'
                elif (f.fq, head) in REVIEWED_HANDLERS:
                    ok, why = True, 'reviewed: ' + REVIEWED_HANDLERS[(f.fq, head)]
                elif h.type is not None and _only_warns(h.body):
                    ok, why = True, 'loader diagnostics only (warning)'
                ob(rep, 'EXC-handler', f.fq, f'handler `{head}`', ok, why,
                   f'the handler `{head}` neither re-raises a ValueError subclass nor is in the reviewed table: an '
                   f'error of the resolver would be swallowed (the modification silently counts as nothing)',
                   f.loc(h), clause)
    return n


_BUILTIN_CASTS = {'int', 'float', 'str', 'len', 'abs', 'round', 'bool'}
_STR_METHODS = {'strip', 'lstrip', 'rstrip', 'replace', 'lower', 'upper', 'split', 'startswith', 'endswith'}


def _probe_only(try_node: ast.Try, f) -> bool:
    """the try block calls nothing but built-in conversions (directly, or through a loop variable that ranges over a
    literal tuple of them) and string methods: whatever it raises was raised by the conversion itself"""
    casters = set(_BUILTIN_CASTS)
    for x in walk_own(f.node):
        if isinstance(x, ast.For) and isinstance(x.target, ast.Name) and isinstance(x.iter, (ast.Tuple, ast.List)) and \
                x.iter.elts and all(isinstance(e, ast.Name) and e.id in _BUILTIN_CASTS for e in x.iter.elts) and \
                any(n is try_node for n in ast.walk(x)):
            casters.add(x.target.id)
    calls = [c for st in try_node.body for c in ast.walk(st) if isinstance(c, ast.Call)]
    if not calls:
        return False
    for c in calls:
        if isinstance(c.func, ast.Name) and c.func.id in casters:
            continue
        if isinstance(c.func, ast.Attribute) and c.func.attr in _STR_METHODS:
            continue
        return False
    return True


def self_ok(program, f, r) -> bool:
    if r.exc is None:
        return True
    ok, _ = is_value_error_class(program, f.module, r.exc)
    return ok is True or (ok is None and isinstance(r.exc, ast.Name))


def _all_paths_raise(body) -> bool:
    if not body:
        return False
    last = body[-1]
    if isinstance(last, ast.Raise):
        return True
    if isinstance(last, ast.If):
        return _all_paths_raise(last.body) and _all_paths_raise(last.orelse)
    return False


def _only_warns(body) -> bool:
    for s in body:
        if isinstance(s, ast.Expr) and isinstance(s.value, ast.Call) and 'warn' in norm_stmt(s.value.func):
            continue
        if isinstance(s, ast.Assign) and isinstance(s.value, ast.Constant) and s.value.value is None:
            continue
        return False
    return True


def terminal_raise(ctx, rep, clause):
    program = ctx.program
    for fq in ('peptacular.mass_calc:mod_mass', 'peptacular.chem.chem_calc:mod_comp',
               'peptacular.chem.chem_calc:_parse_mod_delta_mass_only'):
        f = program.func(fq)
        last = f.node.body[-1]
        ok = isinstance(last, ast.Raise) and last.exc is not None and \
            is_value_error_class(program, f.module, last.exc)[0] is True
        if not ok and isinstance(last, ast.Return) and isinstance(last.value, ast.Name):
            # `if x is None: raise ...` right before `return x`: the unresolved case raises, only a value is returned
            x = last.value.id
            for k_ in range(len(f.node.body) - 2, -1, -1):
                st = f.node.body[k_]
                if isinstance(st, ast.If) and not st.orelse and norm_stmt(st.test) in (f'{x} is None', f'None is {x}') \
                        and st.body and isinstance(st.body[-1], ast.Raise) and st.body[-1].exc is not None and \
                        is_value_error_class(program, f.module, st.body[-1].exc)[0] is True:
                    ok = True
                    break
                if any(isinstance(y, ast.Name) and y.id == x and isinstance(y.ctx, ast.Store) for y in ast.walk(st)):
                    break
        ob(rep, 'EXC-terminal', fq, 'falls through to a raise of a ValueError subclass', ok,
           f'`{norm_stmt(last)[:70]}`',
           f'the resolver ends in `{norm_stmt(last)[:70]}`: an unresolvable modification would be returned as a value '
           f'(None/0) and silently counted as nothing', f.loc(last), clause)
        # no constant return on the way that stands for "unresolvable" (the delta-mass splitter legitimately
        # answers None for "this modification has a composition")
        for node in (walk_own(f.node) if f.name in ('mod_mass', 'mod_comp') else []):
            if isinstance(node, ast.Return) and isinstance(node.value, ast.Constant) and \
                    node.value.value in (0, 0.0, None) and node is not last:
                ob(rep, 'EXC-terminal', fq, f'`{norm_stmt(node)}` is not a silent default', False, '',
                   f'`{norm_stmt(node)}` returns a constant from the resolver front end', f.loc(node), clause)
    for fq in ('peptacular.mass_calc:mass', 'peptacular.chem.chem_calc:_sequence_comp',
               'peptacular.mass_calc:_pop_delta_mass_mods', 'peptacular.mass_calc:comp_mass'):
        f = program.func(fq)
        bad = []
        for node in walk_own(f.node):
            if isinstance(node, ast.Try):
                body_txt = ' '.join(norm_stmt(s) for s in node.body)
                if any(k in body_txt for k in ('mod_mass(', 'mod_comp(', '_parse_mod_delta_mass_only(')):
                    for h in node.handlers:
                        if not _all_paths_raise(h.body):
                            bad.append(h)
        ob(rep, 'EXC-terminal', fq, 'no resolver call is wrapped in a swallowing handler', not bad,
           'errors of the resolvers propagate', 'a try/except around a resolver call does not re-raise: an '
           'unresolvable modification is silently skipped', f.loc(bad[0]) if bad else f.loc(), clause)


# ---------------------------------------------------------------------------------------------------------
# (d) loop progress
def _progress_paths(stmts, advancing, cursors=()) -> List[ast.AST]:
    """returns the statements at which a path through `stmts` ends without progress (empty = every path
    advances the cursor, returns, raises or breaks)"""
    if not stmts:
        return [None]
    st, rest = stmts[0], stmts[1:]
    if isinstance(st, (ast.Return, ast.Raise, ast.Break)):
        return []
    if isinstance(st, ast.Continue):
        return [st]
    if _advances(st, advancing, cursors):
        return []
    if isinstance(st, ast.If):
        return _progress_paths(list(st.body) + rest, advancing, cursors) + _progress_paths(list(st.orelse) + rest, advancing, cursors)
    if isinstance(st, ast.Try):
        return _progress_paths(list(st.body) + rest, advancing, cursors)
    if isinstance(st, ast.For):
        if _advances(ast.Expr(value=st.iter), advancing, cursors):
            return []
        return _progress_paths(rest, advancing, cursors)
    return _progress_paths(rest, advancing, cursors)


def _advances(st, advancing, cursors=()) -> bool:
    """cursors: the local names the enclosing loop test reads (a helper parser's own position variable)"""
    if isinstance(st, (ast.If, ast.For, ast.While, ast.Try)):
        return False
    for n in ast.walk(st):
        if isinstance(n, ast.AugAssign) and isinstance(n.op, ast.Add) and \
                (norm_stmt(n.target) == 'self.position' or norm_stmt(n.target) in cursors):
            return True
        if isinstance(n, ast.Call) and isinstance(n.func, ast.Attribute) and isinstance(n.func.value, ast.Name) and \
                n.func.value.id == 'self' and n.func.attr in advancing:
            return True
    return False


def _advance_counts(stmts, cursors, acc=0):
    """number of cursor advances along every path through stmts (paths that leave the loop are dropped)"""
    if not stmts:
        return [acc]
    st, rest = stmts[0], stmts[1:]
    if isinstance(st, (ast.Return, ast.Raise, ast.Break, ast.Continue)):
        return [acc] if isinstance(st, ast.Continue) else []
    if isinstance(st, ast.If):
        return _advance_counts(list(st.body) + rest, cursors, acc) + _advance_counts(list(st.orelse) + rest, cursors, acc)
    if isinstance(st, (ast.For, ast.While, ast.Try, ast.With)):
        return _advance_counts(rest, cursors, acc)
    k = sum(1 for n in ast.walk(st) if isinstance(n, ast.AugAssign) and isinstance(n.op, ast.Add) and
            norm_stmt(n.target) in cursors)
    return _advance_counts(rest, cursors, acc + k)


def resolution_independent_of_residues(ctx, rep, clause):
    """whether a modification value is resolved (and so validated) does not depend on the residues of the peptide: in
    mass() and comp(), no test that decides if the resolver is called, and no guard of a `continue` before it in the
    same loop, reads the sequence.  (`if aa_count == 0: continue` in front of mod_mass() lets an unresolvable static
    rule through whenever its target residue is absent.)"""
    from ..canon import Canon
    from ..guards import dominating_tests
    resolvers = {'mod_mass', 'mod_comp', '_parse_mod_delta_mass_only'}
    n = 0
    for fq in ('peptacular.mass_calc:mass', 'peptacular.mass_calc:comp'):
        f = ctx.program.func(fq)
        c = Canon(f.node)

        def reads_sequence(t) -> bool:
            r = c.resolve(t)
            return any(isinstance(y, ast.Attribute) and y.attr in ('sequence', '_sequence', 'stripped_sequence')
                       for y in ast.walk(r))
        for loop in [x for x in walk_own(f.node) if isinstance(x, ast.For)]:
            calls = [y for st in loop.body for y in ast.walk(st) if isinstance(y, ast.Call) and
                     norm_stmt(y.func).split('.')[-1] in resolvers]
            if not calls:
                continue
            first = min(calls, key=lambda y: getattr(y, 'order', y.lineno))
            guards = []
            for t, _pol in dominating_tests(loop, first):
                guards.append(t)
            for st in loop.body:
                if getattr(st, 'order', st.lineno) >= getattr(first, 'order', first.lineno):
                    break
                if isinstance(st, ast.If) and any(isinstance(z, (ast.Continue, ast.Break)) for b in (st.body, st.orelse)
                                                  for s_ in b for z in ast.walk(s_)):
                    guards.append(st.test)
            bad = [t for t in guards if reads_sequence(t)]
            n += 1
            ob(rep, 'EXC-resolve', f.fq, f'loop at `{norm_stmt(loop.target)} in {norm_stmt(loop.iter)[:40]}`: the resolver '
               f'is called whatever the residues are', not bad, f'{len(guards)} guard(s), none reads the sequence',
               f'`{norm_stmt(bad[0])[:70] if bad else ""}` depends on the residues of the peptide and decides whether '
               f'`{norm_stmt(first)[:50]}` runs: a modification value that cannot be resolved goes unnoticed (contributes '
               f'nothing) when the residues it applies to are absent', f.loc(bad[0]) if bad else f.loc(loop), clause)
    rep.floor('EXC-resolve', 'loops that resolve modification values', n, 3)


def multiplier_is_a_number(ctx, rep, clause):
    """the multiplier handed to Mod(.., <multiplier>) by the parser is a number on every path: the constant 1, or
    int(<digits>) (which raises ValueError, re-raised as a format error, when there are no digits) -- never None or text.
    A `^` that is not followed by digits must be a format error, not an annotation that cannot be serialized."""
    program = ctx.program
    f = program.func(f'{PP}:_ProFormaParser._parse_modification')
    ctor = [n for n in walk_own(f.node) if isinstance(n, ast.Call) and isinstance(n.func, ast.Name) and n.func.id == 'Mod']
    if not ctor:
        raise AnalysisError('_parse_modification: the Mod(...) construction was not found')
    args_ = [c_.args[1] if len(c_.args) > 1 else next((kw.value for kw in c_.keywords if kw.arg == 'mult'), None)
             for c_ in ctor]
    if any(a is None for a in args_):
        raise AnalysisError('_parse_modification: Mod(...) is built without a multiplier')

    def numeric(e) -> Optional[bool]:
        if isinstance(e, ast.Constant):
            return isinstance(e.value, int) and not isinstance(e.value, bool)
        if isinstance(e, ast.Call) and isinstance(e.func, ast.Name) and e.func.id == 'int':
            return True
        if isinstance(e, ast.IfExp):
            a, b = numeric(e.body), numeric(e.orelse)
            return None if a is None or b is None else a and b
        return None
    values = []
    for arg in args_:        # one construction per path (early return for the plain case) or one for all
        if isinstance(arg, ast.Name):
            values += [a.value for a in walk_own(f.node) if isinstance(a, ast.Assign) and
                       any(isinstance(t, ast.Name) and t.id == arg.id for t in a.targets)]
        else:
            values.append(arg)
    verdicts = [(v, numeric(v)) for v in values]
    if not values or any(ok is None for _v, ok in verdicts):
        raise AnalysisError('_parse_modification: a binding of the multiplier is neither a constant nor int(...): '
                            + ', '.join(norm_stmt(v)[:40] for v, ok in verdicts if ok is None))
    bad = [v for v, ok in verdicts if not ok]
    ob(rep, 'EXC-terminal', f.fq, 'the multiplier handed to Mod(...) is a number on every path', not bad,
       f'{len(values)} binding(s): constant or int(...)',
       f'on one path the multiplier is `{norm_stmt(bad[0]) if bad else ""}`: `[X]^` without digits parses into a '
       f'modification whose multiplier is not a number -- serialising it or asking for its mass fails with a TypeError '
       f'instead of the string being rejected as malformed', f.loc(ctor[0]), clause)


def char_case_progress(ctx, rep, clause):
    """scanning loops of the formula tokenizers, `while CUR < len(S)` with tests of S[CUR] against literal characters:
    for every class of the current character (each literal it is compared with, and "any other") the body is followed
    with the tests on S[CUR] decided -- the character is touched only through comparisons, so the classes are the whole
    case analysis -- and has to move the cursor forward, raise, return or break.  An inner `while` counts only when its
    test is decided true on entry (it runs at least once) and its own body advances."""
    from ..guards import GuardEval, UNK as U
    program = ctx.program
    n = 0
    for fq in ('peptacular.chem.chem_util:_split_chem_formula',):
        f = program.func(fq)
        for loop in [x for x in walk_own(f.node) if isinstance(x, ast.While)]:
            # outermost scanning loops only
            if any(isinstance(y, ast.While) and y is not loop and any(z is loop for z in ast.walk(y))
                   for y in walk_own(f.node)):
                continue
            cur = subj = None
            for c_ in ast.walk(loop.test):
                if isinstance(c_, ast.Compare) and len(c_.ops) == 1 and isinstance(c_.ops[0], ast.Lt) and \
                        isinstance(c_.left, ast.Name) and isinstance(c_.comparators[0], ast.Call) and \
                        norm_stmt(c_.comparators[0].func) == 'len' and c_.comparators[0].args:
                    cur, subj = c_.left.id, norm_stmt(c_.comparators[0].args[0])
            if cur is None:
                raise AnalysisError(f'{fq}: scanning loop `while {norm_stmt(loop.test)[:40]}` has no cursor < len(..) test')
            here = f'{subj}[{cur}]'
            chars = set()
            for c_ in ast.walk(loop):
                if isinstance(c_, ast.Compare) and norm_stmt(c_.left) == here and len(c_.comparators) == 1 and \
                        isinstance(c_.comparators[0], ast.Constant) and isinstance(c_.comparators[0].value, str):
                    chars |= set(c_.comparators[0].value)
            classes = sorted(chars) + ['\x00other']

            def advances(st) -> bool:
                if isinstance(st, ast.AugAssign) and norm_stmt(st.target) == cur and isinstance(st.op, ast.Add) and \
                        isinstance(st.value, ast.Constant) and isinstance(st.value.value, int) and st.value.value > 0:
                    return True
                if isinstance(st, ast.Assign) and norm_stmt(st.targets[0]) == cur and isinstance(st.value, ast.BinOp) and \
                        isinstance(st.value.op, ast.Add) and isinstance(st.value.right, ast.Constant) and \
                        isinstance(st.value.right.value, int) and st.value.right.value > 0:
                    return True    # cursor = <position found at or after the cursor> + k
                return False

            def strictly_ahead(e, ge) -> bool:
                """is the value of e a position after the cursor, in the case at hand?"""
                if isinstance(e, ast.BinOp) and isinstance(e.op, ast.Add) and isinstance(e.right, ast.Constant) and \
                        isinstance(e.right.value, int) and e.right.value > 0:
                    return True     # <position found at or after the cursor> + k   (as for a direct assignment)
                # next((i for i in range(CUR, len(S)) if P(S[i])), len(S)): the first candidate is the cursor itself; when
                # P is decided false there (the current character is in another class) the result lies after it -- a later
                # index, or len(S), which the loop test puts after the cursor
                if isinstance(e, ast.Call) and norm_stmt(e.func) == 'next' and len(e.args) == 2 and \
                        isinstance(e.args[0], ast.GeneratorExp) and len(e.args[0].generators) == 1 and \
                        norm_stmt(e.args[1]) == f'len({subj})':
                    g = e.args[0].generators[0]
                    if isinstance(g.target, ast.Name) and isinstance(e.args[0].elt, ast.Name) and \
                            e.args[0].elt.id == g.target.id and isinstance(g.iter, ast.Call) and \
                            norm_stmt(g.iter.func) == 'range' and len(g.iter.args) == 2 and \
                            norm_stmt(g.iter.args[0]) == cur and norm_stmt(g.iter.args[1]) == f'len({subj})' and g.ifs:
                        class _AtCursor(ast.NodeTransformer):
                            def visit_Name(self, n_):
                                return ast.copy_location(ast.Name(id=cur, ctx=ast.Load()), n_) if n_.id == g.target.id else n_
                        import copy as _copy
                        firsts = [ge.eval(_AtCursor().visit(_copy.deepcopy(t))) for t in g.ifs]
                        return any(v is not U and not v for v in firsts)
                return False

            def follow(stmts, ge, ahead=frozenset()) -> bool:
                """True when every path through stmts advances the cursor or leaves the loop"""
                for k_, st in enumerate(stmts):
                    if isinstance(st, (ast.Raise, ast.Return, ast.Break)) or advances(st):
                        return True
                    if isinstance(st, ast.Assign) and len(st.targets) == 1 and isinstance(st.targets[0], ast.Name):
                        tname = st.targets[0].id
                        if tname == cur and isinstance(st.value, ast.Name) and st.value.id in ahead:
                            return True            # cursor = <a position known to lie after it>
                        if tname == cur and strictly_ahead(st.value, ge):
                            return True
                        if tname != cur:
                            ahead = (ahead | {tname}) if strictly_ahead(st.value, ge) else (ahead - {tname})
                        continue
                    if isinstance(st, ast.Continue):
                        return False
                    if isinstance(st, ast.If):
                        v = ge.eval(st.test)
                        rest = list(stmts[k_ + 1:])
                        if v is U:
                            return follow(list(st.body) + rest, ge, ahead) and follow(list(st.orelse) + rest, ge, ahead)
                        return follow((list(st.body) if v else list(st.orelse)) + rest, ge, ahead)
                    if isinstance(st, ast.While):
                        if ge.eval(st.test) is True and follow(list(st.body), ge, ahead):
                            return True
                        continue
                    if isinstance(st, (ast.For, ast.Try, ast.With)):
                        continue     # not relied upon
                return False
            for ch in classes:
                n += 1
                env = {here: ch if ch != '\x00other' else 'x', f'{cur} < len({subj})': True}
                ok = follow(list(loop.body), GuardEval(env))
                shown = repr(ch) if ch != '\x00other' else 'any other character'
                ob(rep, 'EXC-progress', fq, f'scanning loop `while {norm_stmt(loop.test)[:40]}`: the cursor moves when the '
                   f'current character is {shown}', ok, 'advances, raises, returns or breaks',
                   f'when {here} is {shown} a path through the loop body neither moves `{cur}` forward nor leaves the '
                   f'loop: the tokenizer hangs (and keeps appending) on such a formula -- parse_chem_formula, chem_mass '
                   f'and the mass of a peptide with such a Formula: modification never return', f.loc(loop), clause)
    rep.floor('EXC-progress', 'character classes followed through the formula tokenizer', n, 3)


def loop_progress(ctx, rep, clause):
    program = ctx.program
    cls = program.cls(PARSER)
    n = 0
    for name, m in sorted(cls.methods.items()):
        for node in walk_own(m.node):
            if not isinstance(node, ast.While):
                continue
            if name == 'parse':
                continue
            n += 1
            if len(node.body) == 1 and isinstance(node.body[0], ast.AugAssign):
                stuck = [] if _advances(node.body[0], ADVANCERS) else [node.body[0]]
            else:
                stuck = _progress_paths(list(node.body), ADVANCERS)
            ob(rep, 'EXC-progress', m.fq, f'loop `while {norm_stmt(node.test)[:50]}` makes progress on every path',
               not stuck, 'every path advances the cursor, returns, raises or breaks',
               f'a path through the loop body (ending at `{norm_stmt(stuck[0])[:50] if stuck and stuck[0] is not None else "end of body"}`) '
               f'neither moves the cursor nor leaves the loop: the parser hangs on such input',
               m.loc(stuck[0]) if stuck and stuck[0] is not None else m.loc(node), clause)
    # module-level helper parsers with their own position variable
    for fq in (f'{PP}:_parse_modifications', f'{PP}:_parse_modification', f'{PP}:_parse_integer'):
        f = program.func(fq)
        for node in walk_own(f.node):
            if isinstance(node, ast.While):
                n += 1
                cursors = {x.id for x in ast.walk(node.test) if isinstance(x, ast.Name)} - {p_.name for p_ in f.params}
                stuck = _progress_paths(list(node.body), set(), cursors)
                # the position cursor is the name the loop test compares with the length of the input
                cz = Canon(f.node)
                pos_cursors = set()
                for cmp_ in [y for y in ast.walk(node.test) if isinstance(y, ast.Compare) and len(y.ops) == 1]:
                    sides = [cmp_.left, cmp_.comparators[0]]
                    for a_, b_ in (sides, sides[::-1]):
                        if isinstance(a_, ast.Name) and 'len(' in norm_stmt(cz.resolve(b_)):
                            pos_cursors.add(a_.id)
                counts = _advance_counts(list(node.body), pos_cursors or cursors)
                ob(rep, 'EXC-progress', fq, f'loop `while {Canon(f.node).text(node.test)[:50]}` moves its cursor once per '
                   f'iteration', bool(counts) and max(counts) <= 1, f'advances per path: {sorted(set(counts))}',
                   f'a path through the loop body advances the cursor {max(counts) if counts else 0} times: after a '
                   f'bracket group has been consumed the next character is skipped as well, so every second of two '
                   f'adjacent groups (`[A][B]`) is silently dropped instead of parsed (and validated)', f.loc(node),
                   clause)
                ob(rep, 'EXC-progress', fq, f'loop `while {Canon(f.node).text(node.test)[:50]}` makes progress on every path',
                   not stuck, 'every path advances or leaves', 'a path through the loop body does not advance',
                   f.loc(node), clause)
    rep.floor('EXC-progress', 'cursor loops', n, 9)
    # outer loop of parse(): the three phases in order; phase 1 returns only on what phase 2 consumes
    p = cls.methods['parse']
    seq = [x.func.attr for x in ast.walk(p.node) if isinstance(x, ast.Call) and isinstance(x.func, ast.Attribute)
           and x.func.attr.startswith('_parse_sequence_')]
    ob(rep, 'EXC-progress', p.fq, 'each iteration runs start, middle, end in this order',
       seq == ['_parse_sequence_start', '_parse_sequence_middle', '_parse_sequence_end'], ' -> '.join(seq),
       f'phase order is {seq}', p.loc(), clause)
    start = cls.methods['_parse_sequence_start']
    ret_guards = []
    for node in walk_own(start.node):
        if isinstance(node, ast.If) and any(isinstance(s, ast.Return) for s in node.body):
            ret_guards.append(node.test)
    ok = len(ret_guards) == 1
    consumed = True
    middle = cls.methods['_parse_sequence_middle']
    if ok:
        parts = ret_guards[0].values if isinstance(ret_guards[0], ast.BoolOp) else [ret_guards[0]]
        mid_tests = {}
        cm, cs = Canon(middle.node), Canon(start.node)
        for node in walk_own(middle.node):
            if isinstance(node, ast.If):
                mid_tests[cm.text(node.test)] = node
        for part in parts:
            t = cs.text(part)
            node = mid_tests.get(t)
            if node is None or _progress_paths(list(node.body), ADVANCERS):
                consumed = False
    ob(rep, 'EXC-progress', start.fq, 'phase 1 returns without consuming only on characters phase 2 consumes',
       ok and consumed, 'residue or `(`: both consumed by the middle phase',
       'the start phase can return on a character the middle phase does not consume: parse() would loop forever',
       start.loc(), clause)


def _bounds_atoms(test, polarity: bool):
    """atomic facts about `index` implied by a test being true (polarity=True) or false: set of
    ('lt_len'|'le_len'|'ge0'|'gt0', ) from comparisons of index with 0 / len(sequence)"""
    out = set()

    def cmp_atoms(left, op, right, pol):
        l, r = norm_stmt(left), norm_stmt(right)
        table = {ast.Lt: '<', ast.LtE: '<=', ast.Gt: '>', ast.GtE: '>='}
        sym = None
        for k, v in table.items():
            if isinstance(op, k):
                sym = v
        if sym is None:
            return
        if not pol:
            sym = {'<': '>=', '<=': '>', '>': '<=', '>=': '<'}[sym]
        # normalise to "index <sym> X"
        if r == 'index':
            l, r = r, l
            sym = {'<': '>', '<=': '>=', '>': '<', '>=': '<='}[sym]
        if l != 'index':
            return
        if r == 'len(sequence)':
            if sym == '<':
                out.add('lt_len')
            elif sym == '<=':
                out.add('le_len')
        if r == 'len(sequence) - 1' and sym == '<=':
            out.add('lt_len')
        if r == '0':
            if sym == '>=':
                out.add('ge0')
        if r == '-1' and sym == '>':
            out.add('ge0')

    def walk(t, pol):
        if isinstance(t, ast.UnaryOp) and isinstance(t.op, ast.Not):
            walk(t.operand, not pol)
        elif isinstance(t, ast.BoolOp):
            conj = isinstance(t.op, ast.And)
            # facts survive only through a conjunction when true, or a disjunction when false (De Morgan)
            if conj == pol:
                for v in t.values:
                    walk(v, pol)
        elif isinstance(t, ast.Compare):
            if pol or len(t.ops) == 1:
                left = t.left
                for op, right in zip(t.ops, t.comparators):
                    cmp_atoms(left, op, right, pol)
                    left = right
    walk(test, polarity)
    return out


def error_marker_bounds(ctx, rep, clause):
    """the format error itself subscripts the input at the error index: that read must be guarded by
    0 <= index < len(sequence) (an index equal to the length is how end-of-input errors are reported)"""
    program = ctx.program
    f = program.func('peptacular.errors:ProFormaFormatError.__init__')
    n = 0

    def visit(block, facts):
        nonlocal n
        for st in block:
            if isinstance(st, ast.If):
                visit(st.body, facts | _bounds_atoms(st.test, True))
                visit(st.orelse, facts | _bounds_atoms(st.test, False))
                continue
            for x in ast.walk(st):
                if isinstance(x, ast.Subscript) and norm_stmt(x.value) == 'sequence' and \
                        not isinstance(x.slice, ast.Slice) and 'index' in norm_stmt(x.slice):
                    n += 1
                    ok = norm_stmt(x.slice) == 'index' and {'lt_len', 'ge0'} <= facts
                    ob(rep, 'EXC-bounds', f.fq, f'`{norm_stmt(x)}` is guarded by 0 <= index < len(sequence)', ok,
                       'dominating bounds test', f'`{norm_stmt(x)}` is reached with only {sorted(facts)} established: '
                       f'an error reported at the end of the input (index == len) raises IndexError from inside the '
                       f'format error', f.loc(x), clause)
    visit(f.node.body, set())
    rep.floor('EXC-bounds', 'subscripts of the input inside ProFormaFormatError', n, 1)


def designed_zero(ctx, rep, clause):
    """the only modification value that resolves to nothing is a bare localisation tag (#tag): every constant
    zero / empty result of the two resolvers is control dependent on `startswith('#')`"""
    program = ctx.program
    n = 0
    for fq in ('peptacular.mass_calc:_parse_mod_mass', 'peptacular.chem.chem_calc:_parse_mod_comp'):
        f = program.func(fq)

        def visit(block, tests):
            nonlocal n
            for st in block:
                if isinstance(st, ast.If):
                    visit(st.body, tests + [norm_stmt(st.test)])
                    visit(st.orelse, tests)
                elif isinstance(st, ast.Return) and st.value is not None:
                    v = st.value
                    zero = (isinstance(v, ast.Constant) and v.value in (0, 0.0) and v.value is not None and
                            not isinstance(v.value, bool)) or (isinstance(v, ast.Dict) and not v.keys)
                    if zero:
                        n += 1
                        ok = any("startswith('#')" in t for t in tests)
                        ob(rep, 'EXC-terminal', fq, f'`{norm_stmt(st)}` is the designed zero of a bare #tag', ok,
                           "under `mod.startswith('#')`",
                           f'`{norm_stmt(st)}` under {tests}: a modification value other than a bare localisation tag '
                           f'resolves to nothing instead of raising', f.loc(st), clause)
        visit(f.node.body, [])
    rep.floor('EXC-terminal', 'designed-zero returns in the resolvers', n, 2)


def check(ctx, rep):
    rep.explanation = EXPLANATION
    an, program = ctx.analyzer, ctx.program
    parse_graph = reachable(an, program, [f'{PP}:parse'])
    rep.coverage_extra['parse_graph'] = sorted(f.fq for f in parse_graph)
    if len(parse_graph) < 25:
        raise AnalysisError(f'call graph rooted at parse() has only {len(parse_graph)} functions (expected about 40)')
    cursor_typestate(ctx, rep, 'C09a')
    union_field_guard(ctx, rep, parse_graph, 'C09b')
    raise_discipline(ctx, rep, parse_graph, 'C09c', 'parse')
    handler_discipline(ctx, rep, parse_graph, 'C09c', 'parse')
    loop_progress(ctx, rep, 'C09d')
    char_case_progress(ctx, rep, 'C09d')
    multiplier_is_a_number(ctx, rep, 'C09a')
    resolution_independent_of_residues(ctx, rep, 'C09e')
    error_marker_bounds(ctx, rep, 'C09a')
    designed_zero(ctx, rep, 'C09e')
    deferred = reachable(an, program, ['peptacular.mass_calc:mod_mass', 'peptacular.chem.chem_calc:mod_comp',
                                       'peptacular.chem.chem_calc:_parse_mod_delta_mass_only'])
    # the OBO loaders are import-time code reached through the databases, not part of resolving a modification
    deferred = [f for f in deferred if f.module.name not in ('peptacular.mods.mod_db_setup',) or
                f.name in ('_glycan_comp', '_parse_glycan_formula')]
    rep.coverage_extra['deferred_graph'] = sorted(f.fq for f in deferred)
    raise_discipline(ctx, rep, deferred, 'C09e', 'deferred-validation')
    k = handler_discipline(ctx, rep, deferred, 'C09e', 'deferred-validation')
    rep.floor('EXC-handler', 'handlers in the deferred-validation graph', k, 8)
    terminal_raise(ctx, rep, 'C09e')
