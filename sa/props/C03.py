"""C03 -- mass calculator and elemental-composition calculator always agree (structural necessary conditions)."""
import ast

from ..rules_flow import forwarding
from .. import rules_tab as rt
from ..loader import walk_own, norm_stmt, AnalysisError
from .common import add_fwd, add_checks, calls_in, ret_deps_by_node
from .common import check as ob
from ..canon import Canon
from . import C02, C10

EXPLANATION = (
    'Decides the points where the two calculators keep the same quantity twice and must keep it identically: '
    '(a) the charge carrier of every ion type as composition vs as adduct string, key sets of the ion tables, '
    'merged tables; (b) the same modification fields are accumulated by the mass fast path, the composition path '
    'and the delta-mass splitter, and the labile contribution is control-dependent on ion_type == p in all '
    'three; (c) adduct mass is the mass of the adduct composition (degree in the ion count), proton mass vs H+ '
    'composition; (d) monoisotopic/use_isotope_on_mods/isotope_mods/charge_adducts/ion_type/isotope are forwarded '
    'mass -> comp_mass -> _sequence_comp; (e) both Mod unwrap sites multiply by the multiplier; (f) estimate_comp '
    'divides by the averagine mass defined over the same ratio table; (g) particle keys e/p/n map to the matching '
    'constants; (h) mass and composition resolvers dispatch a spelling in the same order (shared with C10). '
    'Not decided: numeric agreement for every annotation, averagine estimation error, table data values.')

MASS = 'peptacular.mass_calc:mass'
SEQ_COMP = 'peptacular.chem.chem_calc:_sequence_comp'
POP_DELTA = 'peptacular.mass_calc:_pop_delta_mass_mods'
COMP_MASS = 'peptacular.mass_calc:comp_mass'
MOD_FIELDS = ['labile_mods', 'unknown_mods', 'nterm_mods', 'intervals', 'internal_mods', 'cterm_mods']


def accumulators(ctx, rep, clause):
    """the three accumulators (mass fast path, composition, numeric shifts split off the composition path) resolve
    modifications from the same fields, and each reads the labile modifications only under a test of the ion type"""
    from ..guards import dominating_tests
    an, program = ctx.analyzer, ctx.program
    n_lab = 0
    labile_tables = []
    for fq, callee, fields in ((MASS, 'mod_mass', MOD_FIELDS), (SEQ_COMP, 'mod_comp', MOD_FIELDS),
                               (POP_DELTA, '_parse_mod_delta_mass_only', MOD_FIELDS)):
        f = program.func(fq)
        srcs, sites = C02.term_sources(f, callee, None, program, with_sites=True)
        for fld in fields:
            ob(rep, 'FLD', fq, f'accumulates field {fld}', fld in srcs,
               'the field feeds the resolver of this calculator', f'field {fld} never reaches {callee} here: '
               f'modifications written there are ignored by this calculator only', f.loc(), clause)
        for g, node in sites.get('labile_mods', []):
            # only reads that feed the resolver (not has_labile_mods() tests or pops)
            n_lab += 1
            cg = Canon(g.node)
            tests = [norm_stmt(cg.resolve(t)) for t, _pol in dominating_tests(g.node, node)]
            guarded = any('ion_type' in t for t in tests)
            ob(rep, 'SIB-guard', g.fq, f'the labile modifications are read under a test of the ion type (in {fq.split(":")[1]})',
               guarded, 'control dependent on the ion type (precursor only)',
               'the labile modifications are accumulated for every ion type: the other calculator counts them '
               'for the precursor only, so the two disagree for fragment ions', g.loc(node), clause)
            # ... and for which ion types: the tests that mention the ion type, decided for every ion type
            from ..guards import GuardEval, UNK
            table = {}
            for it in ('p', 'n', 'a', 'b', 'c', 'x', 'y', 'z', 'i', 'by'):
                v = True
                for t, pol in dominating_tests(g.node, node):
                    rt = cg.resolve(t)
                    if 'ion_type' not in norm_stmt(rt):
                        continue
                    parts = rt.values if isinstance(rt, ast.BoolOp) and isinstance(rt.op, ast.And) and pol else [rt]
                    for part in parts:
                        if 'ion_type' not in norm_stmt(part):
                            continue
                        r = GuardEval({'ion_type': it}).eval(part)
                        if r is UNK:
                            v = UNK
                        elif v is not UNK:
                            v = v and (bool(r) == pol)
                table[it] = v
            if guarded and not any(v is UNK for v in table.values()):
                counted = sorted(k for k, v in table.items() if v)
                labile_tables.append((g.fq, counted))
                ob(rep, 'SIB-guard', g.fq, f'the labile modifications are counted for the precursor only (in {fq.split(":")[1]})',
                   counted == ['p'], "ion type 'p'",
                   f'the labile modifications are counted for the ion types {counted}: the other calculator counts them '
                   f"for 'p' only, so mass and composition + residual disagree for the other ones", g.loc(node), clause)
    rep.floor('SIB-guard', 'reads of the labile modifications that feed a resolver', n_lab, 3)
    # _pop_delta_mass_mods skips static rules: accepted only because its sole caller condenses them first
    callers = [k[0] for k, recs in an.calls.items() if k[1] == () and
               any(r.callee is not None and r.callee.fq == POP_DELTA for r in recs)]
    ob(rep, 'SIB-guard', POP_DELTA, 'sole caller is comp_mass', sorted(set(callers)) == [COMP_MASS],
       'only comp_mass calls it', f'called from {sorted(set(callers))}: static rules are not split there', 
       program.func(POP_DELTA).loc(), clause)
    order = []
    for r in calls_in(an, COMP_MASS):
        if r.callee is None:
            continue
        if r.callee.name in ('condense_static_mods', '_pop_delta_mass_mods', '_sequence_comp'):
            inplace = any(kw.arg == 'inplace' and isinstance(kw.value, ast.Constant) and kw.value.value is True
                          for kw in r.node.keywords)
            order.append((r.node.order, r.callee.name, inplace))
    order.sort()
    names = [n for _, n, _ in order]
    ok = names[:3] == ['condense_static_mods', '_pop_delta_mass_mods', '_sequence_comp'] and order[0][2]
    ob(rep, 'SIB-guard', COMP_MASS, 'condense_static_mods(inplace=True) precedes the delta-mass split and the '
       'composition', ok, 'static rules are explicit before numeric shifts are split off',
       f'call order is {names}: numeric static rules would reach mod_comp (which rejects them) or be dropped',
       program.func(COMP_MASS).loc(), clause)


def _under_labile_loop(f, st) -> bool:
    for n in walk_own(f.node):
        if isinstance(n, ast.For) and 'labile_mods' in norm_stmt(n.iter):
            if any(x is st for x in ast.walk(n)):
                return True
    return False


def source_parity(ctx, rep, clause):
    """the mass accumulator and the composition accumulator resolve modifications from the same places"""
    program = ctx.program
    a = C02.term_sources(program.func(MASS), 'mod_mass', None, program)
    b = C02.term_sources(program.func(SEQ_COMP), 'mod_comp', None, program)
    # a source the provenance analysis does not find, although the field it comes from does reach the calculator's
    # result (slice of the returned value): the calculator is written in a form this rule does not read -- that is not
    # a witness of a calculator ignoring the source
    from .common import ret_tags
    an = ctx.analyzer
    tags = {MASS: ret_tags(an, MASS), SEQ_COMP: ret_tags(an, SEQ_COMP)}
    for kind in C02.SOURCE_KINDS:
        fld = 'static_mods' if kind.startswith('static rule') else kind
        for fq, found in ((MASS, a), (SEQ_COMP, b)):
            # the three static kinds share one field: only when none of them is recognised is the form unread (one of
            # them missing while the others are found is an omission)
            if kind.startswith('static rule') and any(k.startswith('static rule') for k in found):
                continue
            if kind not in found and fld in tags[fq]:
                raise AnalysisError(f'{fq}: modifications from {kind} reach the result (field {fld} is in the slice of '
                                    f'the returned value) but the term that adds them was not recognised')
    for kind in C02.SOURCE_KINDS:
        ob(rep, 'SIB-source', MASS if kind not in a else SEQ_COMP, f'both calculators resolve modifications from {kind}',
           kind in a and kind in b, f'mass: {len(a.get(kind, []))} site(s), composition: {len(b.get(kind, []))} site(s)',
           f'modifications from {kind} are resolved by ' +
           ('neither calculator' if kind not in a and kind not in b else
            ('the composition calculator only' if kind not in a else 'the mass calculator only')) +
           ': mass and composition of such a peptide disagree', program.func(MASS if kind not in a else SEQ_COMP).loc(),
           clause)
    extra = sorted(k for k in set(a) ^ set(b) if k not in C02.SOURCE_KINDS)
    ob(rep, 'SIB-source', MASS, 'no further modification source is read by one calculator only', not extra, 'none',
       f'read by one calculator only: {extra}', program.func(MASS).loc(), clause)


def default_carrier_guard(ctx, rep, clause):
    """the composition calculator treats a given adduct list as the complete list of charge carriers and adds the
    default carriers only when none is given; adjust_mass must take its default-protonation branch under the same
    condition -- a test of `charge_adducts` against None and nothing else"""
    from ..poly import PathEval
    program = ctx.program
    for fq in ('peptacular.mass_calc:adjust_mass', SEQ_COMP, COMP_MASS):
        f = program.find_func(fq)
        if f is None or f.param('charge_adducts') is None and f.param('adducts') is None:
            continue
        pname = 'charge_adducts' if f.param('charge_adducts') is not None else 'adducts'
        for x in walk_own(f.node):
            t = x.test if isinstance(x, (ast.If, ast.IfExp, ast.While)) else None
            if t is None:
                continue
            if not any(isinstance(y, ast.Name) and y.id == pname for y in ast.walk(t)):
                continue
            parts = t.values if isinstance(t, ast.BoolOp) else [t]
            for part in parts:
                if not any(isinstance(y, ast.Name) and y.id == pname for y in ast.walk(part)):
                    continue
                txt, _pol = PathEval.canon(part)
                ok = txt in (f'{pname} is None', f'{pname} is not None', pname, f'isinstance({pname}, str)',
                             f'isinstance({pname}, Mod)', f'isinstance({pname}, list)', f'len({pname}) == 0')
                ob(rep, 'SIB-guard', f.fq, f'the adduct list is tested only for presence / type (`{txt}`)', ok,
                   'given list = complete list of carriers, None = default carriers',
                   f'`{norm_stmt(part)}` makes the choice between default and explicit charge carriers depend on the '
                   f'*value* of the adduct list: the mass calculator and the composition calculator (which takes a '
                   f'given list as complete) count different carriers for that value', f.loc(x), clause)


def multiplier_parity(ctx, rep, clause):
    an, program = ctx.analyzer, ctx.program
    for fq in ('peptacular.mass_calc:mod_mass', 'peptacular.chem.chem_calc:mod_comp',
               'peptacular.chem.chem_calc:_parse_mod_delta_mass_only'):
        ok = False
        for node, av, kind in ret_deps_by_node(an, fq):
            if '@mult' in av.deps and '@val' in av.deps:
                ok = True
        ob(rep, 'SIB-mult', fq, 'Mod unwrap scales by .mult', ok, 'the value of .val is scaled by .mult',
           'no return combines .val with .mult: one calculator would ignore `^n`', program.func(fq).loc(), clause)


def unwrap_sites(ctx, rep, clause):
    """the resolvers are handed the Mod object (value and multiplier), never the bare .val -- except for static
    rules, whose multiplier the parser restricts to 1"""
    program = ctx.program
    n = 0
    for fq, callee in ((MASS, 'mod_mass'), (SEQ_COMP, 'mod_comp')):
        f = program.func(fq)
        static_blocks = [x for x in walk_own(f.node) if isinstance(x, ast.If) and 'has_static_mods' in norm_stmt(x.test)]
        for node in walk_own(f.node):
            if isinstance(node, ast.Call) and isinstance(node.func, ast.Name) and node.func.id == callee and node.args:
                n += 1
                a = node.args[0]
                bare = isinstance(a, ast.Attribute) and a.attr == 'val'
                in_static = any(node in list(ast.walk(b)) for b in static_blocks)
                ob(rep, 'SIB-mult', fq, f'`{norm_stmt(node)}` passes the modification with its multiplier',
                   (not bare) or in_static, 'Mod object' if not bare else 'static rule (multiplier restricted to 1)',
                   f'`{norm_stmt(node)}` unwraps .val before the resolver sees the multiplier: `[X]^2` at this position '
                   f'is counted once by this calculator and twice by the other', f.loc(node), clause)
    rep.floor('SIB-mult', 'resolver call sites in the two accumulators', n, 4)


def definition_pairing(ctx, rep, clause):
    program = ctx.program
    f = program.func('peptacular.chem.chem_calc:estimate_comp')
    # the estimate is linear in the mass: count(atom) = ratio(atom) * neutral_mass / ISOTOPIC_AVERAGINE_MASS, with no
    # clamping, rounding or offset (the residual it absorbs can be negative; any non-linear step changes the mass)
    comps = [n for n in walk_own(f.node) if isinstance(n, ast.DictComp) and
             'AVERAGINE_RATIOS.items()' in norm_stmt(n.generators[0].iter)]
    ok, why = False, 'no dict comprehension over AVERAGINE_RATIOS.items() found'
    if comps:
        dc = comps[0]
        tgt = dc.generators[0].target
        ratio = tgt.elts[1].id if isinstance(tgt, ast.Tuple) and len(tgt.elts) == 2 and \
            isinstance(tgt.elts[1], ast.Name) else None
        num, den, other = [], [], []

        def collect(e, into_num=True):
            if isinstance(e, ast.BinOp) and isinstance(e.op, ast.Mult):
                collect(e.left, into_num)
                collect(e.right, into_num)
            elif isinstance(e, ast.BinOp) and isinstance(e.op, ast.Div):
                collect(e.left, into_num)
                collect(e.right, not into_num)
            elif isinstance(e, ast.Name):
                (num if into_num else den).append(e.id)
            else:
                other.append(norm_stmt(e))
        collect(dc.value)
        ok = not other and sorted(num) == sorted([ratio or '?', 'neutral_mass']) and den == ['ISOTOPIC_AVERAGINE_MASS'] \
            and not dc.generators[0].ifs
        why = f'numerator {sorted(num)}, divisor {den}' + (f', non-linear part {other}' if other else '')
        # the mass in the product is the mass that was asked for: the parameter is not re-bound (clamped, rounded,
        # shifted) on the way
        rebound = [x for x in walk_own(f.node) if isinstance(x, ast.Name) and isinstance(x.ctx, ast.Store) and
                   x.id == 'neutral_mass']
        if rebound:
            ok = False
            st_ = next((a for a in walk_own(f.node) if isinstance(a, (ast.Assign, ast.AugAssign)) and
                        any(y is rebound[0] for y in ast.walk(a))), rebound[0])
            why += f'; the mass is re-bound first: `{norm_stmt(st_)[:60]}`'
    ob(rep, 'SIB-def', f.fq, 'estimate = ratio * mass / ISOTOPIC_AVERAGINE_MASS over AVERAGINE_RATIOS', ok, why,
       f'the per-atom estimate is not the plain product ratio x neutral_mass / ISOTOPIC_AVERAGINE_MASS ({why}): the '
       f'estimated composition no longer has the requested mass (the residual it absorbs may be negative)', f.loc(),
       clause)
    # particle keys in chem_mass
    g = program.func('peptacular.chem.chem_util:chem_mass')
    want = {'e': 'ELECTRON_MASS', 'p': 'PROTON_MASS', 'n': 'NEUTRON_MASS'}
    found = {}
    for n in walk_own(g.node):
        if isinstance(n, ast.If) and isinstance(n.test, ast.Compare) and len(n.test.comparators) == 1 and \
                isinstance(n.test.comparators[0], ast.Constant) and n.test.comparators[0].value in want and \
                isinstance(n.test.ops[0], ast.Eq):
            names = {x.id for s in n.body for x in ast.walk(s) if isinstance(x, ast.Name)}
            found[n.test.comparators[0].value] = (names, n)
        # ... or as the arm of a conditional expression: `ELECTRON_MASS if element == 'e' else ...`
        if isinstance(n, ast.IfExp) and isinstance(n.test, ast.Compare) and len(n.test.comparators) == 1 and \
                isinstance(n.test.comparators[0], ast.Constant) and n.test.comparators[0].value in want and \
                isinstance(n.test.ops[0], ast.Eq) and n.test.comparators[0].value not in found:
            found[n.test.comparators[0].value] = ({x.id for x in ast.walk(n.body) if isinstance(x, ast.Name)}, n)
    # ... or the particles are looked up in a literal table {'e': ELECTRON_MASS, ...}
    for n in walk_own(g.node):
        if isinstance(n, ast.Dict) and n.keys and all(isinstance(k_, ast.Constant) for k_ in n.keys):
            for k_, v_ in zip(n.keys, n.values):
                if k_.value in want and k_.value not in found:
                    found[k_.value] = ({x.id for x in ast.walk(v_) if isinstance(x, ast.Name)}, n)
    for k, const in want.items():
        names, node = found.get(k, (set(), None))
        ob(rep, 'SIB-def', g.fq, f"particle '{k}' weighs {const}", const in names and
           not (set(want.values()) - {const}) & names, f'{const} x count',
           f"the branch for '{k}' does not use {const} (uses {sorted(names & set(want.values()))})",
           g.loc(node) if node is not None else g.loc(), clause)
    # the isotope offset enters the composition as neutrons
    h = program.func('peptacular.chem.chem_calc:_sequence_comp')
    ok = any(isinstance(n, ast.Assign) and isinstance(n.targets[0], ast.Subscript) and
             isinstance(n.targets[0].slice, ast.Constant) and n.targets[0].slice.value == 'n' and
             any(isinstance(x, ast.Name) and x.id == 'isotope' for x in ast.walk(n.value))
             for n in walk_own(h.node))
    ob(rep, 'SIB-def', h.fq, "isotope offset is added as 'n' (neutrons)", ok, "composition['n'] += isotope",
       'the isotope offset no longer enters the composition as neutrons', h.loc(), clause)
    # proton as mass vs as composition
    data = rt.read_chem_txt(program)
    t = rt.Tables(program)
    mH = data.get(('H', 1), (None,))[0]
    diff = abs(t['PROTON_MASS'] - (mH - t['ELECTRON_MASS'])) if mH else 1
    ob(rep, 'TAB-reference', 'peptacular.constants', 'PROTON_MASS == m(1H) - ELECTRON_MASS within 2e-8', diff < 2e-8,
       f'difference {diff:.2e}', f'difference {diff:.2e}: charge as mass and charge as composition drift apart',
       t.loc('PROTON_MASS'), clause)


def check(ctx, rep):
    rep.explanation = EXPLANATION
    an, program = ctx.analyzer, ctx.program
    t = rt.Tables(program)
    add_checks(rep, rt.sibling_table_checks(t), 'C03a')
    add_checks(rep, rt.derived_table_checks(program), 'C03a', 'peptacular.chem.chem_constants')
    accumulators(ctx, rep, 'C03b')
    C02.adduct_homogeneity(ctx, rep, 'C03c')
    obs = forwarding(an, program, ['monoisotopic', 'use_isotope_on_mods', 'isotope_mods', 'charge_adducts',
                                   'ion_type', 'isotope', 'charge'],
                     callers={MASS, COMP_MASS, 'peptacular.mass_calc:comp', 'peptacular.mass_calc:mz',
                              'peptacular.mass_calc:mod_mass', 'peptacular.mass_calc:_parse_mod_mass',
                              'peptacular.chem.chem_calc:mod_comp', 'peptacular.chem.chem_calc:_parse_mod_comp'})
    n = add_fwd(rep, obs, 'C03d')
    rep.floor('FWD', 'forwarding sites between the two calculators', n, 20)
    source_parity(ctx, rep, 'C03b')
    default_carrier_guard(ctx, rep, 'C03b')
    from .common import self_accumulation_rule
    self_accumulation_rule(ctx, rep, 'C03b', ('peptacular.chem.chem_calc', 'peptacular.mass_calc'))
    from .common import stale_accumulator_rule
    stale_accumulator_rule(ctx, rep, 'C03b', ('peptacular.chem.chem_calc', 'peptacular.mass_calc'), floor=3)
    multiplier_parity(ctx, rep, 'C03e')
    unwrap_sites(ctx, rep, 'C03e')
    definition_pairing(ctx, rep, 'C03f')
    C10.dispatch_parity(ctx, rep, 'C03h')
    C10.ambiguous_tokens(ctx, rep, 'C03g')
    C02.isotope_selection(ctx, rep, 'C03f')
    from .common import memo_rule
    memo_rule(ctx, rep, 'C03i', ('peptacular.mass_calc', 'peptacular.chem.chem_calc', 'peptacular.chem.chem_util'))
