"""C20 -- modification dictionaries and annotation copies reconstruct the same peptide (structural conditions)."""
import ast
from typing import Dict, Set

from ..loader import AnalysisError, norm_stmt, walk_own
from .. import types as ty
from .common import ret_tags
from .common import check as ob

EXPLANATION = (
    'Decides: (a) key scheme: every key that mod_dict() or pop_mods() can produce (named keys + integer residue '
    'indices) is consumed by add_mod_dict() and routed to the adder/setter of the same field; (b) field coverage: '
    '__eq__ compares and dict() copies all 11 fields, mod_dict/pop_mods/strip(inplace)/has_mods/clear_empty_mods '
    'cover the 10 modification fields, create_annotation passes all 11; (c) Mod.__hash__ and Interval.__hash__ use '
    'exactly the fields their __eq__ compares and the interval hash is order-insensitive in its modifications '
    '(equality goes through Counter, i.e. through both); (d) copy(), dict(), mod_dict() return objects with no '
    'origin in self, property setters store copies, create_annotation does not capture its arguments. Not decided: '
    'add_mods(strip(s), get_mods(s)) == s for every s; that equality distinguishes every perturbation.')

PP = 'peptacular.proforma.proforma_parser'
PFA = f'{PP}:ProFormaAnnotation'
DC = 'peptacular.proforma.proforma_dataclasses'
MOD_FIELDS = ['isotope_mods', 'static_mods', 'labile_mods', 'unknown_mods', 'nterm_mods', 'cterm_mods',
              'internal_mods', 'intervals', 'charge', 'charge_adducts']


def produced_keys(f, var_hint=None) -> Dict[str, str]:
    """string key -> field it is filled from (dict displays and `d['k'] = ...` stores)"""
    out = {}
    for n in walk_own(f.node):
        if isinstance(n, ast.Dict):
            for k, v in zip(n.keys, n.values):
                if isinstance(k, ast.Constant) and isinstance(k.value, str):
                    out[k.value] = _field_of(v)
        if isinstance(n, ast.Assign) and isinstance(n.targets[0], ast.Subscript) and \
                isinstance(n.targets[0].slice, ast.Constant) and isinstance(n.targets[0].slice.value, str):
            out[n.targets[0].slice.value] = _field_of(n.value)
        # a table of (key, ..., self.pop_<field>) rows driven by one loop
        if isinstance(n, ast.Tuple) and n.elts and isinstance(n.elts[0], ast.Constant) and isinstance(n.elts[0].value, str):
            for x in n.elts[1:]:
                if isinstance(x, ast.Attribute) and norm_stmt(x.value) == 'self' and x.attr.startswith('pop_'):
                    out[n.elts[0].value] = x.attr[len('pop_'):].lstrip('_')
    return out


def _field_of(e) -> str:
    t = norm_stmt(e)
    for pre in ('self.pop_', 'self.'):
        if t.startswith(pre):
            t = t[len(pre):]
            break
    return t.replace('()', '').lstrip('_')


def consumed_keys(f) -> Dict[str, str]:
    """key -> field it is routed to, from `if 'k' in mod_dict: self.add_X(mod_dict['k'], ...)` / `self.X = mod_dict['k']`"""
    out = {}
    for n in walk_own(f.node):
        if isinstance(n, ast.If) and isinstance(n.test, ast.Compare) and isinstance(n.test.ops[0], ast.In) and \
                isinstance(n.test.left, ast.Constant) and isinstance(n.test.left.value, str):
            key = n.test.left.value
            for st in n.body:
                for c in ast.walk(st):
                    if isinstance(c, ast.Call) and isinstance(c.func, ast.Attribute) and c.func.attr.startswith('add_') \
                            and norm_stmt(c.func.value) == 'self' and f"['{key}']" in norm_stmt(c):
                        out[key] = c.func.attr[len('add_'):]
                if isinstance(st, ast.Assign) and isinstance(st.targets[0], ast.Attribute) and \
                        norm_stmt(st.targets[0].value) == 'self' and f"['{key}']" in norm_stmt(st.value):
                    out[key] = st.targets[0].attr.lstrip('_')
        # a dispatch table {key: self.add_<field>} (or a lambda that calls one) driven by `if key in mod_dict`
        if isinstance(n, ast.Dict) and n.keys and all(isinstance(k, ast.Constant) and isinstance(k.value, str) for k in n.keys):
            rows = {}
            for k, v in zip(n.keys, n.values):
                adders = [x.attr for x in ast.walk(v) if isinstance(x, ast.Attribute) and norm_stmt(x.value) == 'self'
                          and x.attr.startswith('add_')]
                if len(adders) == 1:
                    rows[k.value] = adders[0][len('add_'):]
            if len(rows) == len(n.keys):
                out.update(rows)
    return out


CANON = {'isotope': 'isotope_mods', 'static': 'static_mods', 'labile': 'labile_mods', 'unknown': 'unknown_mods',
         'nterm': 'nterm_mods', 'cterm': 'cterm_mods', 'internal': 'internal_mods'}


def canon(field: str) -> str:
    return CANON.get(field, field)


def key_scheme(ctx, rep, clause):
    program = ctx.program
    md = program.func(f'{PFA}.mod_dict')
    pm = program.func(f'{PFA}.pop_mods')
    am = program.func(f'{PFA}.add_mod_dict')
    cons = consumed_keys(am)
    if len(cons) < 8:
        raise AnalysisError(f'add_mod_dict: only {len(cons)} consumed keys recognised')
    int_keys = any(isinstance(n, ast.Call) and norm_stmt(n.func) == 'isinstance' and 'int' in norm_stmt(n.args[1])
                   for n in walk_own(am.node)) and 'add_internal_mods' in ' '.join(norm_stmt(s) for s in am.node.body)
    for f in (md, pm):
        prod = produced_keys(f)
        if len(prod) < 8:
            raise AnalysisError(f'{f.fq}: only {len(prod)} produced keys recognised')
        for key, src in sorted(prod.items()):
            routed = cons.get(key)
            ok = routed is not None and canon(routed) == canon(src)
            ob(rep, 'TOK-key', f.fq, f"key '{key}' (from {src}) is consumed by add_mod_dict and routed to the same field",
               ok, f'-> {routed}',
               f"key '{key}' produced by {f.name}() from {src} is " + ('ignored by add_mod_dict()' if routed is None else
                                                                   f'routed to {routed}') +
               f': a.add_mod_dict(a.{f.name}()) silently loses or misplaces these modifications', f.loc(), clause)
    ob(rep, 'TOK-key', am.fq, 'integer keys are routed to the residue modifications', int_keys,
       'isinstance(k, int) -> add_internal_mods', 'integer residue-index keys are no longer consumed', am.loc(), clause)
    # mod_dict files residue modifications under their integer index
    txt = ' '.join(norm_stmt(s) for s in md.node.body)
    ob(rep, 'TOK-key', md.fq, 'mod_dict files residue modifications under integer indices',
       'for index, mods in self.internal_mods.items(): result[index] = mods' in txt.replace('\n', ' ') or
       'self.internal_mods.items()' in txt, 'result[index] = mods', 'residue modifications are no longer exported',
       md.loc(), clause)


def has_mods_coverage(ctx, rep, clause):
    """has_mods() answers for all ten modification fields (through has_<field>() or the field itself): it guards
    the unmodified fast paths of slice() and of the digest dispatcher, so a field it forgets is dropped there"""
    an, program = ctx.analyzer, ctx.program
    m = program.cls(PFA).methods['has_mods']
    tags = ret_tags(an, m.fq)
    covered = {t[len('has_'):] for t in tags if t.startswith('has_')} | {t.lstrip('_') for t in tags}
    for fld in MOD_FIELDS:
        ob(rep, 'FLD', m.fq, f'has_mods covers field {fld}', fld in covered, 'in the slice of the result',
           f'has_mods ignores {fld}: an annotation whose only modification is in {fld} takes the "no modification" '
           f'fast path of slice()/digest and loses it', m.loc(), clause)


def coverage(ctx, rep, clause):
    an, program = ctx.analyzer, ctx.program
    cls = program.cls(PFA)
    fields = [n.lstrip('_') for n in cls.field_names()]
    has_mods_coverage(ctx, rep, clause)
    for meth, req in (('__eq__', fields), ('dict', fields), ('mod_dict', MOD_FIELDS)):
        m = cls.methods[meth]
        tags = ret_tags(an, m.fq)
        for fld in req:
            ob(rep, 'FLD', m.fq, f'{meth} covers field {fld}', fld in tags, 'in the slice of the result',
               f'{meth} ignores {fld}', m.loc(), clause)
    pm = cls.methods['pop_mods']
    # the pop methods it uses: called directly, or referenced in a (key, has, pop) table that a loop drives
    popped = {n.attr[len('pop_'):] for n in walk_own(pm.node) if isinstance(n, ast.Attribute) and
              norm_stmt(n.value) == 'self' and n.attr.startswith('pop_')}
    st = cls.methods['strip']
    cleared = {n.targets[0].attr.lstrip('_') for n in walk_own(st.node) if isinstance(n, ast.Assign) and
               isinstance(n.targets[0], ast.Attribute) and norm_stmt(n.targets[0].value) == 'self' and
               isinstance(n.value, ast.Constant) and n.value.value is None}
    ce = cls.methods['clear_empty_mods']
    cleaned = {t for t in MOD_FIELDS if f'self.{t}' in ' '.join(norm_stmt(s) for s in ce.node.body) or
               f'self._{t}' in ' '.join(norm_stmt(s) for s in ce.node.body)}
    for fld in MOD_FIELDS:
        ob(rep, 'FLD', pm.fq, f'pop_mods pops field {fld}', fld in popped, 'popped', f'pop_mods leaves {fld} behind',
           pm.loc(), clause)
        ob(rep, 'FLD', st.fq, f'strip(inplace=True) clears field {fld}', fld in cleared, 'set to None',
           f'strip leaves {fld} in place: "removes every modification" fails', st.loc(), clause)
        if fld != 'charge':
            ob(rep, 'FLD', ce.fq, f'clear_empty_mods handles field {fld}', fld in cleaned, 'handled',
               f'an empty {fld} list is not normalised to None: equality and has_mods see a difference', ce.loc(),
               clause)
    ret = [n for n in walk_own(st.node) if isinstance(n, ast.Return) and n.value is not None and
           not (isinstance(n.value, ast.Constant))]
    ok = len(ret) == 1 and norm_stmt(ret[0].value) in ('ProFormaAnnotation(_sequence=self.sequence)',
                                                       'ProFormaAnnotation(_sequence=self._sequence)',
                                                       'ProFormaAnnotation(self.sequence)')
    ob(rep, 'FLD', st.fq, 'strip() returns an annotation of the residues only', ok, 'sequence kept, nothing else',
       f'returns `{norm_stmt(ret[0].value) if ret else "?"}`', st.loc(), clause)
    ca = program.func(f'{PP}:create_annotation')
    passed = set()
    for n in walk_own(ca.node):
        if isinstance(n, ast.Call) and norm_stmt(n.func) == 'ProFormaAnnotation':
            passed = {kw.arg.lstrip('_') for kw in n.keywords if kw.arg}
    for fld in fields:
        ob(rep, 'FLD', ca.fq, f'create_annotation passes field {fld}', fld in passed, 'passed', f'{fld} is dropped',
           ca.loc(), clause)


def hash_eq(ctx, rep, clause):
    an, program = ctx.analyzer, ctx.program
    for cname in ('Mod', 'Interval'):
        e = ret_tags(an, f'{DC}:{cname}.__eq__')
        h = ret_tags(an, f'{DC}:{cname}.__hash__')
        flds = set(program.cls(f'{DC}:{cname}').field_names())
        ob(rep, 'SIB-hash', f'{DC}:{cname}.__hash__', f'{cname}.__hash__ uses exactly the fields __eq__ compares',
           (e & flds) == (h & flds) == flds, f'{sorted(flds)}',
           f'__eq__ uses {sorted(e & flds)}, __hash__ uses {sorted(h & flds)}: Counter-based multiset comparison of '
           f'modification lists goes through both and would separate equal objects or merge different ones',
           program.func(f'{DC}:{cname}.__hash__').loc(), clause)
    ih = program.func(f'{DC}:Interval.__hash__')
    txt = ' '.join(norm_stmt(s) for s in ih.node.body)
    ob(rep, 'SIB-hash', ih.fq, 'the interval hash does not depend on the order of its modifications',
       'sorted(self.mods)' in txt or 'frozenset(' in txt or 'Counter(' in txt, 'order-insensitive',
       'Interval.__eq__ compares modifications as a multiset but the hash depends on their order', ih.loc(), clause)
    for fname in ('are_mods_equal', 'are_intervals_equal'):
        f = program.func(f'{DC}:{fname}')
        rets = [norm_stmt(n.value) for n in walk_own(f.node) if isinstance(n, ast.Return) and n.value is not None]
        ob(rep, 'SIB-hash', f.fq, f'{fname} compares multisets', any('Counter(' in r and '==' in r for r in rets),
           'Counter(a) == Counter(b)', 'no multiset comparison: the order of modifications at one position matters',
           f.loc(), clause)


def symmetric_positions(ctx, rep, clause):
    """__eq__ walks the residue modifications of BOTH operands: every loop that compares per-position lists either
    iterates over something built from both operands' position sets, or there are loops from each side, or the two key
    sets / sizes are compared outright.  A walk over self's positions alone accepts an `other` that carries a
    modification where self has none (and a == b differs from b == a)."""
    from ..canon import Canon, params_of
    f = ctx.program.func(f'{PFA}.__eq__')
    c = Canon(f.node)
    ps = params_of(f.node)
    if len(ps) < 2:
        raise AnalysisError(f'{f.fq}: no second operand')
    me, you = ps[0], ps[1]

    def roots(e) -> Set[str]:
        return {x.id for x in ast.walk(c.resolve(e)) if isinstance(x, ast.Name)} & {me, you}

    loops = []
    for n in walk_own(f.node):
        if isinstance(n, (ast.For, ast.comprehension)):
            body = n.body if isinstance(n, ast.For) else []
            cmp_calls = [x for s_ in body for x in ast.walk(s_) if isinstance(x, ast.Call) and
                         norm_stmt(x.func).endswith('are_mods_equal')]
            if cmp_calls:
                loops.append((n, roots(n.iter)))
    # a comprehension consumed by all(...) : the element compares
    for n in walk_own(f.node):
        if isinstance(n, (ast.GeneratorExp, ast.ListComp)) and any(
                isinstance(x, ast.Call) and norm_stmt(x.func).endswith('are_mods_equal') for x in ast.walk(n.elt)):
            r = set()
            for g in n.generators:
                r |= roots(g.iter)
            loops.append((n, r))
    whole = False
    for n in walk_own(f.node):
        # keys / sizes / whole dictionaries of both sides compared directly
        if isinstance(n, ast.Compare) and len(n.ops) == 1 and isinstance(n.ops[0], (ast.Eq, ast.NotEq)):
            a, b = c.resolve(n.left), c.resolve(n.comparators[0])
            ta, tb = norm_stmt(a), norm_stmt(b)
            if 'internal_mods' in ta and 'internal_mods' in tb and roots(n.left) | roots(n.comparators[0]) == {me, you} \
                    and roots(n.left) != roots(n.comparators[0]):
                whole = True
    if not loops and not whole:
        raise AnalysisError(f'{f.fq}: no per-position comparison of residue modifications found (form not read)')
    covered = set()
    for _, r in loops:
        covered |= r
    ok = whole or covered == {me, you}
    ob(rep, 'SIB-symmetric', f.fq, '__eq__ walks the modified positions of both operands',
       ok, f'{len(loops)} per-position loops, sides covered {sorted(covered)}, key sets compared outright: {whole}',
       f'the per-position comparison iterates over {sorted(covered)} only: a modification present in the other operand at '
       f'a position this one does not have is never looked at, so different annotations compare equal (and a == b != b == a)',
       f.loc(), clause)


_BOUND_WITNESS = """
def add(self, intervals):
    for iv in intervals:
        if not 0 <= iv.start <= iv.end < len(self.sequence):
            raise ValueError(iv)
"""


def _rejections(fnode):
    """(test, polarity) pairs: the exception is raised when `test` has truth value `polarity`"""
    from ..guards import dominating_tests
    for n in walk_own(fnode):
        if isinstance(n, ast.Raise):
            for t, pol in dominating_tests(fnode, n):
                yield n, t, pol
        elif isinstance(n, ast.Assert):
            yield n, n.test, False


def _rejects_full_length(test, pol):
    """does the validation fire for an interval the parser itself produces -- one that ends with the last residue
    (half-open end == len(sequence))?  Decided on the guard's syntax with .start/.end/len() replaced by the values of
    such intervals; None when the guard does not speak about interval bounds or cannot be decided"""
    from ..guards import GuardEval, UNK, text
    ends = [x for x in ast.walk(test) if isinstance(x, ast.Attribute) and x.attr == 'end']
    lens = [x for x in ast.walk(test) if isinstance(x, ast.Call) and isinstance(x.func, ast.Name) and x.func.id == 'len']
    if not ends or not lens:
        return None
    starts = [x for x in ast.walk(test) if isinstance(x, ast.Attribute) and x.attr == 'start']
    for st_, en_, ln_ in ((0, 3, 3), (1, 3, 3), (2, 3, 3), (0, 1, 1)):
        env = {text(x): en_ for x in ends}
        env.update({text(x): st_ for x in starts})
        env.update({text(x): ln_ for x in lens})
        v = GuardEval(env).eval(test)
        if v is UNK:
            return None
        if bool(v) == pol:
            return (st_, en_, ln_)
    return False


def interval_bound_validation(ctx, rep, clause):
    """no validation on the way of add_intervals / the intervals setter rejects an interval that the parser produces:
    interval ends are half-open, `(PEPTIDE)[x]` is (0, 7) on a sequence of length 7"""
    probe = ast.parse(_BOUND_WITNESS).body[0]
    hits = [r for _, t, pol in _rejections(probe) if (r := _rejects_full_length(t, pol))]
    if not hits:
        raise AnalysisError('interval bound rule: the built-in off-by-one witness is no longer recognised')
    n = 0
    cls = ctx.program.cls(PFA)
    funcs = list(cls.methods.values()) + [f for f in ctx.program.all_functions()
                                           if f.fq.startswith(DC + ':') or f.fq.startswith(PP + ':')]
    seen = set()
    for f in funcs:
        if f.fq in seen:
            continue
        seen.add(f.fq)
        for node, t, pol in _rejections(f.node):
            r = _rejects_full_length(t, pol)
            if r is None:
                continue
            n += 1
            ob(rep, 'KIND', f.fq, 'a bound check on intervals accepts an interval that ends with the last residue',
               r is False, 'half-open end <= len(sequence)',
               f'`{norm_stmt(t)[:100]}` raises for start={r[0] if r else ""}, end={r[1] if r else ""} on a sequence of '
               f'length {r[2] if r else ""}: the interval the parser builds for a group closing at the last residue is '
               f'refused, so adding a peptide\'s own modification dictionary back raises', f.loc(node), clause)
    rep.note(f'interval bound validations read: {n} (built-in witness recognised)')


def copies(ctx, rep, clause):
    an, program = ctx.analyzer, ctx.program
    cls = program.cls(PFA)
    for meth in ('copy', 'dict', 'mod_dict'):
        m = cls.methods[meth]
        s = an.summaries.get((m.fq, ()))
        alias = [o for o in s.ret if o[0] in ('P', 'I')] + [o for o in s.ret_inner_known if o[0] in ('P', 'I')] + \
            [o for o in s.ret_inner if o[0] in ('P', 'I')]      # a mutable part of self one level further down
        ob(rep, 'EFF-result-aliasing', m.fq, f'{meth}() shares nothing with self', not alias and 0 not in s.mutates,
           'fresh deep copy', f'result aliases self ({alias}) or self is written', m.loc(), clause)
    for name, setter in sorted(cls.setters.items()):
        s = an.summaries.get((setter.fq, ()))
        ptypes = an.param_types(setter)
        bad = [c for c in s.captures if c[1] == 0 and not (ptypes[c[0][1]] and ty.maybe_mutable(ptypes[c[0][1]]) is False)]
        ob(rep, 'EFF-captures-argument', setter.fq, f'setter {name} stores a copy', not bad, 'deepcopy',
           'the setter keeps a reference to the caller\'s object', setter.loc(), clause)
    ca = an.summaries.get((f'{PP}:create_annotation', ()))
    alias = [o for o in ca.ret_inner_known if o[0] in ('P', 'I')]
    ob(rep, 'EFF-result-aliasing', f'{PP}:create_annotation', 'create_annotation does not capture its arguments',
       not alias, 'copies', f'captures {alias}', program.func(f'{PP}:create_annotation').loc(), clause)


def _normalised_to_none(fnode, name: str) -> bool:
    """the container `name` is turned back into None when it ends up empty: `if <test on name>: name = None`, or it is
    only handed on as `name or None` / `name if name else None` / `None if not name else name` / `None if
    len(name) == 0 else name`"""
    for x in walk_own(fnode):
        if isinstance(x, ast.If) and name in {y.id for y in ast.walk(x.test) if isinstance(y, ast.Name)} and \
                any(isinstance(z, ast.Assign) and norm_stmt(z.targets[0]) == name and
                    isinstance(z.value, ast.Constant) and z.value.value is None for z in x.body):
            return True
        # `if len(name) == 0: return None` ... `return name`   /   `if ..: y = None else: y = name`
        if isinstance(x, ast.If) and name in {y.id for y in ast.walk(x.test) if isinstance(y, ast.Name)}:
            def gives(block, want_none):
                for z in block:
                    v = z.value if isinstance(z, (ast.Return, ast.Assign)) else None
                    if v is None and not isinstance(z, ast.Return):
                        continue
                    if want_none and ((isinstance(z, ast.Return) and (z.value is None or (
                            isinstance(z.value, ast.Constant) and z.value.value is None))) or (
                            isinstance(z, ast.Assign) and isinstance(z.value, ast.Constant) and z.value.value is None)):
                        return True
                    if not want_none and v is not None and norm_stmt(v) == name:
                        return True
                return False
            if (gives(x.body, True) and (gives(x.orelse, False) or not x.orelse)) or \
                    (gives(x.orelse, True) and gives(x.body, False)):
                return True
        if isinstance(x, ast.BoolOp) and isinstance(x.op, ast.Or) and len(x.values) == 2 and \
                norm_stmt(x.values[0]) == name and isinstance(x.values[1], ast.Constant) and x.values[1].value is None:
            return True
        if isinstance(x, ast.IfExp) and name in {y.id for y in ast.walk(x.test) if isinstance(y, ast.Name)}:
            arms = [x.body, x.orelse]
            if any(isinstance(a, ast.Constant) and a.value is None for a in arms) and \
                    any(norm_stmt(a) == name for a in arms):
                return True
    return False


def empty_vs_absent(ctx, rep, clause):
    """writer/reader agreement on "no residue modifications": a method that filters the position map into a fresh
    dict without turning an empty result back into None (slice does) makes `{}` a legal value of the field; equality
    then must not tell `{}` from None (it compares position by position, where both read as "nothing there")"""
    program = ctx.program
    cls = program.cls(PFA)
    producers = []
    for name, m in cls.methods.items():
        for loop in walk_own(m.node):
            if not (isinstance(loop, ast.For) and norm_stmt(loop.iter) in ('self.internal_mods.items()',
                                                                           'self._internal_mods.items()')):
                continue
            stores = [x for x in ast.walk(loop) if isinstance(x, ast.Assign) and isinstance(x.targets[0], ast.Subscript)
                      and isinstance(x.targets[0].value, ast.Name)]
            filtered = any(isinstance(x, ast.If) for x in ast.walk(loop))
            if not stores or not filtered:
                continue
            d = stores[0].targets[0].value.id
            normalised = _normalised_to_none(m.node, d)
            if not normalised:
                producers.append(name)
    eq = cls.methods['__eq__']
    bad = []
    for x in walk_own(eq.node):
        if isinstance(x, ast.Compare) and len(x.ops) == 1 and isinstance(x.ops[0], (ast.Eq, ast.NotEq, ast.Is, ast.IsNot)):
            sides = {norm_stmt(x.left), norm_stmt(x.comparators[0])}
            if sides in ({'self.has_internal_mods()', 'other.has_internal_mods()'},
                         {'self._internal_mods is None', 'other._internal_mods is None'},
                         {'self.internal_mods is None', 'other.internal_mods is None'}):
                bad.append(x)
        if isinstance(x, ast.BinOp) and isinstance(x.op, ast.BitXor) and \
                {norm_stmt(x.left), norm_stmt(x.right)} == {'self.has_internal_mods()', 'other.has_internal_mods()'}:
            bad.append(x)
    ob(rep, 'SIB-empty', eq.fq, 'equality does not tell an empty position map from an absent one',
       not (bad and producers), f'position maps that may be empty are produced by {producers or "no method"}',
       f'`{norm_stmt(bad[0]) if bad else ""}` separates annotations by the presence of the position map, but '
       f'{producers} can leave an empty map where another annotation has None: a modification-free piece cut from a '
       f'modified peptide no longer equals the same unmodified peptide (the subsequence search misses it)',
       eq.loc(bad[0]) if bad else eq.loc(), clause)
    # the same agreement for the interval list: are_intervals_equal tells None from [] (by design, and pinned by its
    # doctests), so no method may leave an empty list where a parsed annotation has None
    aie = program.func(f'{DC}:are_intervals_equal')
    tells_apart = any(isinstance(x, ast.If) and 'is None' in norm_stmt(x.test) and 'is not None' in norm_stmt(x.test) and
                      any(isinstance(r, ast.Return) and isinstance(r.value, ast.Constant) and r.value.value is False
                          for r in x.body) for x in walk_own(aie.node))
    for name, m in sorted(cls.methods.items()):
        for loop in walk_own(m.node):
            if not (isinstance(loop, ast.For) and norm_stmt(loop.iter) in ('self.intervals', 'self._intervals')):
                continue
            appends = [x for x in ast.walk(loop) if isinstance(x, ast.Call) and isinstance(x.func, ast.Attribute) and
                       x.func.attr == 'append' and isinstance(x.func.value, ast.Name)]
            filtered = any(isinstance(x, ast.If) and any(a is y for a in appends for y in ast.walk(x))
                           for x in ast.walk(loop))
            if not appends or not filtered:
                continue
            lst = appends[0].func.value.id
            normalised = _normalised_to_none(m.node, lst)
            ob(rep, 'SIB-empty', m.fq, f'{name}: a filtered interval list that ends up empty is turned back into None',
               normalised or not tells_apart, 'normalised to None' if normalised else 'equality treats [] as None',
               f'{name} filters the intervals into a fresh list and can leave it empty, while are_intervals_equal tells '
               f'[] from None: a piece without intervals cut from a peptide that has one elsewhere does not equal the '
               f're-parsed piece, and the subsequence search does not find it in its parent', m.loc(loop), clause)


def no_truncating_zip(ctx, rep, clause):
    """an equality test that walks two collections side by side with zip() stops at the shorter one: unless the
    lengths were compared first (or zip is strict), a proper prefix compares equal"""
    program = ctx.program
    n = 0
    for fq in (f'{PFA}.__eq__', f'{DC}:are_mods_equal', f'{DC}:are_intervals_equal', f'{DC}:Interval.__eq__',
               f'{DC}:Mod.__eq__'):
        f = program.find_func(fq)
        if f is None:
            continue
        n += 1
        zips = [x for x in walk_own(f.node) if isinstance(x, ast.Call) and isinstance(x.func, ast.Name) and x.func.id == 'zip'
                and not any(kw.arg == 'strict' and isinstance(kw.value, ast.Constant) and kw.value.value is True
                            for kw in x.keywords)]
        bad = []
        for z in zips:
            args = [norm_stmt(a) for a in z.args]
            guarded = any(isinstance(x, ast.Compare) and 'len(' in norm_stmt(x) and isinstance(x.ops[0], (ast.NotEq, ast.Eq))
                          and x.order <= z.order for x in walk_own(f.node))
            if not guarded:
                bad.append(z)
        ob(rep, 'SIB-hash', fq, 'no equality test walks two collections with a truncating zip()', not bad,
           f'{len(zips)} zip call(s)', f'`{norm_stmt(bad[0])[:90] if bad else ""}` stops at the shorter collection and '
           f'no length comparison precedes it: an annotation whose modified positions are a proper prefix of the '
           f'other\'s compares equal (dropping the last modified residue goes unnoticed)', f.loc(bad[0]) if bad else
           f.loc(), clause)
    rep.floor('SIB-hash', 'equality functions scanned for zip()', n, 4)


def check(ctx, rep):
    rep.explanation = EXPLANATION
    key_scheme(ctx, rep, 'C20a')
    coverage(ctx, rep, 'C20b')
    hash_eq(ctx, rep, 'C20c')
    copies(ctx, rep, 'C20d')
    empty_vs_absent(ctx, rep, 'C20b')
    no_truncating_zip(ctx, rep, 'C20c')
    symmetric_positions(ctx, rep, 'C20c')
    interval_bound_validation(ctx, rep, 'C20a')
    from . import C01 as _c01
    _c01.index_kinds(ctx, rep, 'C20a')
