"""C02 -- peptide mass and m/z equal the sum of their physical parts (structural necessary conditions)."""
import ast

from ..rules_flow import forwarding, param_reaches_returns
from .. import rules_tab as rt
from ..loader import walk_own, norm_stmt, AnalysisError
from .common import add_fwd, add_ret, add_checks, field_coverage, accumulator_discipline, calls_in, \
    ret_deps_by_node
from .common import check as ob

EXPLANATION = (
    'Decides, for all inputs at once, necessary conditions of C02 that are fixed by code shape: (a) the '
    'monoisotopic/average switch is forwarded at every resolved call in the mass call graph; (b) mass() reads every '
    'modification-bearing field, every modification reaches mod_mass, results are added (+=) into the one accumulator '
    'that is returned through adjust_mass, the residue-targeted static term carries the residue count, Mod -> mass '
    'multiplies by the multiplier; (c) charge, ion_type, isotope, loss, charge_adducts, monoisotopic reach every '
    'value return of mass/mz/adjust_mass/adjust_mz; (d) mono/average tables are paired correctly wherever the switch '
    'selects between two tables; (e) the adduct-ion mass is homogeneous in the ion count; (f) residue compositions, '
    'termini, particle masses and the relevant isotope masses equal an outside reference (CODATA/NIST). '
    'Not decided: numerical agreement to 1e-5/2e-3 Da for every input, float summation, every Unimod row.')

MASS = 'peptacular.mass_calc:mass'
MOD_FIELDS = ['labile_mods', 'unknown_mods', 'nterm_mods', 'intervals', 'internal_mods', 'cterm_mods', 'static_mods']
MASS_GRAPH = {'peptacular.mass_calc:' + n for n in (
    'mass', 'mz', 'comp_mass', 'chem_mz', 'glycan_mass', 'glycan_mz', 'mod_mass', '_parse_mod_mass',
    '_parse_glycan_mass_from_proforma_str', '_parse_chem_mass_from_proforma_str', '_parse_obs_mass_from_proforma_str',
    'adjust_mass', 'adjust_mz', '_parse_charge_adducts_mass', '_parse_adduct_mass', 'condense_to_mass_mods')} | {
    'peptacular.mods.mod_db:' + n for n in ('parse_unimod_mass', 'parse_psi_mass', 'parse_xlmod_mass',
                                            'parse_resid_mass', 'parse_gno_mass', '_get_mass')} | {
    'peptacular.chem.chem_util:chem_mass', 'peptacular.fragmentation:fragment',
    'peptacular.fragmentation:_build_fragments', 'peptacular.fragmentation:_get_terminal_fragments',
    'peptacular.fragmentation:_get_forward_fragments', 'peptacular.fragmentation:_get_backward_fragments',
    'peptacular.fragmentation:_get_internal_fragments', 'peptacular.fragmentation:_get_immonium_fragments'}


def mono_avg_pairing(ctx, rep, clause):
    """wherever the monoisotopic switch selects between two module-level tables, the pair is
    (MONOISOTOPIC_x | ISOTOPIC_x, AVERAGE_x) of the same family, monoisotopic first"""
    n = 0
    for f in ctx.program.all_functions():
        if f.param('monoisotopic') is None:
            continue
        for node in walk_own(f.node):
            pair = None
            if isinstance(node, ast.IfExp):
                pair = (node.test, node.body, node.orelse)
            elif isinstance(node, ast.If) and len(node.body) == 1 and len(node.orelse) == 1:
                pair = (node.test, node.body[0], node.orelse[0])
            if pair is None:
                continue
            test, a, b = pair
            pos = _mono_test(test)
            if pos is None:
                continue
            ta, tb = _tables_in(a), _tables_in(b)
            if not ta or not tb or ta == tb:
                continue
            if not pos:
                ta, tb = tb, ta
            n += 1
            fam_a = {_family(x) for x in ta}
            fam_b = {_family(x) for x in tb}
            # the average branch may also read the monoisotopic table (explicit isotopes have no average mass)
            ok = all(k == 'mono' for k, _ in fam_a) and any(k == 'avg' for k, _ in fam_b) and \
                {s for _, s in fam_a} == {s for k, s in fam_b if k == 'avg'}
            ob(rep, 'SIB-mono-avg', f.fq, f'table selection `{norm_stmt(test)}`: {sorted(ta)} / {sorted(tb)}', ok,
                  'monoisotopic branch uses the monoisotopic table, the other branch the average table of the same '
                  'family', f'tables are mispaired: monoisotopic branch reads {sorted(ta)}, average branch {sorted(tb)}',
                  f.loc(node), clause)
    rep.floor('SIB-mono-avg', 'table selections on the monoisotopic switch', n, 4)


def _mono_test(test):
    """True if test means monoisotopic, False if it means not monoisotopic, None if unrelated"""
    if isinstance(test, ast.Name) and test.id == 'monoisotopic':
        return True
    if isinstance(test, ast.UnaryOp) and isinstance(test.op, ast.Not):
        r = _mono_test(test.operand)
        return None if r is None else not r
    if isinstance(test, ast.Compare) and isinstance(test.left, ast.Name) and test.left.id == 'monoisotopic' and \
            len(test.ops) == 1 and isinstance(test.comparators[0], ast.Constant) and \
            isinstance(test.comparators[0].value, bool):
        v = test.comparators[0].value
        if isinstance(test.ops[0], (ast.Is, ast.Eq)):
            return v
        if isinstance(test.ops[0], (ast.IsNot, ast.NotEq)):
            return not v
    return None


def _tables_in(node):
    out = set()
    for n in ast.walk(node):
        if isinstance(n, ast.Name) and n.id.isupper() and ('MASS' in n.id or 'ADJUSTMENTS' in n.id):
            out.add(n.id)
        elif isinstance(n, ast.Attribute) and n.attr in ('mono_mass', 'avg_mass', 'calc_mono_mass', 'calc_avg_mass'):
            out.add(n.attr)
    return out


def _family(name: str):
    if name in ('mono_mass', 'calc_mono_mass'):
        return ('mono', name.replace('mono_', ''))
    if name in ('avg_mass', 'calc_avg_mass'):
        return ('avg', name.replace('avg_', ''))
    for pre in ('MONOISOTOPIC_', 'ISOTOPIC_'):
        if name.startswith(pre):
            return ('mono', name[len(pre):])
    if name.startswith('AVERAGE_'):
        return ('avg', name[len('AVERAGE_'):])
    return ('?', name)


def mass_accumulation(ctx, rep, clause):
    an, program = ctx.analyzer, ctx.program
    f = program.func(MASS)
    # the fast-path return: adjust_mass(<acc>, ...)
    acc = None
    for node, av, kind in ret_deps_by_node(an, MASS):
        v = getattr(node, 'value', None)
        if isinstance(v, ast.Call) and isinstance(v.func, ast.Name) and v.func.id == 'adjust_mass' and v.args and \
                isinstance(v.args[0], ast.Name):
            acc = v.args[0].id
            fast = (node, av)
    if acc is None:
        raise AnalysisError('mass(): the fast path no longer returns adjust_mass(<accumulator>, ...); '
                            'the accumulation rule cannot be anchored')
    augs = accumulator_discipline(rep, f, acc, clause, fast[0])
    # every modification field is read on the way to the fast-path return
    tags = {d[1:] for d in fast[1].deps if d.startswith('@')}
    for fld in MOD_FIELDS + ['sequence']:
        ob(rep, 'FLD', MASS, f'mass fast path reads field {fld}', fld in tags,
              'in the backward slice of the fast-path return',
              f'annotation.{fld} never reaches the returned mass: modifications written there are silently ignored',
              f.loc(fast[0]), clause)
    # every additive update comes from mod_mass (or the residue table), and mod_mass receives the loop element
    n_mod = 0
    count_factor = False
    for a in augs:
        calls = [c for c in ast.walk(a.value) if isinstance(c, ast.Call) and isinstance(c.func, ast.Name)
                 and c.func.id == 'mod_mass']
        if calls:
            n_mod += 1
        if isinstance(a.value, ast.BinOp) and isinstance(a.value.op, ast.Mult):
            for side in (a.value.left, a.value.right):
                if isinstance(side, ast.Name) and _is_count_of_sequence(f, side.id):
                    count_factor = True
    rep.floor('ACC', 'additive mod_mass contributions in mass()', n_mod, 9)
    ob(rep, 'ACC', MASS, 'residue-targeted static rule is multiplied by sequence.count(residue)', count_factor,
          'the static term carries the residue multiplicity',
          'no additive term is multiplied by the number of occurrences of the targeted residue: a static rule '
          'would be counted once however many residues it modifies', f.loc(), clause)
    # Mod -> mass multiplies by the multiplier at the unwrap site
    mm = 'peptacular.mass_calc:mod_mass'
    ok = False
    for node, av, kind in ret_deps_by_node(an, mm):
        if '@mult' in av.deps and '@val' in av.deps and isinstance(node.value, ast.BinOp) and \
                isinstance(node.value.op, ast.Mult):
            ok = True
    ob(rep, 'ACC', mm, 'Mod unwrap multiplies the mass of .val by .mult', ok,
          'return mod_mass(mod.val, ...) * mod.mult',
          'no return of mod_mass multiplies the value mass by the multiplier: `[X]^2` would weigh as `[X]`',
          program.func(mm).loc(), clause)


def _is_count_of_sequence(f, name: str) -> bool:
    for n in walk_own(f.node):
        if isinstance(n, ast.Assign) and any(isinstance(t, ast.Name) and t.id == name for t in n.targets):
            v = n.value
            if isinstance(v, ast.Call) and isinstance(v.func, ast.Attribute) and v.func.attr == 'count' and \
                    isinstance(v.func.value, ast.Attribute) and v.func.value.attr == 'sequence':
                return True
    return False


def adduct_homogeneity(ctx, rep, clause):
    """every additive term of _parse_adduct_mass carries the ion count (mass of c ions X^q is c times one ion)"""
    fq = 'peptacular.mass_calc:_parse_adduct_mass'
    f = ctx.program.func(fq)
    count_var = None
    for n in walk_own(f.node):
        if isinstance(n, ast.Assign) and isinstance(n.value, ast.Call) and isinstance(n.value.func, ast.Name) and \
                n.value.func.id == 'parse_ion_elements' and isinstance(n.targets[0], ast.Tuple):
            count_var = n.targets[0].elts[0].id
    if count_var is None:
        raise AnalysisError('_parse_adduct_mass: cannot find the unpacking of parse_ion_elements')
    k = 0
    for n in walk_own(f.node):
        if isinstance(n, ast.AugAssign) and isinstance(n.target, ast.Name) and isinstance(n.op, (ast.Add, ast.Sub)):
            k += 1
            names = {x.id for x in ast.walk(n.value) if isinstance(x, ast.Name)}
            ob(rep, 'AFF-degree', fq, f'term `{norm_stmt(n)}` is proportional to the ion count', count_var in names,
                  f'carries the factor {count_var}',
                  f'the term does not carry the ion count {count_var}: for counts other than 1 the adduct mass is not '
                  f'count x (mass of one ion)', f.loc(n), clause)
    rep.floor('AFF-degree', 'additive terms in _parse_adduct_mass', k, 5)


def isotope_selection(ctx, rep, clause):
    """element_setup.py: every table builder takes as "monoisotopic" the most abundant isotope of an element
    (first element after sorting by abundance, descending), so that the mass table, the average table, the isotope
    patterns and the Hill order speak of the same isotope"""
    program = ctx.program
    n = 0
    for f in program.all_functions():
        if f.module.name != 'peptacular.element_setup':
            continue
        sorted_vars = {}
        for node in walk_own(f.node):
            if isinstance(node, ast.Call) and isinstance(node.func, ast.Attribute) and node.func.attr == 'sort' and \
                    isinstance(node.func.value, ast.Name):
                kws = {kw.arg: norm_stmt(kw.value) for kw in node.keywords}
                key = kws.get('key', '').replace(' ', '')
                ok = key == 'lambdax:x.isotopic_composition' and kws.get('reverse') == 'True'
                sorted_vars[node.func.value.id] = (ok, node)
        for node in walk_own(f.node):
            if isinstance(node, ast.Assign) and isinstance(node.targets[0], ast.Name) and \
                    node.targets[0].id.startswith('monoisotopic'):
                n += 1
                v = node.value
                src = v.value.id if isinstance(v, ast.Subscript) and isinstance(v.value, ast.Name) and \
                    isinstance(v.slice, ast.Constant) and v.slice.value == 0 else None
                good = src is not None and sorted_vars.get(src, (False, None))[0] and \
                    sorted_vars[src][1].lineno < node.lineno
                ob(rep, 'SIB-isotope-order', f.fq, f'`{norm_stmt(node)}` is the most abundant isotope', good,
                   'first element after sorting by isotopic_composition, descending',
                   f'`{norm_stmt(node)}` does not take the first element of a list sorted by abundance (descending) as '
                   f'its siblings do: this table calls another isotope "monoisotopic" than the others (differs for Se, '
                   f'Li, B, Fe, ...)', f.loc(node), clause)
    rep.floor('SIB-isotope-order', 'monoisotopic selections in element_setup.py', n, 8)


def run(ctx, rep):
    an, program = ctx.analyzer, ctx.program
    # (a) forwarding of the mono/average switch over the whole mass call graph
    obs = forwarding(an, program, ['monoisotopic'])
    n = add_fwd(rep, obs, 'C02a')
    rep.floor('FWD', 'monoisotopic forwarding sites', n, 40)
    # (b)
    mass_accumulation(ctx, rep, 'C02b')
    # (c)
    ps = ['charge', 'ion_type', 'monoisotopic', 'isotope', 'loss', 'charge_adducts', 'isotope_mods']
    k = add_ret(rep, param_reaches_returns(an, program, MASS, ps), 'C02c')
    k += add_ret(rep, param_reaches_returns(an, program, 'peptacular.mass_calc:mz', ps), 'C02c')
    k += add_ret(rep, param_reaches_returns(an, program, 'peptacular.mass_calc:adjust_mass',
                                            ['base_mass', 'charge', 'ion_type', 'monoisotopic', 'isotope', 'loss',
                                             'charge_adducts']), 'C02c')
    k += add_ret(rep, param_reaches_returns(an, program, 'peptacular.mass_calc:adjust_mz', ['base_mass', 'charge']),
                 'C02c')
    k += add_ret(rep, param_reaches_returns(an, program, 'peptacular.chem.chem_util:chem_mass',
                                            ['formula', 'monoisotopic']), 'C02c')
    numeric = {('monoisotopic', 'return mod'): 'a numeric shift has no isotopic mode',
               ('monoisotopic', 'return round(mod, precision) if precision is not None else mod'):
                   'a numeric shift has no isotopic mode',
               ('monoisotopic', 'return 0.0'): 'a bare localisation tag weighs nothing in either mode',
               ('monoisotopic', 'return None'): 'unresolved: the caller raises',
               ('monoisotopic', 'return _parse_obs_mass_from_proforma_str(mod, precision)'):
                   'an observed mass is a number: it has no isotopic mode'}
    k += add_ret(rep, param_reaches_returns(an, program, 'peptacular.mass_calc:mod_mass', ['mod', 'monoisotopic'],
                                            exempt=numeric), 'C02c')
    k += add_ret(rep, param_reaches_returns(an, program, 'peptacular.mass_calc:_parse_mod_mass',
                                            ['mod', 'monoisotopic'], exempt=numeric), 'C02c')
    rep.floor('RET', 'parameter/return pairs', k, 30)
    # (d)
    mono_avg_pairing(ctx, rep, 'C02d')
    from . import C05
    C05.affine_shape(ctx, rep, 'C02d')
    # (e)
    adduct_homogeneity(ctx, rep, 'C02e')
    # (f)
    t = rt.Tables(program)
    add_checks(rep, rt.reference_checks(t), 'C02f')
    add_checks(rep, rt.isotope_table_checks(program), 'C02f', 'peptacular.data', 'chem.txt')
    add_checks(rep, rt.derived_table_checks(program), 'C02f', 'peptacular.chem.chem_constants')
    isotope_selection(ctx, rep, 'C02f')


def check(ctx, rep):
    rep.explanation = EXPLANATION
    run(ctx, rep)
    from .common import memo_rule
    memo_rule(ctx, rep, 'C02g', ('peptacular.mass_calc', 'peptacular.chem.chem_util', 'peptacular.mods.mod_db', 'peptacular.glycan'))
