"""C02 -- peptide mass and m/z equal the sum of their physical parts (structural necessary conditions)."""
import ast
import re

from ..rules_flow import forwarding, param_reaches_returns
from .. import rules_tab as rt
from ..loader import walk_own, norm_stmt, AnalysisError
from .common import add_fwd, add_ret, add_checks, field_coverage, accumulator_discipline, calls_in, \
    ret_deps_by_node
from .common import check as ob
from ..canon import Canon

EXPLANATION = (
    'Decides, for all inputs at once, necessary conditions of C02 that are fixed by code shape: (a) the '
    'monoisotopic/average switch is forwarded at every resolved call in the mass call graph; (b) mass() reads every '
    'modification-bearing field, every modification reaches mod_mass, results are added (+=) into the one accumulator '
    'that is returned through adjust_mass, the residue-targeted static term carries the residue count, Mod -> mass '
    'multiplies by the multiplier; (c) charge, ion_type, isotope, loss, charge_adducts, monoisotopic reach every '
    'value return of mass/mz/adjust_mass/adjust_mz; (d) mono/average tables are paired correctly wherever the switch '
    'selects between two tables; (e) the adduct-ion mass is homogeneous in the ion count; (f) residue compositions, '
    'termini, particle masses and the relevant isotope masses equal an outside reference (CODATA/NIST). '
    'Not decided: numerical agreement to 1e-5/2e-3 Da for every input, float summation, every Unimod row.')

MASS = 'peptacular.mass_calc:mass'
MOD_FIELDS = ['labile_mods', 'unknown_mods', 'nterm_mods', 'intervals', 'internal_mods', 'cterm_mods', 'static_mods']
MASS_GRAPH = {'peptacular.mass_calc:' + n for n in (
    'mass', 'mz', 'comp_mass', 'chem_mz', 'glycan_mass', 'glycan_mz', 'mod_mass', '_parse_mod_mass',
    '_parse_glycan_mass_from_proforma_str', '_parse_chem_mass_from_proforma_str', '_parse_obs_mass_from_proforma_str',
    'adjust_mass', 'adjust_mz', '_parse_charge_adducts_mass', '_parse_adduct_mass', 'condense_to_mass_mods')} | {
    'peptacular.mods.mod_db:' + n for n in ('parse_unimod_mass', 'parse_psi_mass', 'parse_xlmod_mass',
                                            'parse_resid_mass', 'parse_gno_mass', '_get_mass')} | {
    'peptacular.chem.chem_util:chem_mass', 'peptacular.fragmentation:fragment',
    'peptacular.fragmentation:_build_fragments', 'peptacular.fragmentation:_get_terminal_fragments',
    'peptacular.fragmentation:_get_forward_fragments', 'peptacular.fragmentation:_get_backward_fragments',
    'peptacular.fragmentation:_get_internal_fragments', 'peptacular.fragmentation:_get_immonium_fragments'}


def mono_avg_pairing(ctx, rep, clause):
    """wherever the monoisotopic switch selects between two module-level tables, the pair is
    (MONOISOTOPIC_x | ISOTOPIC_x, AVERAGE_x) of the same family, monoisotopic first"""
    n = 0
    for f in ctx.program.all_functions():
        if f.param('monoisotopic') is None:
            continue
        for node in walk_own(f.node):
            pair = None
            if isinstance(node, ast.IfExp):
                pair = (node.test, node.body, node.orelse)
            elif isinstance(node, ast.If) and node.body and node.orelse:
                pair = (node.test, ast.Module(body=node.body, type_ignores=[]),
                        ast.Module(body=node.orelse, type_ignores=[]))
            if pair is None:
                continue
            test, a, b = pair
            pos = _mono_test(test)
            if pos is None:
                # a test that mentions the switch together with something else and still selects between a
                # monoisotopic and an average table: the mode then depends on more than the caller's switch
                ta, tb = _tables_in(a), _tables_in(b)
                kinds_a = {_family(x)[0] for x in ta}
                kinds_b = {_family(x)[0] for x in tb}
                mixed = ('mono' in kinds_a and 'avg' in kinds_b and 'avg' not in kinds_a) or \
                        ('avg' in kinds_a and 'mono' in kinds_b and 'avg' not in kinds_b)
                # explicit isotopes ('13C', 'D', 'T') have no average mass: `monoisotopic or <isotope-key predicate>`
                # is the one legitimate widening of the monoisotopic arm
                ops_ = test.values if isinstance(test, ast.BoolOp) and isinstance(test.op, ast.Or) else None
                if ops_ is not None and all(_mono_test(v) is True or _isotope_key_atom(v) for v in ops_):
                    continue
                if mixed and any(isinstance(x, ast.Name) and x.id == 'monoisotopic' for x in ast.walk(test)):
                    n += 1
                    ob(rep, 'SIB-mono-avg', f.fq, f'table selection `{Canon(f.node).text(test)[:90]}` is decided by the '
                       f'monoisotopic switch alone', False, '',
                       f'the choice between {sorted(ta)} and {sorted(tb)} is made by `{norm_stmt(test)[:120]}`: the '
                       f'isotopic mode of the result depends on more than the monoisotopic argument (the average '
                       f'branch is skipped for some inputs)', f.loc(node), clause)
                continue
            ta, tb = _tables_in(a), _tables_in(b)
            shared = {x for x in ta & tb if _family(x)[0] == '?'}  # particle constants used on both arms alike
            ta, tb = ta - shared, tb - shared
            if not ta or not tb or ta == tb:
                continue
            if not pos:
                ta, tb = tb, ta
            n += 1
            fam_a = {_family(x) for x in ta}
            fam_b = {_family(x) for x in tb}
            # the average branch may also read the monoisotopic table (explicit isotopes have no average mass)
            ok = all(k == 'mono' for k, _ in fam_a) and any(k == 'avg' for k, _ in fam_b) and \
                {s for _, s in fam_a} == {s for k, s in fam_b if k == 'avg'}
            ob(rep, 'SIB-mono-avg', f.fq, f'table selection `{norm_stmt(test)}`: {sorted(ta)} / {sorted(tb)}', ok,
                  'monoisotopic branch uses the monoisotopic table, the other branch the average table of the same '
                  'family', f'tables are mispaired: monoisotopic branch reads {sorted(ta)}, average branch {sorted(tb)}',
                  f.loc(node), clause)
    rep.floor('SIB-mono-avg', 'table selections on the monoisotopic switch', n, 4)


def mode_reads_under_switch(ctx, rep, clause):
    """in a function that takes the monoisotopic switch, every read of a mode-specific quantity (MONOISOTOPIC_* /
    AVERAGE_* table, .mono_mass / .avg_mass of a vocabulary entry) is control-dependent on a test of that switch: an
    unconditional read fixes the mode for that path whatever the caller asked for"""
    from ..guards import dominating_tests, preceding_exits
    n = 0
    for f in ctx.program.all_functions():
        if f.param('monoisotopic') is None or f.module.name.endswith('_setup'):
            continue
        parents = {}
        for node in ast.walk(f.node):
            for ch in ast.iter_child_nodes(node):
                parents[id(ch)] = node
        for x in walk_own(f.node):
            name = None
            if isinstance(x, ast.Name) and isinstance(x.ctx, ast.Load) and x.id.isupper() and \
                    _family(x.id)[0] in ('mono', 'avg') and ('MASS' in x.id or 'ADJUSTMENTS' in x.id):
                name = x.id
            elif isinstance(x, ast.Attribute) and x.attr in ('mono_mass', 'avg_mass', 'calc_mono_mass', 'calc_avg_mass') \
                    and isinstance(x.ctx, ast.Load):
                name = '.' + x.attr
            if name is None:
                continue
            par = parents.get(id(x))
            if isinstance(par, ast.Compare) and any(isinstance(o, (ast.In, ast.NotIn)) for o in par.ops) and \
                    any(x is c_ for c_ in par.comparators):
                continue  # a membership test reads the key set, not a mass
            n += 1
            cres = Canon(f.node)
            tests = [cres.resolve(t) for t, _pol in dominating_tests(f.node, x)] + \
                    [cres.resolve(t) for t in preceding_exits(f.node.body, x)]
            under = any(_mono_test(t) is not None or
                        (isinstance(t, ast.BoolOp) and any(_mono_test(v) is not None for v in t.values)) for t in tests)
            # `calc_*` fallbacks (`entry.mono_mass if entry.mono_mass is not None else ...`) sit inside a selected arm
            ob(rep, 'SIB-mono-avg', f.fq, f'read of {name} is selected by the monoisotopic switch', under,
               'control-dependent on a test of `monoisotopic`',
               f'`{norm_stmt(parents.get(id(x), x))[:80]}` reads {name} on a path that no test of `monoisotopic` selects: '
               f'on that path the mass has this mode whatever the caller asked for', f.loc(x), clause)
    rep.floor('SIB-mono-avg', 'mode-specific reads in functions taking the switch', n, 10)


def _isotope_key_atom(v) -> bool:
    """x[0].isdigit() / x == 'D' / x == 'T' / x in ('D', 'T')"""
    if isinstance(v, ast.Call) and isinstance(v.func, ast.Attribute) and v.func.attr == 'isdigit' and \
            isinstance(v.func.value, ast.Subscript):
        return True
    if isinstance(v, ast.Compare) and len(v.ops) == 1:
        if isinstance(v.ops[0], ast.Eq) and isinstance(v.comparators[0], ast.Constant) and v.comparators[0].value in ('D', 'T'):
            return True
        if isinstance(v.ops[0], ast.In) and isinstance(v.comparators[0], (ast.Tuple, ast.List, ast.Set)) and \
                all(isinstance(x, ast.Constant) and x.value in ('D', 'T') for x in v.comparators[0].elts):
            return True
    return False


def _mono_test(test):
    """True if test means monoisotopic, False if it means not monoisotopic, None if unrelated"""
    if isinstance(test, ast.Name) and test.id == 'monoisotopic':
        return True
    if isinstance(test, ast.UnaryOp) and isinstance(test.op, ast.Not):
        r = _mono_test(test.operand)
        return None if r is None else not r
    if isinstance(test, ast.Compare) and isinstance(test.left, ast.Name) and test.left.id == 'monoisotopic' and \
            len(test.ops) == 1 and isinstance(test.comparators[0], ast.Constant) and \
            isinstance(test.comparators[0].value, bool):
        v = test.comparators[0].value
        if isinstance(test.ops[0], (ast.Is, ast.Eq)):
            return v
        if isinstance(test.ops[0], (ast.IsNot, ast.NotEq)):
            return not v
    return None


def _tables_in(node):
    out = set()
    for n in ast.walk(node):
        if isinstance(n, ast.Name) and n.id.isupper() and ('MASS' in n.id or 'ADJUSTMENTS' in n.id):
            out.add(n.id)
        elif isinstance(n, ast.Attribute) and n.attr in ('mono_mass', 'avg_mass', 'calc_mono_mass', 'calc_avg_mass'):
            out.add(n.attr)
    return out


def _family(name: str):
    if name in ('mono_mass', 'calc_mono_mass'):
        return ('mono', name.replace('mono_', ''))
    if name in ('avg_mass', 'calc_avg_mass'):
        return ('avg', name.replace('avg_', ''))
    for pre in ('MONOISOTOPIC_', 'ISOTOPIC_'):
        if name.startswith(pre):
            return ('mono', name[len(pre):])
    if name.startswith('AVERAGE_'):
        return ('avg', name[len('AVERAGE_'):])
    return ('?', name)


def mass_accumulation(ctx, rep, clause):
    an, program = ctx.analyzer, ctx.program
    f = program.func(MASS)
    # the fast-path return: adjust_mass(<acc>, ...)
    acc = None
    for node, av, kind in ret_deps_by_node(an, MASS):
        v = getattr(node, 'value', None)
        if isinstance(v, ast.Call) and isinstance(v.func, ast.Name) and v.func.id == 'adjust_mass' and v.args and \
                isinstance(v.args[0], ast.Name):
            acc = v.args[0].id
            fast = (node, av)
    if acc is None:
        raise AnalysisError('mass(): the fast path no longer returns adjust_mass(<accumulator>, ...); '
                            'the accumulation rule cannot be anchored')
    augs = accumulator_discipline(rep, f, acc, clause, fast[0])
    # every modification field is read on the way to the fast-path return
    tags = {d[1:] for d in fast[1].deps if d.startswith('@')}
    for fld in MOD_FIELDS + ['sequence']:
        ob(rep, 'FLD', MASS, f'mass fast path reads field {fld}', fld in tags,
              'in the backward slice of the fast-path return',
              f'annotation.{fld} never reaches the returned mass: modifications written there are silently ignored',
              f.loc(fast[0]), clause)
    # every additive update comes from mod_mass (or the residue table), and mod_mass receives the loop element
    n_mod = 0
    count_factor = False
    for a in augs:
        calls = [c for c in ast.walk(a.value) if isinstance(c, ast.Call) and isinstance(c.func, ast.Name)
                 and c.func.id == 'mod_mass']
        if calls:
            n_mod += 1
        if isinstance(a.value, ast.BinOp) and isinstance(a.value.op, ast.Mult):
            for side in (a.value.left, a.value.right):
                if isinstance(side, ast.Name) and _is_count_of_sequence(f, side.id):
                    count_factor = True
                # ... or the count written in place: `<sum of the rule's masses> * annotation.sequence.count(aa)`
                if isinstance(side, ast.Call) and isinstance(side.func, ast.Attribute) and side.func.attr == 'count' and \
                        isinstance(side.func.value, ast.Attribute) and side.func.value.attr == 'sequence':
                    count_factor = True
    rep.floor('ACC', 'additive mod_mass contributions in mass()', n_mod, 3)
    # every place a modification can sit contributes an additive term: the source of each term is read off the loops
    # (or generator) that enclose it
    sources = term_sources(f, 'mod_mass', None, program)
    for kind in SOURCE_KINDS:
        ob(rep, 'ACC', MASS, f'modifications from {kind} contribute an additive term', kind in sources,
           f'{len(sources.get(kind, []))} term(s)', f'no `+= mod_mass(...)` term iterates {kind}: modifications written '
           f'there do not change the mass on the fast path', f.loc(fast[0]), clause)
    ob(rep, 'ACC', MASS, 'residue-targeted static rule is multiplied by sequence.count(residue)', count_factor,
          'the static term carries the residue multiplicity',
          'no additive term is multiplied by the number of occurrences of the targeted residue: a static rule '
          'would be counted once however many residues it modifies', f.loc(), clause)
    # Mod -> mass multiplies by the multiplier at the unwrap site
    mm = 'peptacular.mass_calc:mod_mass'
    ok = False
    for node, av, kind in ret_deps_by_node(an, mm):
        if '@mult' in av.deps and '@val' in av.deps and isinstance(node.value, ast.BinOp) and \
                isinstance(node.value.op, ast.Mult):
            ok = True
    ob(rep, 'ACC', mm, 'Mod unwrap multiplies the mass of .val by .mult', ok,
          'return mod_mass(mod.val, ...) * mod.mult',
          'no return of mod_mass multiplies the value mass by the multiplier: `[X]^2` would weigh as `[X]`',
          program.func(mm).loc(), clause)


SOURCE_KINDS = ('static rule on N-Term', 'static rule on C-Term', 'static rule on residues', 'labile_mods',
                'unknown_mods', 'nterm_mods', 'cterm_mods', 'internal_mods', 'intervals')


FIELD_KINDS = ('labile_mods', 'unknown_mods', 'nterm_mods', 'cterm_mods', 'internal_mods', 'intervals')


class _Provenance:
    """which modification sources can an expression draw its elements from?  A small collection-flow analysis inside
    one function (and the private helpers of its module): attribute reads of the annotation's fields, .values() /
    .items() / .get(), loop and comprehension variables, list building (append / extend), generator helpers
    (`yield` / `yield from`), static rule maps with their N-Term / C-Term / residue keys."""

    def __init__(self, program, f, depth=0, sites=None):
        self.program, self.f, self.depth = program, f, depth
        self.c = Canon(f.node)
        self._busy = set()
        self.sites = sites if sites is not None else {}   # kind -> [(function, attribute node that reads the field)]
        self.params = {p_.name for p_ in f.params}
        self.adds = {}
        for n in ast.walk(f.node):
            if isinstance(n, ast.Call) and isinstance(n.func, ast.Attribute) and n.func.attr in ('append', 'extend', 'add') \
                    and isinstance(n.func.value, ast.Name) and n.args:
                self.adds.setdefault(n.func.value.id, []).append(n.args[0])

    def keys_of(self, e) -> set:
        """constant strings a key expression can be"""
        if isinstance(e, ast.Constant) and isinstance(e.value, str):
            return {e.value}
        if isinstance(e, ast.Name):
            out = set()
            for kind, payload in self.c.bindings.get(e.id, []):
                src = payload if kind == 'assign' else payload[0]
                if kind == 'each':
                    src = self.c.resolve(src)
                    if isinstance(src, ast.Call) and isinstance(src.func, ast.Attribute) and \
                            src.func.attr in ('items', 'keys') and (kind != 'each' or payload[1] in ((), (0,))):
                        src = src.func.value   # iterating a literal dict: its keys
                    if isinstance(src, (ast.Tuple, ast.List, ast.Set)):
                        out |= {x.value for x in src.elts if isinstance(x, ast.Constant)}
                    if isinstance(src, ast.Dict):
                        out |= {x.value for x in src.keys if isinstance(x, ast.Constant)}
                elif isinstance(src, ast.AST):
                    out |= self.keys_of(src)
            return out
        return set()

    def of(self, e) -> set:
        if e is None:
            return set()
        if isinstance(e, ast.Attribute):
            if e.attr in FIELD_KINDS:
                self.sites.setdefault(e.attr, []).append((self.f, e))
                return {e.attr}
            if e.attr == 'static_mods':
                return {'static'}
            if e.attr == 'mods':
                inner = self.of(e.value)
                return {'intervals'} if 'intervals' in inner else inner
            return self.of(e.value)
        if isinstance(e, ast.Subscript):
            return self.of(e.value)
        if isinstance(e, ast.Call):
            fn = e.func
            if isinstance(fn, ast.Attribute) and fn.attr in ('values', 'items', 'keys', 'copy'):
                r = self.of(fn.value)
                return {'static rule on residues' if x == 'static' else x for x in r}
            if isinstance(fn, ast.Attribute) and fn.attr in ('get', 'pop') and e.args:
                r = self.of(fn.value)
                if 'static' in r:
                    ks = self.keys_of(e.args[0])
                    out = {f'static rule on {k}' for k in ks if k in ('N-Term', 'C-Term')}
                    return out or {'static rule on residues'}
                return r
            if isinstance(fn, ast.Name) and fn.id == 'parse_static_mods':
                return {'static'}
            if isinstance(fn, ast.Name) and fn.id in ('list', 'tuple', 'sorted', 'reversed', 'iter', 'enumerate', 'zip',
                                                       'deepcopy', 'set') or norm_stmt(fn) in ('copy.deepcopy', 'copy.copy'):
                out = set()
                for a in e.args:
                    out |= self.of(a)
                return out
            if isinstance(fn, ast.Name) and self.depth < 2:
                g = self.program.find_func(f'{self.f.module.name}:{fn.id}')
                if g is not None and g.fq != self.f.fq and fn.id.startswith('_'):
                    sub = _Provenance(self.program, g, self.depth + 1, self.sites)
                    out = set()
                    for y in ast.walk(g.node):
                        if isinstance(y, (ast.Yield, ast.YieldFrom)) and y.value is not None:
                            out |= sub.of(y.value)
                        if isinstance(y, ast.Return) and y.value is not None:
                            out |= sub.of(y.value)
                    return out
            return set()
        if isinstance(e, (ast.GeneratorExp, ast.ListComp, ast.SetComp)):
            out = self.of(e.elt)
            for g_ in e.generators:
                out |= self.of(g_.iter)
            return out
        if isinstance(e, (ast.Tuple, ast.List, ast.Set)):
            out = set()
            for x in e.elts:
                out |= self.of(x)
            return out
        if isinstance(e, ast.IfExp):
            return self.of(e.body) | self.of(e.orelse)
        if isinstance(e, ast.BoolOp):
            out = set()
            for v in e.values:
                out |= self.of(v)
            return out
        if isinstance(e, ast.Name):
            if e.id in self._busy:
                return set()
            if e.id in self.params and e.id not in self.c.bindings:
                return {f'param:{e.id}'}
            self._busy.add(e.id)
            try:
                out = set()
                for kind, payload in self.c.bindings.get(e.id, []):
                    src = payload if kind in ('assign', 'aug') else payload[0]
                    if isinstance(src, ast.AST):
                        r = self.of(src)
                        if kind in ('each', 'unpack') and 'static' in r:
                            # iterating the rule map itself: the residue rules (terminal keys are skipped or fetched
                            # by .get())
                            r = (r - {'static'}) | {'static rule on residues'}
                        out |= r
                for a in self.adds.get(e.id, []):
                    out |= self.of(a)
                return out
            finally:
                self._busy.discard(e.id)
        return set()


def term_sources(f, callee: str, roots=None, program=None, with_sites=False):
    """{source kind: [call nodes]} for every call of `callee` in f and in the private helpers of its module that f
    calls (a helper that resolves what it is handed takes the provenance of the argument at the call site): where the
    modification handed to the resolver comes from"""
    prov = _Provenance(program, f)
    sources = {}

    def add(kinds, call):
        kinds = {k for k in kinds if k != 'static' and not k.startswith('param:')} or \
            ({'static rule on residues'} if 'static' in kinds else set())
        for k in kinds or {f'? {norm_stmt(call)[:60]}'}:
            sources.setdefault(k, []).append(call)

    def resolver_params(g, depth=0):
        """parameters of helper g whose elements reach `callee` inside g"""
        pg = _Provenance(program, g, 1, prov.sites)
        out = set()
        for call in [x for x in ast.walk(g.node) if isinstance(x, ast.Call) and isinstance(x.func, ast.Name)
                     and x.func.id == callee and x.args]:
            out |= {k[len('param:'):] for k in pg.of(call.args[0]) if k.startswith('param:')}
        return out

    for call in [x for x in ast.walk(f.node) if isinstance(x, ast.Call) and isinstance(x.func, ast.Name)]:
        if call.func.id == callee and call.args:
            add(prov.of(call.args[0]), call)
        elif call.func.id.startswith('_') and call.func.id != callee:
            g = program.find_func(f'{f.module.name}:{call.func.id}')
            if g is None or g.fq == f.fq:
                continue
            rp = resolver_params(g)
            names = [p_.name for p_ in g.params]
            for i, a in enumerate(call.args):
                if i < len(names) and names[i] in rp:
                    add(prov.of(a), call)
            for kw in call.keywords:
                if kw.arg in rp:
                    add(prov.of(kw.value), call)
            # a generator helper that yields the modifications itself is followed by _Provenance.of
    return (sources, prov.sites) if with_sites else sources


def _is_count_of_sequence(f, name: str) -> bool:
    for n in walk_own(f.node):
        if isinstance(n, ast.Assign) and any(isinstance(t, ast.Name) and t.id == name for t in n.targets):
            v = n.value
            if isinstance(v, ast.Call) and isinstance(v.func, ast.Attribute) and v.func.attr == 'count' and \
                    isinstance(v.func.value, ast.Attribute) and v.func.value.attr == 'sequence':
                return True
    return False


def adduct_homogeneity(ctx, rep, clause):
    """every additive term of _parse_adduct_mass carries the ion count (mass of c ions X^q is c times one ion)"""
    fq = 'peptacular.mass_calc:_parse_adduct_mass'
    f = ctx.program.func(fq)
    c = Canon(f.node)
    unpack = None
    for n in walk_own(f.node):
        if isinstance(n, ast.Assign) and isinstance(n.value, ast.Call) and isinstance(n.value.func, ast.Name) and \
                n.value.func.id == 'parse_ion_elements' and isinstance(n.targets[0], ast.Tuple):
            unpack = c.text(n.value)
    if unpack is None:
        raise AnalysisError('_parse_adduct_mass: cannot find the unpacking of parse_ion_elements')
    roles = {f'unpack({unpack}).0': '<count>', f'unpack({unpack}).1': '<symbol>', f'unpack({unpack}).2': '<charge>'}

    def spell(node):
        t = c.text(node)
        for k, v in roles.items():
            t = t.replace(k, v)
        return re.sub(r'\$\d+|\bvar\d+\b', '<mass>', t)
    seen = set()
    returned = {r.value.id for r in walk_own(f.node) if isinstance(r, ast.Return) and isinstance(r.value, ast.Name)}

    def summands(e):
        if isinstance(e, ast.BinOp) and isinstance(e.op, (ast.Add, ast.Sub)):
            return summands(e.left) + summands(e.right)
        if isinstance(e, ast.IfExp):
            return summands(e.body) + summands(e.orelse)
        return [e]
    terms = []       # (statement the term is spelled by, expression that must carry the count)
    for n in walk_own(f.node):
        if isinstance(n, ast.AugAssign) and isinstance(n.target, ast.Name) and isinstance(n.op, (ast.Add, ast.Sub)):
            terms.append((n, n.value))
        elif isinstance(n, ast.Assign) and len(n.targets) == 1 and isinstance(n.targets[0], ast.Name) and \
                n.targets[0].id in returned and not isinstance(n.value, ast.Constant) and \
                not any(isinstance(y, ast.Name) and y.id in returned for y in ast.walk(n.value)):
            # the total started from its first term (`m = count * mass`) instead of from zero
            for e in summands(n.value):
                terms.append((n if len(summands(n.value)) == 1 else e, e))
        elif isinstance(n, ast.Return) and n.value is not None and not isinstance(n.value, (ast.Name, ast.Constant)) and \
                not any(isinstance(y, ast.Name) and y.id in returned for y in ast.walk(n.value)):
            for e in summands(n.value):
                terms.append((n if len(summands(n.value)) == 1 else e, e))
    for n, val in terms:
        txt = spell(n)
        if txt in seen:
            continue
        seen.add(txt)
        ob(rep, 'AFF-degree', fq, f'term `{txt}` is proportional to the ion count', '<count>' in spell(val),
              'carries the factor <count>',
              f'the term does not carry the ion count (first component of parse_ion_elements): for counts other '
              f'than 1 the adduct mass is not count x (mass of one ion)', f.loc(n), clause)
    rep.floor('AFF-degree', 'distinct additive terms in _parse_adduct_mass', len(seen), 3)


def isotope_selection(ctx, rep, clause):
    """element_setup.py: every table builder takes as representative ("monoisotopic") isotope of an element the most
    abundant one (first element after sorting by abundance, descending), so that the mass table, the average table,
    the isotope patterns and the Hill order speak of the same isotope.  The representative is recognised by its role:
    the local whose .atomic_symbol / .atomic_number keys the table being built"""
    program = ctx.program
    n = 0
    for f in program.all_functions():
        if f.module.name != 'peptacular.element_setup':
            continue
        c = Canon(f.node)
        sorted_vars = {}
        for node in walk_own(f.node):
            if isinstance(node, ast.Call) and isinstance(node.func, ast.Attribute) and node.func.attr == 'sort' and \
                    isinstance(node.func.value, ast.Name):
                kws = {kw.arg: c.text(kw.value) for kw in node.keywords}
                key = kws.get('key', '').replace(' ', '')
                ok = key == 'lambdaarg0:arg0.isotopic_composition' and kws.get('reverse') == 'True'
                sorted_vars[node.func.value.id] = (ok, node)
        reps = set()
        for node in walk_own(f.node):
            keys = []
            if isinstance(node, (ast.Assign, ast.AugAssign)):
                for t in (node.targets if isinstance(node, ast.Assign) else [node.target]):
                    if isinstance(t, ast.Subscript):
                        keys.append(t.slice)
            if isinstance(node, ast.Call) and isinstance(node.func, ast.Attribute) and node.func.attr == 'append':
                keys += list(node.args)
            for k in keys:
                if isinstance(k, ast.Attribute) and k.attr in ('atomic_symbol', 'atomic_number') and \
                        isinstance(k.value, ast.Name) and c.is_local(k.value.id):
                    reps.add(k.value.id)
        for node in walk_own(f.node):
            if isinstance(node, ast.Assign) and isinstance(node.targets[0], ast.Name) and node.targets[0].id in reps:
                n += 1
                v = node.value
                src = v.value.id if isinstance(v, ast.Subscript) and isinstance(v.value, ast.Name) and \
                    isinstance(v.slice, ast.Constant) and v.slice.value == 0 else None
                good = src is not None and sorted_vars.get(src, (False, None))[0] and \
                    sorted_vars[src][1].order < node.order
                ob(rep, 'SIB-isotope-order', f.fq, f'the isotope that keys the table (`{c.text(node.value)[:60]}`) is the '
                   f'most abundant one', good,
                   'first element after sorting by isotopic_composition, descending',
                   f'`{norm_stmt(node)}` does not take the first element of a list sorted by abundance (descending) as '
                   f'its siblings do: this table calls another isotope "monoisotopic" than the others (differs for Se, '
                   f'Li, B, Fe, ...)', f.loc(node), clause)
        # a selection written in place: <list>[0].atomic_symbol
        seen_inline = set()
        for node in walk_own(f.node):
            if isinstance(node, ast.Attribute) and node.attr in ('atomic_symbol', 'atomic_number') and \
                    isinstance(node.value, ast.Subscript) and isinstance(node.value.value, ast.Name) and \
                    isinstance(node.value.slice, ast.Constant) and node.value.slice.value == 0 and \
                    isinstance(node.ctx, ast.Load) and not any(
                        isinstance(l_, ast.Lambda) and any(node is y for y in ast.walk(l_)) for l_ in walk_own(f.node)):
                src = node.value.value.id
                if src in seen_inline:
                    continue
                seen_inline.add(src)
                n += 1
                good = sorted_vars.get(src, (False, None))[0] and sorted_vars[src][1].order < node.order
                ob(rep, 'SIB-isotope-order', f.fq, f'the isotope that keys the table (`{src}[0]`) is the most abundant one',
                   good, 'first element after sorting by isotopic_composition, descending',
                   f'`{norm_stmt(node)}` takes the first element of `{src}`, which was not sorted by abundance '
                   f'(descending) before: this table calls another isotope "monoisotopic" than the others', f.loc(node),
                   clause)
        for r in sorted(reps):
            if any(k == 'each' and isinstance(pl[0], ast.Name) and pl[0].id in {p_.name for p_ in f.params}
                   for k, pl in c.bindings.get(r, [])):
                continue  # grouping of the raw isotope records by element: every record is filed, none is selected
            if not any(isinstance(node, ast.Assign) and isinstance(node.targets[0], ast.Name) and node.targets[0].id == r
                       for node in walk_own(f.node)):
                n += 1
                ob(rep, 'SIB-isotope-order', f.fq, 'the isotope that keys the table is selected from a sorted list', False,
                   '', f'`{r}` keys the table but is not assigned from `<list sorted by abundance>[0]` (it is a loop '
                   f'variable or an unpacked value)', f.loc(), clause)
    rep.floor('SIB-isotope-order', 'representative-isotope selections in element_setup.py', n, 9)


def run(ctx, rep):
    an, program = ctx.analyzer, ctx.program
    # (a) forwarding of the mono/average switch over the whole mass call graph
    obs = forwarding(an, program, ['monoisotopic'])
    n = add_fwd(rep, obs, 'C02a')
    rep.floor('FWD', 'monoisotopic forwarding sites', n, 40)
    # (b)
    mass_accumulation(ctx, rep, 'C02b')
    # (c)
    ps = ['charge', 'ion_type', 'monoisotopic', 'isotope', 'loss', 'charge_adducts', 'isotope_mods']
    k = add_ret(rep, param_reaches_returns(an, program, MASS, ps), 'C02c')
    k += add_ret(rep, param_reaches_returns(an, program, 'peptacular.mass_calc:mz', ps), 'C02c')
    k += add_ret(rep, param_reaches_returns(an, program, 'peptacular.mass_calc:adjust_mass',
                                            ['base_mass', 'charge', 'ion_type', 'monoisotopic', 'isotope', 'loss',
                                             'charge_adducts']), 'C02c')
    k += add_ret(rep, param_reaches_returns(an, program, 'peptacular.mass_calc:adjust_mz', ['base_mass', 'charge']),
                 'C02c')
    k += add_ret(rep, param_reaches_returns(an, program, 'peptacular.chem.chem_util:chem_mass',
                                            ['formula', 'monoisotopic']), 'C02c')
    def numeric(pname, node, av):
        """a value computed from the number / text of the modification with built-ins only (or by the observed-mass
        reader) has no isotopic mode; a constant is the designed zero of a bare tag or the unresolved None"""
        if pname != 'monoisotopic' or node.value is None:
            return None
        if isinstance(node.value, ast.Constant):
            return 'a constant: the designed zero of a bare localisation tag, or None for "unresolved" (the caller raises)'
        calls = [c_ for c_ in ast.walk(node.value) if isinstance(c_, ast.Call)]
        names = {norm_stmt(c_.func) for c_ in calls}
        free = {x.id for x in ast.walk(node.value) if isinstance(x, ast.Name)}
        # nothing but the parameters and built-ins: no table, no module-level name, no other local
        if names <= {'round', 'float', 'int', 'abs', '_parse_obs_mass_from_proforma_str'} and \
                free <= {'mod', 'precision', 'round', 'float', 'int', 'abs', '_parse_obs_mass_from_proforma_str'} and \
                {d for d in av.deps if not d.startswith('@')} <= {'mod', 'precision'}:
            return 'a numeric shift (or an observed mass) is a number: it has no isotopic mode'
        return None
    k += add_ret(rep, param_reaches_returns(an, program, 'peptacular.mass_calc:mod_mass', ['mod', 'monoisotopic'],
                                            exempt=numeric), 'C02c')
    k += add_ret(rep, param_reaches_returns(an, program, 'peptacular.mass_calc:_parse_mod_mass',
                                            ['mod', 'monoisotopic'], exempt=numeric), 'C02c')
    rep.floor('RET', 'parameter/return pairs', k, 30)
    # (d)
    mono_avg_pairing(ctx, rep, 'C02d')
    mode_reads_under_switch(ctx, rep, 'C02d')
    from . import C05
    C05.affine_shape(ctx, rep, 'C02d')
    # (e)
    adduct_homogeneity(ctx, rep, 'C02e')
    # (f)
    t = rt.Tables(program)
    add_checks(rep, rt.reference_checks(t), 'C02f')
    add_checks(rep, rt.isotope_table_checks(program), 'C02f', 'peptacular.data', 'chem.txt')
    add_checks(rep, rt.derived_table_checks(program), 'C02f', 'peptacular.chem.chem_constants')
    isotope_selection(ctx, rep, 'C02f')


def check(ctx, rep):
    rep.explanation = EXPLANATION
    run(ctx, rep)
    from .common import memo_rule
    memo_rule(ctx, rep, 'C02g', ('peptacular.mass_calc', 'peptacular.chem.chem_util', 'peptacular.mods.mod_db', 'peptacular.glycan'))
    from .common import stale_accumulator_rule
    stale_accumulator_rule(ctx, rep, 'C02b', ('peptacular.mass_calc', 'peptacular.chem.chem_calc'), floor=3)
    from .common import optional_number_tests_rule
    optional_number_tests_rule(ctx, rep, 'C02c', ('peptacular.mass_calc', 'peptacular.chem.chem_util', 'peptacular.chem.chem_calc', 'peptacular.glycan', 'peptacular.mods.mod_db', 'peptacular.fragmentation', 'peptacular.isotope'))
