"""C07 -- digested peptides keep their modifications, their mass and their place (structural conditions)."""
import ast

from ..loader import AnalysisError, norm_stmt, walk_own
from ..rules_flow import forwarding
from .common import add_fwd, calls_in
from .common import check as ob
from ..canon import Canon
from ..guards import GuardEval, UNK
import copy
from . import C11, C16

EXPLANATION = (
    'Decides: (a) the return-type dispatcher cuts every peptide with exactly (span[0], span[1]) on both the '
    'unmodified fast path and the slice path, takes the fast path only under `not annotation.has_mods()`, and pairs '
    'each peptide with the very span it was cut with -- necessary for "string, annotation and span return types '
    'describe the same peptides"; (b) all five return types are handled, anything else raises; (c) the digest front '
    'ends forward every parameter (digest_from_config, sequential_digest\'s two call sites, the three sequence '
    'generators, span_to_sequence); (d)+(e) slice re-bases residue keys as Position - Boundary filtered by '
    'start <= k < stop, rewrites exactly sequence/residue mods/intervals/far-end termini and inherits global rules '
    'from the copy, identically in place and on a copy (shared with C11); (f) the subsequence search enumerates '
    'overlapping occurrences (shared with C16); (g) the digest functions do not write the protein annotation nor '
    'hand out pieces aliasing it (C08). Not decided: that slice re-indexes correctly for every (s, e); mass '
    'conservation across a digest; that the search re-locates every peptide (value-level).')

DG = 'peptacular.digestion'
RET = f'{DG}:_return_digested_sequences'


def _is_span_idx(e, i, var='span') -> bool:
    return isinstance(e, ast.Subscript) and isinstance(e.value, ast.Name) and e.value.id == var and \
        isinstance(e.slice, ast.Constant) and e.slice.value == i


def _cut_kind(e, var='span'):
    """classify the peptide-producing expression: ('fast'|'slice', wrapped, ok_bounds)"""
    # unwrap create_annotation(...) / .serialize()
    wrapped = []
    while True:
        if isinstance(e, ast.Call) and isinstance(e.func, ast.Name) and e.func.id == 'create_annotation' and e.args:
            wrapped.append('create_annotation')
            e = e.args[0]
            continue
        if isinstance(e, ast.Call) and isinstance(e.func, ast.Attribute) and e.func.attr == 'serialize' and not e.args:
            wrapped.append('serialize')
            e = e.func.value
            continue
        break
    if isinstance(e, ast.Subscript) and isinstance(e.slice, ast.Slice) and norm_stmt(e.value) == 'annotation.sequence':
        ok = _is_span_idx(e.slice.lower, 0, var) and _is_span_idx(e.slice.upper, 1, var) and e.slice.step is None
        return 'fast', wrapped, ok
    if isinstance(e, ast.Call) and isinstance(e.func, ast.Attribute) and e.func.attr == 'slice' and \
            norm_stmt(e.func.value) == 'annotation':
        ok = len(e.args) == 2 and _is_span_idx(e.args[0], 0, var) and _is_span_idx(e.args[1], 1, var) and not e.keywords
        return 'slice', wrapped, ok
    if isinstance(e, ast.Name) and e.id == var:
        return 'span', wrapped, True
    return 'unknown', wrapped, False


def dispatcher(ctx, rep, clause):
    """read once per (return type, protein modified?): the body is specialised under that pair (branches decided by it
    are pruned, inner helpers whose branches it decides are inlined), which leaves one generator over the spans whose
    element is classified -- if/elif chains, guard clauses, flags and a local helper are all read alike"""
    from ..guards import first_exit, spec_return, resolve as gresolve
    program = ctx.program
    f = program.func(RET)
    c = Canon(f.node)
    mod = program.module(DG)
    lit = mod.assigns.get('DigestReturnType')
    sl = lit.slice
    members = sorted(x.value for x in (sl.elts if isinstance(sl, ast.Tuple) else [sl]) if isinstance(x, ast.Constant))
    want_wrap = {'str': {'fast': [], 'slice': ['serialize']}, 'annotation': {'fast': ['create_annotation'], 'slice': []},
                 'str-span': {'fast': [], 'slice': ['serialize']},
                 'annotation-span': {'fast': ['create_annotation'], 'slice': []}}
    nested = {x.name: x for x in ast.walk(f.node) if isinstance(x, ast.FunctionDef) and x is not f.node}
    handled = set()
    n_exprs = 0
    for rtype in members:
        for hm in (False, True):
            env = {'return_type': rtype, 'annotation.has_mods()': hm}
            exits = first_exit(f.node.body, GuardEval(env, c.aliases()))
            rets = [st for st, _d in exits if isinstance(st, ast.Return)]
            if not rets or any(isinstance(st, ast.Raise) for st, _d in exits):
                continue
            handled.add(rtype)
            for st in rets:
                ge = GuardEval(env, c.aliases())
                g = gresolve(c.resolve(st.value), ge)
                label = f"'{rtype}' [{'modified' if hm else 'unmodified'} protein]"
                uses = [y for y in ast.walk(g) if isinstance(y, ast.Name) and y.id == 'spans']
                ob(rep, 'SIB-dispatch', RET, f'{label}: the spans are consumed once', len(uses) == 1, 'one pass',
                   f'`{norm_stmt(g)[:90]}` reads `spans` {len(uses)} times: when it is a generator the consumers share '
                   f'it, so each peptide is paired with the next span and every other peptide is lost', f.loc(st), clause)
                if not isinstance(g, ast.GeneratorExp):
                    if len(uses) == 1:
                        raise AnalysisError(f'{RET}: return for {rtype} is not a generator expression over the spans')
                    continue
                n_exprs += 1
                gen = g.generators[0]
                ok_iter = isinstance(gen.target, ast.Name) and norm_stmt(gen.iter) == 'spans' and len(g.generators) == 1 \
                    and not gen.ifs
                var = gen.target.id if isinstance(gen.target, ast.Name) else 'span'
                elt = g.elt
                # a local helper that builds the peptide: the arm it takes under this pair
                for _ in range(3):
                    changed = False

                    class Inl(ast.NodeTransformer):
                        def visit_Call(self_, n):
                            nonlocal changed
                            n = self_.generic_visit(n)
                            if isinstance(n.func, ast.Name) and n.func.id in nested:
                                h = nested[n.func.id]
                                bind = {a.arg: v for a, v in zip(h.args.args, n.args)}
                                r = spec_return(h, env, c.aliases(), bind)
                                if r is not None:
                                    changed = True
                                    return r
                            return n
                    elt = Inl().visit(copy.deepcopy(elt))
                    if not changed:
                        break
                paired = None
                if rtype.endswith('-span'):
                    if isinstance(elt, ast.Tuple) and len(elt.elts) == 2:
                        paired = isinstance(elt.elts[1], ast.Name) and elt.elts[1].id == var
                        elt = elt.elts[0]
                    else:
                        paired = False
                kind, wrapped, ok_bounds = _cut_kind(elt, var)
                if rtype == 'span':
                    ob(rep, 'SIB-dispatch', RET, f"{label}: yields the spans themselves", kind == 'span' and ok_iter,
                       'span for span in spans', f'yields `{norm_stmt(g)[:80]}`', f.loc(st), clause)
                    continue
                ob(rep, 'SIB-dispatch', RET, f"{label}: cut with exactly (span[0], span[1]) over all spans",
                   ok_bounds and ok_iter and kind in ('fast', 'slice'), norm_stmt(elt)[:70],
                   f'`{norm_stmt(elt)[:90]}` does not cut with (span[0], span[1]) for every span: this return type '
                   f'describes other peptides than the span return type', f.loc(st), clause)
                if kind in ('fast', 'slice'):
                    ob(rep, 'SIB-dispatch', RET, f"{label}: result form", sorted(wrapped) == sorted(want_wrap[rtype][kind]),
                       f'{wrapped or "plain"}', f'the {kind} path of return type {rtype} produces '
                       f'{wrapped or "a plain slice"}: expected {want_wrap[rtype][kind] or "a plain slice"}', f.loc(st), clause)
                    ob(rep, 'SIB-dispatch', RET, f"{label}: string slicing only for unmodified proteins",
                       not (kind == 'fast' and hm), 'modified proteins go through slice()',
                       'the string-slicing fast path is taken for a modified protein: its modifications are dropped '
                       'from the peptides', f.loc(st), clause)
                if paired is not None:
                    ob(rep, 'SIB-dispatch', RET, f"{label}: the peptide is paired with the span it was cut with",
                       paired, '(peptide, span)', 'the tuple does not carry the span the peptide was cut with', f.loc(st),
                       clause)
    ob(rep, 'EXH', RET, f'handles every member of DigestReturnType {members}', set(members) == handled,
       'every member returns peptides', f'handled {sorted(handled)}', f.loc(), 'C07b')
    ex = first_exit(f.node.body, GuardEval({'return_type': '<something else>', 'annotation.has_mods()': False}, c.aliases()))
    ob(rep, 'EXH', RET, 'any other return type raises', len(ex) == 1 and isinstance(ex[0][0], ast.Raise),
       'raise ValueError', 'an unknown return type falls through silently', f.loc(), 'C07b')
    rep.floor('SIB-dispatch', 'peptide-producing expressions in the dispatcher', n_exprs, 5)


def front_ends(ctx, rep, clause):
    an, program = ctx.analyzer, ctx.program
    callers = {f.fq for f in program.all_functions() if f.module.name == DG} | {
        'peptacular.sequence.sequence_funcs:span_to_sequence'}
    n = add_fwd(rep, forwarding(an, program, ['min_len', 'max_len', 'return_type', 'missed_cleavages', 'semi',
                                              'complete_digestion', 'sort_output', 'enzyme_regex', 'include_plus'],
                                callers=callers), clause)
    rep.floor('FWD', 'forwarding sites in the digest front ends', n, 20)
    # digest_from_config: the four config fields
    f = program.func(f'{DG}:digest_from_config')
    recs = [r for r in calls_in(an, f.fq) if r.callee is not None and r.callee.name == 'digest']
    if len(recs) != 1:
        raise AnalysisError('digest_from_config: delegating call not found')
    want = {'enzyme_regex': 'config.regex', 'missed_cleavages': 'config.missed_cleavages',
            'semi': 'config.semi_enzymatic', 'complete_digestion': 'config.complete_digestion', 'sequence': 'sequence'}
    for p, src in want.items():
        e = recs[0].binding.get(p)
        ob(rep, 'FWD', f.fq, f'digest({p}=...) comes from {src}', e is not None and norm_stmt(e) == src, src,
           f'`{p}` is {"not passed" if e is None else "bound to `" + norm_stmt(e) + "`"}', f.loc(recs[0].node), clause)
    # sequential_digest: both call sites agree in every keyword except the sequence
    g = program.func(f'{DG}:sequential_digest')
    recs = [r for r in calls_in(an, g.fq) if r.callee is not None and r.callee.name == 'digest']
    ob(rep, 'SIB-clone', g.fq, 'two digest() call sites (first stage, later stages)', len(recs) == 2, '2',
       f'{len(recs)} call sites', g.loc(), clause)
    if len(recs) == 2:
        a = {k: norm_stmt(v) for k, v in recs[0].binding.items() if k != 'sequence' and v is not None}
        b = {k: norm_stmt(v) for k, v in recs[1].binding.items() if k != 'sequence' and v is not None}
        ob(rep, 'SIB-clone', g.fq, 'both stages call digest() with the same settings', a == b, f'{len(a)} keywords',
           f'stages differ in {sorted(k for k in set(a) | set(b) if a.get(k) != b.get(k))}', g.loc(recs[1].node), clause)
        # re-basing of spans: (span[0] + s, span[0] + e, span[2])
    ok = False
    for a_ in ast.walk(g.node):
        v = a_.value if isinstance(a_, ast.Assign) else (a_ if isinstance(a_, ast.Tuple) else None)
        if isinstance(v, ast.Tuple) and len(v.elts) == 3:
            e0, e1, e2 = v.elts

            def plus(e, i):
                if isinstance(e, ast.BinOp) and isinstance(e.op, ast.Add) and isinstance(e.left, ast.Subscript) and \
                        isinstance(e.right, ast.Subscript) and isinstance(e.left.value, ast.Name) and \
                        isinstance(e.right.value, ast.Name):
                    for parent, child in ((e.left, e.right), (e.right, e.left)):
                        if isinstance(parent.slice, ast.Constant) and parent.slice.value == 0 and \
                                isinstance(child.slice, ast.Constant) and child.slice.value == i and \
                                parent.value.id != child.value.id:
                            return parent.value.id, child.value.id
                return None
            p0, p1 = plus(e0, 0), plus(e1, 1)
            if p0 and p1 and p0 == p1 and _is_span_idx(e2, 2, p0[0]):
                ok = True
    ob(rep, 'KIND', g.fq, 'later-stage spans are re-based by the parent span start', ok,
       '(parent.start + s, parent.start + e, ...)', 'sub-spans are no longer shifted by the start of their parent',
       g.loc(), clause)
    # generators -> span builders
    for fname, builder in (('get_left_semi_enzymatic_sequences', 'build_left_semi_spans'),
                           ('get_right_semi_enzymatic_sequences', 'build_right_semi_spans'),
                           ('get_non_enzymatic_sequences', 'build_non_enzymatic_spans')):
        h = program.func(f'{DG}:{fname}')
        names = [r.callee.name for r in calls_in(an, h.fq) if r.callee is not None]
        ob(rep, 'CALL-map', h.fq, f'{fname} uses {builder} and the dispatcher', builder in names and
           '_return_digested_sequences' in names, 'builder -> dispatcher', f'calls {sorted(set(names))}', h.loc(), clause)


def effects(ctx, rep, clause):
    an, program = ctx.analyzer, ctx.program
    for name in ('digest', 'sequential_digest', 'digest_from_config', 'get_left_semi_enzymatic_sequences',
                 'get_right_semi_enzymatic_sequences', 'get_semi_enzymatic_sequences', 'get_non_enzymatic_sequences',
                 'get_cleavage_sites', '_return_digested_sequences'):
        fq = f'{DG}:{name}'
        s = an.summaries.get((fq, ()))
        if s is None:
            raise AnalysisError(f'no summary for {fq}')
        alias = [o for o in s.ret if o[0] in ('P', 'I')] + [o for o in s.ret_inner_known if o[0] in ('P', 'I')]
        ob(rep, 'EFF', fq, 'the protein annotation is neither written nor handed out', not s.mutates and not alias,
           'pure, fresh results', f'writes {sorted(s.mutates)} / aliases {alias}', program.func(fq).loc(), clause)


def check(ctx, rep):
    rep.explanation = EXPLANATION
    dispatcher(ctx, rep, 'C07a')
    front_ends(ctx, rep, 'C07c')
    C11.index_kinds(ctx, rep, 'C07d', methods=('slice',))
    C11.rewritten_fields(ctx, rep, 'C07d')
    C11.twins(ctx, rep, 'C07e')
    C16.overlapped_rule(ctx, rep, 'C07f')
    C16.early_rejects(ctx, rep, 'C07f')
    from . import C20 as _c20
    _c20.has_mods_coverage(ctx, rep, 'C07e')
    from . import C20
    C20.empty_vs_absent(ctx, rep, 'C07f')
    effects(ctx, rep, 'C07g')
    from .common import value_preserving_rule
    value_preserving_rule(ctx, rep, 'C07a', ('peptacular.proforma.proforma_dataclasses', 'peptacular.proforma.proforma_parser', 'peptacular.proforma.input_convert', 'peptacular.digestion'))
    from .common import memo_rule
    memo_rule(ctx, rep, 'C07h', ('peptacular.digestion', 'peptacular.spans'))
