"""C01 -- ProForma text and annotation objects are faithful inverses (writer/reader table agreement, field coverage)."""
import ast
from typing import Dict, List, Optional, Tuple

from ..loader import AnalysisError, norm_stmt, walk_own
from ..rules_flow import forwarding
from .common import add_fwd, ret_tags
from .common import check as ob
from ..canon import Canon, localise, each, bound, custom

EXPLANATION = (
    'Decides necessary conditions of the round trip: (a) the delimiter table extracted from the serializer '
    '(bracket pair per modification position, the literal written before/after each group, interval markers, '
    'charge introducer, multiplier marker, chain-link token per connection flag) is accepted by the parser for the '
    'same feature, extracted from the cursor-character tests that dominate each _add_<feature> call; selectors of '
    'different features are disjoint; (b) all 11 annotation fields are passed by the parser\'s result builder, '
    'reset between chains, read by the serializer, compared by __eq__ and copied by dict(); Interval and Mod fields '
    'are read by the serializer, __eq__ and __hash__; (c) include_plus travels from serialize to every '
    'Mod.serialize call; (d) interval bounds are written before residue i / after the last residue and read as '
    'len(residues so far), residue modifications are attached at len(residues)-1. Not decided: that parse builds '
    'exactly the denoted structure for every string of the grammar and that parse(serialize(a)) == a (value-level '
    'over an unbounded language); index bookkeeping; value canonicalisation.')

PP = 'peptacular.proforma.proforma_parser'
FIELDS = ['sequence', 'isotope_mods', 'static_mods', 'labile_mods', 'unknown_mods', 'nterm_mods', 'cterm_mods',
          'internal_mods', 'intervals', 'charge', 'charge_adducts']


# ---------------------------------------------------------------------------------------------------------
# writer side
def _const_str(e) -> Optional[str]:
    if isinstance(e, ast.Constant) and isinstance(e.value, str):
        return e.value
    return None


def _append_literal(st) -> Optional[str]:
    """`comps.append('<lit>')` or `comps.append(f'<lit>{...}')` -> the literal (prefix)"""
    if isinstance(st, ast.Expr) and isinstance(st.value, ast.Call) and isinstance(st.value.func, ast.Attribute) and \
            st.value.func.attr == 'append' and st.value.args:
        a = st.value.args[0]
        s = _const_str(a)
        if s is not None:
            return s
        if isinstance(a, ast.JoinedStr) and a.values and isinstance(a.values[0], ast.Constant):
            return str(a.values[0].value)
    return None


def _serialize_brackets(node) -> Optional[str]:
    for n in ast.walk(node):
        if isinstance(n, ast.Call) and isinstance(n.func, ast.Attribute) and n.func.attr == 'serialize' and n.args:
            s = _const_str(n.args[0])
            if s is not None and len(s) == 2:
                return s
    return None


def _field_of_iter(e) -> Optional[str]:
    """annotation.labile_mods -> labile_mods ; interval.mods -> interval.mods ; annotation.internal_mods[i] -> internal_mods"""
    if isinstance(e, ast.Subscript):
        e = e.value
    if isinstance(e, ast.Attribute) and isinstance(e.value, ast.Name):
        if e.value.id == 'interval' and e.attr == 'mods':
            return 'interval.mods'
        return e.attr
    return None


def writer_func(program, fname):
    """serializer part with its locals spelled interval / i / aa (whatever they are called in the source)"""
    return localise(program.func(f'{PP}:{fname}'),
                    {'interval': each(lambda t: t in ('annotation.intervals', 'annotation._intervals')),
                     'i': each('enumerate(annotation.sequence)', (0,)),
                     'aa': each('enumerate(annotation.sequence)', (1,))}, strict=False)


def reader_func(program, fname):
    """parser phase with its locals spelled cur / next_char / dummy_interval"""
    def record(c, fnode):
        for n in ast.walk(fnode):
            if isinstance(n, ast.Call) and isinstance(n.func, ast.Name) and n.func.id == 'Interval':
                for kw in n.keywords:
                    if kw.arg == 'start' and isinstance(kw.value, ast.Subscript) and isinstance(kw.value.value, ast.Name):
                        return kw.value.value.id
        return None
    return localise(program.func(f'{PP}:_ProFormaParser.{fname}'),
                    {'cur': bound('self._current()'), 'next_char': bound(lambda t: t in ('self._parse_char()', 'self._peek()')),
                     'dummy_interval': custom(record)}, strict=False)


def _role_of(iter_text: str, k):
    if iter_text.endswith('.intervals') or iter_text.endswith('._intervals'):
        return 'interval'
    if iter_text == 'enumerate(annotation.sequence)' and k is not None:
        return ('i', 'aa')[k] if k < 2 else None
    if 'mods' in iter_text or 'adducts' in iter_text:
        return 'mod'
    return None


def writer_model(program, fname):
    """emission tree of one serializer part (helpers inlined, locals substituted, loop variables spelled by role,
    parameters spelled annotation / include_plus)"""
    from ..emit import Builder
    from ..canon import params_of
    f = program.func(f'{PP}:{fname}')
    ps = params_of(f.node)
    if len(ps) < 2:
        raise AnalysisError(f'{fname}: expected (annotation, include_plus)')
    b = Builder(program, PP, _role_of)
    seq, kind = b.function(f, {ps[0]: ast.Name(id='annotation', ctx=ast.Load()),
                               ps[1]: ast.Name(id='include_plus', ctx=ast.Load())})
    if seq is None or kind != 'joined':
        raise AnalysisError(f'{fname}: not read as a text builder (a list of pieces that is joined and returned)')
    return f, seq


def _lit_of(fl) -> Optional[str]:
    """the literal (prefix) an emission writes: '?' ; f'/{charge}' -> '/'"""
    e = fl.emit.expr
    s = _const_str(e)
    if s is not None:
        return s
    if isinstance(e, ast.JoinedStr) and e.values and isinstance(e.values[0], ast.Constant):
        return str(e.values[0].value)
    return None


def writer_table(program) -> Dict[str, dict]:
    """per modification group: the bracket pairs it is written in and the literal written right before / after the
    group (under the same conditions); per condition: the literals written under it"""
    from ..emit import flat
    rows: Dict[str, dict] = {}
    for fname in ('_serialize_annotation_start', '_serialize_annotation_middle', '_serialize_annotation_end'):
        f, seq = writer_model(program, fname)
        fl = flat(seq)
        for k, x in enumerate(fl):
            e = x.emit.expr
            if isinstance(e, ast.Call) and isinstance(e.func, ast.Attribute) and e.func.attr == 'serialize' and x.loops \
                    and isinstance(e.func.value, ast.Name) and e.func.value.id in x.loops[-1].roles:
                br = _serialize_brackets(e)
                fld = _field_of_iter(x.loops[-1].iter)
                if fld is None or br is None:
                    continue
                row = rows.setdefault(fld, {'brackets': set(), 'before': set(), 'after': set(),
                                            'loc': f.loc(x.emit.node) if x.emit.fn is None or x.emit.fn.fq == f.fq
                                            else x.emit.fn.loc(x.emit.node), 'under': set()})
                row['brackets'].add(br)
                row['under'] |= {t for t, pol in x.guards if pol}
                outer = tuple(l.uid for l in x.loops[:-1])
                for side, j in (('before', k - 1), ('after', k + 1)):
                    if 0 <= j < len(fl):
                        y = fl[j]
                        lit = _lit_of(y)
                        # a neighbour written once per group: same outer loops, and no condition of its own beyond
                        # the group's
                        if lit is not None and tuple(l.uid for l in y.loops) == outer and set(y.guards) <= set(x.guards):
                            row[side].add(lit)
            else:
                lit = _lit_of(x)
                if lit is not None:
                    for t, pol in x.guards:
                        if pol:
                            rows.setdefault('literal:' + t, {'lits': [], 'loc': f.loc(x.emit.node)
                                                             if x.emit.fn is None or x.emit.fn.fq == f.fq
                                                             else x.emit.fn.loc(x.emit.node)})['lits'].append(lit)
    return rows


def _templates(e, c: Canon, depth=0) -> List[str]:
    """every text shape an expression can produce, as templates with {expr} holes: f-strings are flattened, locals
    that stand for a piece of text are expanded, conditional expressions give one template per arm"""
    if depth > 6:
        return ['{' + norm_stmt(e) + '}']
    if isinstance(e, ast.Constant):
        return [str(e.value)] if isinstance(e.value, str) else ['{' + norm_stmt(e) + '}']
    if isinstance(e, ast.JoinedStr):
        outs = ['']
        for v in e.values:
            parts = _templates(v.value if isinstance(v, ast.FormattedValue) else v, c, depth + 1) \
                if not (isinstance(v, ast.FormattedValue) and v.format_spec is not None) else ['{' + norm_stmt(v.value) + ':spec}']
            outs = [a + b for a in outs for b in parts]
        return outs
    if isinstance(e, ast.IfExp):
        return _templates(e.body, c, depth + 1) + _templates(e.orelse, c, depth + 1)
    if isinstance(e, ast.BinOp) and isinstance(e.op, ast.Add):
        return [a + b for a in _templates(e.left, c, depth + 1) for b in _templates(e.right, c, depth + 1)]
    if isinstance(e, ast.Call) and isinstance(e.func, ast.Name) and e.func.id == 'str' and len(e.args) == 1:
        return ['{' + norm_stmt(e.args[0]) + '}']
    if isinstance(e, ast.Name) and c.is_local(e.id):
        outs = []
        for kind, payload in c.bindings.get(e.id, []):
            if kind == 'assign':
                outs += _templates(payload, c, depth + 1)
        if outs:
            return outs
    return ['{' + norm_stmt(e) + '}']


def mod_serialize_shape(program) -> dict:
    """Mod.serialize: <b0><val><b1>^<mult> if mult > 1 else <b0><val><b1>; '+' prefix under include_plus"""
    f = program.func('peptacular.proforma.proforma_dataclasses:Mod.serialize')
    c = Canon(f.node)
    info = {'multiplier_marker': None, 'plus': False, 'brackets_from_arg': False, 'loc': f.loc()}
    for n in walk_own(f.node):
        if isinstance(n, ast.Return) and n.value is not None:
            for txt in _templates(n.value, c):
                if '{brackets[0]}' in txt and '{brackets[1]}' in txt:
                    info['brackets_from_arg'] = True
                    tail = txt.split('{brackets[1]}', 1)[1]
                    if tail:
                        marker = tail.split('{', 1)[0]
                        if marker and '{self.mult}' in tail:
                            info['multiplier_marker'] = marker
                    body = txt.split('{brackets[0]}', 1)[1]
                    if body.startswith('+{self.val}'):
                        info['plus'] = True
    return info


def writer_links(program) -> Dict[bool, str]:
    f = program.func(f'{PP}:MultiProFormaAnnotation.serialize')
    out: Dict[bool, str] = {}
    for n in ast.walk(f.node):
        if isinstance(n, ast.If) and isinstance(n.test, ast.Compare) and len(n.test.comparators) == 1 and \
                isinstance(n.test.comparators[0], ast.Constant) and isinstance(n.test.comparators[0].value, bool) and \
                'connection' in norm_stmt(n.test.left):
            val = n.test.comparators[0].value
            if isinstance(n.test.ops[0], (ast.IsNot, ast.NotEq)):
                val = not val

            def lit(block):
                for st in block:
                    if isinstance(st, ast.AugAssign) and _const_str(st.value) is not None:
                        return _const_str(st.value)
                return None
            a, b = lit(n.body), lit(n.orelse)
            if a is not None:
                out[val] = a
            if b is not None:
                out[not val] = b
    if set(out) != {True, False}:
        raise AnalysisError('MultiProFormaAnnotation.serialize: link tokens per connection flag not found')
    return out


# ---------------------------------------------------------------------------------------------------------
# reader side
def _cursor_eq(test) -> List[Tuple[str, str]]:
    """equalities `cur == 'x'` / `next_char == 'x'` / `self._current() == 'x'` in a conjunction -> [(subject, char)]"""
    out = []
    parts = test.values if isinstance(test, ast.BoolOp) and isinstance(test.op, ast.And) else [test]
    for p in parts:
        if isinstance(p, ast.Compare) and len(p.ops) == 1 and isinstance(p.ops[0], ast.Eq):
            c = _const_str(p.comparators[0])
            if c is None:
                continue
            subj = norm_stmt(p.left)
            if subj in ('cur', 'next_char', 'self._current()', 'self._peek()'):
                out.append((subj, c))
            elif subj.replace(' ', '').startswith('self.sequence[self.position+'):
                out.append(('self._current()', c))  # a look-ahead at the character after the cursor
        elif isinstance(p, ast.Compare) and len(p.ops) == 1 and isinstance(p.ops[0], ast.In) and \
                isinstance(p.comparators[0], (ast.Tuple, ast.List, ast.Set)) and norm_stmt(p.left) == 'cur':
            cs = [_const_str(x) for x in p.comparators[0].elts]
            if all(c is not None for c in cs):
                out.append(('cur', '|'.join(cs)))
    return out


def _negated(test):
    from ..emit import negate
    return negate(test)


def _adder_alternatives(e, dicts=None) -> list:
    """`self._add_x` -> [(x, [], [])] ; `self._add_x if T else self._add_y` -> [(x, [T], []), (y, ['not T'], [])] ;
    `{'-': self._add_x, '?': self._add_y}.get(<next character>)` -> [(x, [], [(next_char, '-')]), (y, [], [(.., '?')])]"""
    if isinstance(e, ast.Attribute) and e.attr.startswith('_add_') and norm_stmt(e.value) == 'self':
        return [(e.attr[len('_add_'):], [], [])]
    if isinstance(e, ast.IfExp):
        a, b = _adder_alternatives(e.body, dicts), _adder_alternatives(e.orelse, dicts)
        if a and b:
            t = norm_stmt(e.test)
            return [(f_, m + [t], c_) for f_, m, c_ in a] + [(f_, m + ['not ' + t], c_) for f_, m, c_ in b]
    table, key = None, None
    if isinstance(e, ast.Call) and isinstance(e.func, ast.Attribute) and e.func.attr == 'get' and e.args:
        table, key = e.func.value, e.args[0]
    elif isinstance(e, ast.Subscript):
        table, key = e.value, e.slice
    if table is not None:
        if isinstance(table, ast.Name) and dicts and table.id in dicts:
            table = dicts[table.id]
        subj = {'self._parse_char()': 'next_char', 'next_char': 'next_char', 'self._peek()': 'next_char',
                'cur': 'cur', 'self._current()': 'cur'}.get(norm_stmt(key))
        if isinstance(table, ast.Dict) and subj is not None:
            out = []
            for k_, v_ in zip(table.keys, table.values):
                ks = _const_str(k_) if k_ is not None else None
                alts = _adder_alternatives(v_, dicts)
                if ks is None or not alts:
                    return []
                out += [(f_, m, c_ + [(subj, ks)]) for f_, m, c_ in alts]
            return out
    return []


def _parse_mods_call(e) -> Optional[Tuple[str, str]]:
    for n in ast.walk(e):
        if isinstance(n, ast.Call) and isinstance(n.func, ast.Attribute) and \
                n.func.attr in ('_parse_modifications', '_parse_modification') and len(n.args) == 2:
            a, b = _const_str(n.args[0]), _const_str(n.args[1])
            if a is not None and b is not None:
                return a, b
    return None


def reader_table(program) -> Dict[str, dict]:
    rows: Dict[str, dict] = {}
    links: Dict[bool, str] = {}
    markers: Dict[str, dict] = {}
    for fname in ('_parse_sequence_start', '_parse_sequence_middle', '_parse_sequence_end'):
        f = reader_func(program, fname)
        # where the parts of an open interval live: whatever is handed to Interval(start=, end=, ambiguous=, mods=) --
        # slots of a scratch list, or plain locals
        slots = {}
        ctor = None
        for c_ in ast.walk(f.node):
            if isinstance(c_, ast.Call) and isinstance(c_.func, ast.Name) and c_.func.id == 'Interval':
                ctor = c_
                for role_, a_ in zip(('start', 'end', 'ambiguous', 'mods'), c_.args):
                    slots[role_] = norm_stmt(a_)
                for kw in c_.keywords:
                    if kw.arg in ('start', 'end', 'ambiguous', 'mods'):
                        slots[kw.arg] = norm_stmt(kw.value)
        amb_expr = slots.get('ambiguous', 'dummy_interval[2]')
        cres = Canon(f.node)     # values copied through single-assignment locals are read through

        def visit(block, conds: List[Tuple[str, str]], defs: Dict[str, Tuple[str, str]], extra: List[str]):
            defs = dict(defs)
            block = list(block)
            for k_, st in enumerate(block):
                # guard clause: `if cur != 'x': raise/continue/return` -- what follows runs under cur == 'x'
                if isinstance(st, ast.If) and not st.orelse and st.body and \
                        isinstance(st.body[-1], (ast.Raise, ast.Continue, ast.Return, ast.Break)):
                    neg = _cursor_eq(_negated(st.test))
                    if neg:
                        visit(st.body, conds, defs, extra)
                        visit(block[k_ + 1:], conds + neg, defs, extra)
                        return
                # an adder chosen by a conditional expression / bound to a local
                if isinstance(st, ast.Assign) and len(st.targets) == 1 and isinstance(st.targets[0], ast.Name):
                    if isinstance(st.value, ast.Dict):
                        dicts[st.targets[0].id] = st.value
                    alts = _adder_alternatives(st.value, dicts)
                    if alts:
                        adders[st.targets[0].id] = alts
                if isinstance(st, ast.Assign) and len(st.targets) == 1:
                    br = _parse_mods_call(st.value)
                    if br is not None:
                        if isinstance(st.targets[0], ast.Name):
                            defs[st.targets[0].id] = br
                        else:
                            # dummy_interval[3] = self._parse_modifications('[', ']')
                            rows.setdefault('interval.mods', {'brackets': set(), 'conds': [], 'loc': f.loc(st)})
                            rows['interval.mods']['brackets'].add(br[0] + br[1])
                            rows['interval.mods']['conds'].append(list(conds))
                    if isinstance(st.targets[0], ast.Attribute) and st.targets[0].attr == '_current_connection' and \
                            isinstance(st.value, ast.Constant) and isinstance(st.value.value, bool):
                        links[st.value.value] = ''.join(c for s, c in conds if s in ('cur', 'self._current()'))
                    if isinstance(st.targets[0], ast.Attribute) and st.targets[0].attr == '_charge':
                        markers['charge'] = {'conds': list(conds), 'loc': f.loc(st),
                                             'integer': '_parse_integer' in norm_stmt(st.value)}
                    # (slot, value) pairs this statement writes: x = v ; x[k] = v ; x = [v0, v1, ..] writes x[0], x[1], ..
                    tgt_txt = norm_stmt(st.targets[0])
                    writes = [(tgt_txt, st.value)]
                    if isinstance(st.targets[0], ast.Name) and isinstance(st.value, (ast.List, ast.Tuple)):
                        writes += [(f'{tgt_txt}[{k2}]', v2) for k2, v2 in enumerate(st.value.elts)]
                    for slot_, v_ in writes:
                        is_none = isinstance(v_, ast.Constant) and v_.value is None
                        if slot_ == amb_expr and isinstance(v_, ast.Constant) and v_.value is True:
                            markers['ambiguous'] = {'conds': list(conds), 'loc': f.loc(st)}
                        if slot_ == slots.get('start') and not is_none:
                            markers['open'] = {'conds': list(conds), 'loc': f.loc(st), 'start': norm_stmt(cres.resolve(v_))}
                        if slot_ == slots.get('end') and not is_none:
                            markers['close'] = {'conds': list(conds), 'loc': f.loc(st), 'end': norm_stmt(cres.resolve(v_))}
                        if slot_ == slots.get('mods') and _parse_mods_call(v_) is not None and \
                                not isinstance(st.targets[0], ast.Subscript):
                            br_ = _parse_mods_call(v_)
                            rows.setdefault('interval.mods', {'brackets': set(), 'conds': [], 'loc': f.loc(st)})
                            rows['interval.mods']['brackets'].add(br_[0] + br_[1])
                            rows['interval.mods']['conds'].append(list(conds))
                for call in [n for n in ast.walk(st) if isinstance(n, ast.Call)] if not isinstance(
                        st, (ast.If, ast.For, ast.While, ast.Try)) else []:
                    if call is ctor and 'close' not in markers and 'len(' in slots.get('end', ''):
                        markers['close'] = {'conds': list(conds), 'loc': f.loc(st), 'end': slots['end']}
                    targets = []
                    if isinstance(call.func, ast.Attribute) and call.func.attr.startswith('_add_') and call.args:
                        targets = [(call.func.attr[len('_add_'):], [])]
                    elif isinstance(call.func, ast.Name) and call.func.id in adders and call.args:
                        targets = adders[call.func.id]
                    elif isinstance(call.func, ast.IfExp) and call.args:
                        targets = _adder_alternatives(call.func)
                    for tgt_ in targets:
                        feat, more = tgt_[0], tgt_[1]
                        conds_ = conds + (list(tgt_[2]) if len(tgt_) > 2 else [])
                        extra_ = extra + more
                        arg = call.args[0]
                        br = _parse_mods_call(arg)
                        if br is None and isinstance(arg, ast.Name):
                            br = defs.get(arg.id)
                        if br is None and feat != 'interval':
                            raise AnalysisError(f'{fname}: brackets of {norm_stmt(call)} not found')
                        if feat == 'interval':
                            continue
                        row = rows.setdefault(feat, {'brackets': set(), 'conds': [], 'loc': f.loc(call), 'extra': []})
                        row['brackets'].add(br[0] + br[1])
                        row['conds'].append(list(conds_))
                        row['extra'] += extra_
                if isinstance(st, ast.If):
                    eqs = _cursor_eq(st.test)
                    tx = norm_stmt(st.test)
                    visit(st.body, conds + eqs, defs, extra + ([tx] if not eqs else []))
                    visit(st.orelse, conds, defs, extra + (['not ' + tx] if not eqs else []))
                elif isinstance(st, ast.For):
                    d2 = dict(defs)
                    br = _parse_mods_call(st.iter)
                    if br is not None and isinstance(st.target, ast.Name):
                        d2[st.target.id] = br
                    visit(st.body, conds, d2, extra)
                elif isinstance(st, ast.While):
                    visit(st.body, conds, defs, extra)
                elif isinstance(st, ast.Try):
                    visit(st.body, conds, defs, extra)
        adders: Dict[str, list] = {}
        dicts: Dict[str, ast.Dict] = {}
        visit(f.node.body, [], {}, [])
    rows['_links'] = links
    rows['_markers'] = markers
    return rows


def reader_multiplier(program) -> Optional[str]:
    """the character the parser tests the cursor against before it reads a multiplier: searched in _parse_modification
    and in the methods whose result it hands to Mod(.., <multiplier>)"""
    f = program.func(f'{PP}:_ProFormaParser._parse_modification')
    funcs = [f]
    c = Canon(f.node)
    for n in walk_own(f.node):
        if isinstance(n, ast.Call) and isinstance(n.func, ast.Name) and n.func.id == 'Mod' and \
                (len(n.args) >= 2 or any(kw.arg == 'mult' for kw in n.keywords)):
            arg = n.args[1] if len(n.args) >= 2 else [kw.value for kw in n.keywords if kw.arg == 'mult'][0]
            exprs = [arg]
            if isinstance(arg, ast.Name):
                exprs += [pl for kind, pl in c.bindings.get(arg.id, []) if kind == 'assign']
            for e in exprs:
                for x in ast.walk(e):
                    if isinstance(x, ast.Call) and isinstance(x.func, ast.Attribute) and norm_stmt(x.func.value) == 'self':
                        try:
                            funcs.append(program.func(f'{PP}:_ProFormaParser.{x.func.attr}'))
                        except Exception:
                            pass
    for g in funcs:
        for n in ast.walk(g.node):
            if isinstance(n, ast.Compare) and len(n.ops) == 1 and isinstance(n.ops[0], (ast.Eq, ast.NotEq)) and \
                    norm_stmt(n.left) in ('self._peek()', 'self._current()', 'self.sequence[self.position]'):
                cs = _const_str(n.comparators[0])
                if cs is not None:
                    return cs
    return None


def _sel(conds_list, subject: str) -> set:
    out = set()
    for conds in conds_list:
        for s, c in conds:
            if s == subject:
                out.add(c)
    return out


def token_tables(ctx, rep, clause):
    program = ctx.program
    w = writer_table(program)
    r = reader_table(program)
    wmap = {'labile_mods': 'labile_mod', 'static_mods': 'static_mod', 'isotope_mods': 'isotope_mod',
            'unknown_mods': 'unknown_mod', 'nterm_mods': 'nterm_mod', 'internal_mods': 'internal_mod',
            'interval.mods': 'interval.mods', 'cterm_mods': 'cterm_mod', 'charge_adducts': 'charge_adducts'}
    n = 0
    for wf, rf in wmap.items():
        wr, rr = w.get(wf), r.get(rf)
        if wr is None:
            raise AnalysisError(f'serializer: group for {wf} not found')
        if rr is None:
            raise AnalysisError(f'parser: _add call for {rf} not found')
        n += 1
        ok = wr['brackets'] <= rr['brackets'] and len(wr['brackets']) >= 1
        ob(rep, 'TOK-delimiter', f'{PP}:_serialize_annotation', f'{wf}: written in {sorted(wr["brackets"])}, read in '
           f'{sorted(rr["brackets"])}', ok, 'every bracket pair the writer emits is accepted for this feature',
           f'the serializer writes {wf} in {sorted(wr["brackets"])} but the parser reads {rf} from '
           f'{sorted(rr["brackets"])}: no string with such a modification round-trips', wr['loc'], clause)
        # the opening bracket is what selects the feature (cursor test), except after an introducer
        opens = {b[0] for b in wr['brackets']}
        cur = _sel(rr['conds'], 'cur')
        if wf in ('labile_mods', 'static_mods', 'isotope_mods', 'unknown_mods', 'nterm_mods', 'internal_mods'):
            ob(rep, 'TOK-delimiter', f'{PP}:_ProFormaParser', f'{rf}: selected by cursor {sorted(cur)}', opens <= cur,
               'the parser dispatches on the bracket the writer opens with',
               f'the parser selects {rf} on {sorted(cur)} but the writer opens with {sorted(opens)}', rr['loc'], clause)
    # terminators / introducers
    for wf, rf, side, subject in (('unknown_mods', 'unknown_mod', 'after', 'next_char'),
                                  ('nterm_mods', 'nterm_mod', 'after', 'next_char'),
                                  ('cterm_mods', 'cterm_mod', 'before', 'cur')):
        lits = w[wf][side]
        sel = _sel(r[rf]['conds'], subject)
        n += 1
        ok = len(lits) == 1 and lits <= sel
        ob(rep, 'TOK-delimiter', f'{PP}:_serialize_annotation', f'{wf}: literal {sorted(lits)} written {side} the group, '
           f'parser expects {sorted(sel)}', ok, 'the marker the writer emits is the one the parser tests',
           f'writer emits {sorted(lits)} {side} the {wf} group, parser tests {sorted(sel)}', w[wf]['loc'], clause)
    a, b = _sel(r['unknown_mod']['conds'], 'next_char'), _sel(r['nterm_mod']['conds'], 'next_char')
    ob(rep, 'TOK-delimiter', f'{PP}:_ProFormaParser', 'unknown-position and N-terminal markers are disjoint',
       not (a & b) and a and b, f'{sorted(a)} vs {sorted(b)}', f'markers overlap: {sorted(a & b)}',
       r['unknown_mod']['loc'], clause)
    # static vs isotope: both in <>, told apart by '@'
    st_extra = ' '.join(r['static_mod'].get('extra', []))
    iso_extra = ' '.join(r['isotope_mod'].get('extra', []))
    ob(rep, 'TOK-delimiter', f'{PP}:_ProFormaParser', "static and isotope rules are told apart by '@'",
       "'@' in" in st_extra and "not '@' in" in iso_extra,
       'a global modification with a target list is static, without it an isotope label',
       f'discriminating test not found (static: {st_extra!r}, isotope: {iso_extra!r})', r['static_mod']['loc'], clause)
    # interval markers: decided on the text the middle part writes for small representative annotations
    m = r['_markers']
    n += middle_reference(ctx, rep, clause, ('markers',))
    # charge
    wl = set()
    for k, v in w.items():
        if k.startswith('literal:') and 'charge' in k and 'adduct' not in k:
            wl |= set(v['lits'])
    rc = _sel([m['charge']['conds']], 'cur') if 'charge' in m else set()
    n += 1
    ob(rep, 'TOK-delimiter', f'{PP}:_serialize_annotation_end', f'charge introducer: written {sorted(wl)}, parser tests '
       f'{sorted(rc)}', bool(wl) and wl <= rc and m.get('charge', {}).get('integer', False),
       "'/' followed by an integer on both sides", f'writer emits {sorted(wl)}, parser tests {sorted(rc)}',
       m.get('charge', {}).get('loc', ''), clause)
    # multiplier
    ms = mod_serialize_shape(program)
    rm = reader_multiplier(program)
    n += 1
    ob(rep, 'TOK-delimiter', 'peptacular.proforma.proforma_dataclasses:Mod.serialize',
       f'multiplier marker: written {ms["multiplier_marker"]!r}, parser tests {rm!r}',
       ms['multiplier_marker'] is not None and ms['multiplier_marker'] == rm and ms['brackets_from_arg'],
       'same marker after the closing bracket', f'writer emits {ms["multiplier_marker"]!r}, parser tests {rm!r}',
       ms['loc'], clause)
    # chain links
    wlnk = writer_links(program)
    rlnk = r['_links']
    for flag in (False, True):
        n += 1
        ok = flag in rlnk and wlnk[flag] == rlnk[flag]
        ob(rep, 'TOK-link', f'{PP}:MultiProFormaAnnotation.serialize',
           f'link token for connection={flag}: written {wlnk[flag]!r}, parser recognises {rlnk.get(flag)!r}', ok,
           'the token the writer emits is the one the parser turns back into this flag',
           f'the serializer joins chains with {wlnk[flag]!r} when connection is {flag}, the parser sets '
           f'connection={flag} on {rlnk.get(flag)!r}: no such multi-chain string round-trips',
           program.func(f'{PP}:MultiProFormaAnnotation.serialize').loc(), clause)
    ob(rep, 'TOK-link', f'{PP}:_ProFormaParser._parse_sequence_end', 'the two link tokens are different',
       len(set(rlnk.values())) == 2, f'{sorted(rlnk.values())}', 'both flags are produced by the same token',
       program.func(f'{PP}:_ProFormaParser._parse_sequence_end').loc(), clause)
    rep.floor('TOK-delimiter', 'writer/reader rows compared', n, 16)


# ---------------------------------------------------------------------------------------------------------
def field_coverage(ctx, rep, clause):
    an, program = ctx.analyzer, ctx.program
    cls = program.cls(f'{PP}:ProFormaAnnotation')
    fields = [n.lstrip('_') for n in cls.field_names()]
    ob(rep, 'FLD', f'{PP}:ProFormaAnnotation', 'dataclass has the 11 documented fields', sorted(fields) == sorted(FIELDS),
       ', '.join(fields), f'fields are {fields}', f'{cls.module.relpath}:{cls.node.lineno}', clause)
    # (i) _get_result passes every field, (ii) _reset_sequence resets every accumulator _get_result reads
    g = program.func(f'{PP}:_ProFormaParser._get_result')
    passed = {}
    for n in ast.walk(g.node):
        if isinstance(n, ast.Call) and isinstance(n.func, ast.Name) and n.func.id == 'ProFormaAnnotation':
            for kw in n.keywords:
                passed[kw.arg.lstrip('_')] = norm_stmt(kw.value)
    for fld in fields:
        ob(rep, 'FLD', g.fq, f'parser result passes field {fld}', fld in passed, f'_{fld}={passed.get(fld)}',
           f'the parsed {fld} is never handed to the annotation: the feature is silently dropped', g.loc(), clause)
    rs = program.func(f'{PP}:_ProFormaParser._reset_sequence')
    reset = {norm_stmt(t) for n in walk_own(rs.node) if isinstance(n, ast.Assign) for t in n.targets}
    for fld, src in passed.items():
        if src.startswith('self.') and src != 'self._unmod_sequence':
            ob(rep, 'FLD', rs.fq, f'accumulator {src} is reset between chains', src in reset, 'reset',
               f'{src} is not reset: the {fld} of one chain leak into the next chain', rs.loc(), clause)
    ob(rep, 'FLD', rs.fq, 'residue list is reset between chains', 'self._amino_acids' in reset, 'reset',
       'residues of one chain leak into the next', rs.loc(), clause)
    # (iii) serializer reads every field
    tags = set()
    for fn in ('_serialize_annotation_start', '_serialize_annotation_middle', '_serialize_annotation_end'):
        tags |= ret_tags(an, f'{PP}:{fn}')
    ser = program.func(f'{PP}:_serialize_annotation')
    for fld in fields:
        ob(rep, 'FLD', ser.fq, f'serializer writes field {fld}', fld in tags, 'in the slice of the produced text',
           f'field {fld} never reaches the serialized text', ser.loc(), clause)
    called = {r.callee.name for r in an.calls.get((ser.fq, ()), []) if r.callee is not None}
    ob(rep, 'FLD', ser.fq, 'serializer concatenates start, middle and end',
       {'_serialize_annotation_start', '_serialize_annotation_middle', '_serialize_annotation_end'} <= called,
       'all three parts', f'calls only {sorted(called)}', ser.loc(), clause)
    for itf in ('start', 'end', 'ambiguous', 'mods'):
        ob(rep, 'FLD', f'{PP}:_serialize_annotation_middle', f'serializer reads Interval.{itf}',
           itf in ret_tags(an, f'{PP}:_serialize_annotation_middle'), 'read', f'Interval.{itf} is never written out',
           program.func(f'{PP}:_serialize_annotation_middle').loc(), clause)
    # (iv) __eq__, (v) dict()
    eq = ret_tags(an, f'{PP}:ProFormaAnnotation.__eq__')
    dc = ret_tags(an, f'{PP}:ProFormaAnnotation.dict')
    for fld in fields:
        ob(rep, 'FLD', f'{PP}:ProFormaAnnotation.__eq__', f'equality compares field {fld}', fld in eq, 'compared',
           f'two annotations that differ only in {fld} compare equal', program.func(f'{PP}:ProFormaAnnotation.__eq__').loc(),
           clause)
        ob(rep, 'FLD', f'{PP}:ProFormaAnnotation.dict', f'dict() copies field {fld}', fld in dc, 'copied',
           f'dict() drops {fld}', program.func(f'{PP}:ProFormaAnnotation.dict').loc(), clause)
    dcm = 'peptacular.proforma.proforma_dataclasses'
    for cname, flds in (('Mod', ['val', 'mult']), ('Interval', ['start', 'end', 'ambiguous', 'mods'])):
        for meth in ('__eq__', '__hash__'):
            t = ret_tags(an, f'{dcm}:{cname}.{meth}')
            for fld in flds:
                ob(rep, 'FLD', f'{dcm}:{cname}.{meth}', f'{cname}.{meth} uses field {fld}', fld in t, 'used',
                   f'{cname}.{meth} ignores {fld}', program.func(f'{dcm}:{cname}.{meth}').loc(), clause)
    ms = program.func(f'{dcm}:Mod.serialize')
    from .common import ret_deps_by_node
    for node, av, kind in ret_deps_by_node(an, ms.fq):
        for need in ('@val', '@mult', 'brackets', 'include_plus'):
            ob(rep, 'RET', ms.fq, f'`{norm_stmt(node)[:60]}` depends on {need.lstrip("@")}', need in av.deps,
               'in the slice of this return',
               f'a return of Mod.serialize does not depend on {need.lstrip("@")}: on that path the written text '
               f'ignores it (e.g. the ^n multiplier is dropped)', ms.loc(node), clause)


def value_text(ctx, rep, clause):
    """Mod.serialize writes the value with str()/plain f-string formatting: no format spec, rounding or fixed
    notation that could lose digits of a numeric shift"""
    program = ctx.program
    f = program.func('peptacular.proforma.proforma_dataclasses:Mod.serialize')
    k = 0
    bad = []
    for n in ast.walk(f.node):
        if isinstance(n, ast.FormattedValue) and 'val' in norm_stmt(n.value):
            k += 1
            if n.format_spec is not None:
                bad.append(n)
        if isinstance(n, ast.Call) and norm_stmt(n.func) in ('round', 'format') and n.args and 'val' in norm_stmt(n.args[0]):
            bad.append(n)
        if isinstance(n, ast.BinOp) and isinstance(n.op, ast.Mod) and isinstance(n.left, ast.Constant) and \
                isinstance(n.left.value, str) and 'val' in norm_stmt(n.right):
            bad.append(n)
    ob(rep, 'TOK-value', f.fq, 'the modification value is written without a precision-limiting format', not bad and k > 0,
       'str() / plain f-string', f'`{norm_stmt(bad[0])[:60] if bad else ""}` formats the value with a format spec or '
       f'rounding: digits of a numeric shift are lost on serialisation and the text no longer parses back to the same '
       f'value', f.loc(bad[0]) if bad else f.loc(), clause)


def interval_state(ctx, rep, clause):
    """everything handed to Interval(...) by the parser is state of *that* interval: it lives in the record that is
    created anew at every `(`, or in a local that is bound anew at every `(` -- a local set once before the scanning
    loop carries the `?` flag (or the modifications) of one interval over to the next"""
    program = ctx.program
    f = reader_func(program, '_parse_sequence_middle')
    ctor = None
    for c_ in ast.walk(f.node):
        if isinstance(c_, ast.Call) and isinstance(c_.func, ast.Name) and c_.func.id == 'Interval':
            ctor = c_
    if ctor is None:
        raise AnalysisError('_parse_sequence_middle: Interval(...) construction not found')
    # the branch that opens an interval: where the start handed to Interval(...) is bound to a value -- a scratch record
    # created from a list display, or a plain local
    start_arg = None
    for role_, a_ in zip(('start', 'end', 'ambiguous', 'mods'), ctor.args):
        if role_ == 'start':
            start_arg = a_
    for kw in ctor.keywords:
        if kw.arg == 'start':
            start_arg = kw.value
    record = start_arg.value.id if isinstance(start_arg, ast.Subscript) and isinstance(start_arg.value, ast.Name) else None
    start_name = record or (start_arg.id if isinstance(start_arg, ast.Name) else None)
    open_body = None
    for x in ast.walk(f.node):
        if isinstance(x, ast.If) and start_name is not None:
            for blk in (x.body, x.orelse):
                if any(isinstance(st, ast.Assign) and norm_stmt(st.targets[0]) == start_name and
                       not (isinstance(st.value, ast.Constant) and st.value.value is None) for st in blk):
                    open_body = blk
    if open_body is None:
        raise AnalysisError('_parse_sequence_middle: the branch that opens an interval was not found')
    # the branch that closes it: the innermost if-body holding the Interval(...) call
    close_body = None
    for x in ast.walk(f.node):
        if isinstance(x, ast.If):
            for blk in (x.body, x.orelse):
                if any(ctor is y for st in blk for y in ast.walk(st)):
                    close_body = blk
    c = Canon(f.node)

    def binds(st, name) -> bool:
        return isinstance(st, ast.Assign) and any(
            isinstance(t, ast.Name) and t.id == name or (isinstance(t, ast.Tuple) and any(
                isinstance(e_, ast.Name) and e_.id == name for e_ in t.elts)) for t in st.targets)
    for kw in ctor.keywords:
        names = {y.id for y in ast.walk(kw.value) if isinstance(y, ast.Name) and c.is_local(y.id)} - {record}
        for name in sorted(names):
            fresh = any(binds(st, name) for st in open_body)
            if not fresh and close_body is not None:
                # bound unconditionally in the closing branch itself, before the interval is built
                for st in close_body:
                    if any(ctor is y for y in ast.walk(st)):
                        break
                    if binds(st, name):
                        fresh = True
            ob(rep, 'FLD', f.fq, f'Interval({kw.arg}=...) is state of the interval being closed', fresh,
               'bound anew when the interval opens',
               f'`{kw.arg}={norm_stmt(kw.value)}` reads the local `{name}`, which is not bound anew when an interval '
               f'opens: its value from an earlier interval is still there (`PE(?PT)ID(EK)R`: the second interval comes '
               f'out ambiguous too)', f.loc(ctor), clause)
        if not names:
            rep.ob('FLD', f'{f.fq} :: Interval({kw.arg}=...) comes from the per-interval record', f.loc(ctor), True,
                   norm_stmt(kw.value), True, clause)


def _reader_markers(program) -> Dict[str, str]:
    m = reader_table(program)['_markers']
    out = {}
    for key in ('open', 'ambiguous', 'close'):
        if key not in m:
            raise AnalysisError(f'parser: interval marker {key} not found')
        rc = _sel([m[key]['conds']], 'cur')
        if len(rc) != 1:
            raise AnalysisError(f'parser: interval marker {key} is tested against {sorted(rc)}')
        out[key] = next(iter(rc))
    return out


def _iv(name, start, end, ambiguous=False, mods=None) -> dict:
    return {'interval': name, 'interval.start': start, 'interval.end': end, 'interval.ambiguous': ambiguous,
            'interval.mods': mods, 'interval.has_mods()': bool(mods), '_name': name}


def _writer_hook(call, ge):
    """decided results of the calls a serializer part makes on its representatives"""
    from ..guards import UNK
    fn = call.func
    if isinstance(fn, ast.Attribute):
        if fn.attr == 'serialize':
            recv = ge.eval(fn.value)
            args = [ge.eval(a) for a in call.args] + [ge.eval(k.value) for k in call.keywords]
            if recv is UNK or any(a is UNK for a in args):
                return UNK
            return '<' + ':'.join(str(x) for x in [recv] + args) + '>'
        if fn.attr.startswith('has_') and not call.args:
            key = f'{norm_stmt(fn.value)}.{fn.attr[4:]}'
            if key in ge.env:
                return bool(ge.env[key])
            return UNK
        recv = ge.eval(fn.value)
        if isinstance(recv, dict):
            args = [ge.eval(a) for a in call.args]
            if any(a is UNK for a in args):
                return UNK
            if fn.attr == 'get' and 1 <= len(args) <= 2:
                return recv.get(*args)
            if fn.attr == 'items' and not args:
                return tuple(recv.items())
            if fn.attr == 'keys' and not args:
                return tuple(recv.keys())
            if fn.attr == 'values' and not args:
                return tuple(recv.values())
    return UNK


def _middle_text(seq, intervals, internal_mods, sequence='ABC') -> str:
    from ..emit import trace, Undecided
    iv = None if intervals is None else tuple(intervals)
    env = {'annotation.sequence': sequence, 'annotation._sequence': sequence, 'include_plus': 'IP',
           'annotation.intervals': iv, 'annotation._intervals': iv,
           'annotation.internal_mods': internal_mods, 'annotation._internal_mods': internal_mods}
    try:
        return ''.join(trace(seq, env, call_hook=_writer_hook))
    except Undecided as e:
        raise AnalysisError(f'_serialize_annotation_middle: the condition `{e}` is not decided by the representative '
                            f'annotations of the writer model')


def middle_reference(ctx, rep, clause, aspects=('markers', 'positions', 'order', 'absent')) -> int:
    """The text the middle part writes - read off its emission tree, nothing is run - for small representative
    annotations, against the text the parser reads the same structure from (markers taken from the parser's own cursor
    tests): Boundary b sits before residue b (after the last residue for b == n); at one boundary the intervals opened
    earlier are closed first (each `)` followed by its modifications), empty intervals are written whole, then the
    intervals that start there are opened - whatever order the interval list is in (reverse() leaves it descending);
    residue modifications follow their residue."""
    import itertools
    program = ctx.program
    key = ('C01.middle_model',)
    if key not in ctx.cache:
        ctx.cache[key] = writer_model(program, '_serialize_annotation_middle')
    g, seq = ctx.cache[key]
    mk = _reader_markers(program)
    o, q, c = mk['open'], mk['ambiguous'], mk['close']
    r = reader_table(program)
    ib = sorted(r['interval.mods']['brackets'])[0] if r.get('interval.mods') else '[]'
    rb = sorted(r['internal_mod']['brackets'])[0] if r.get('internal_mod') else '[]'

    def t(name, br):
        return f'<{name}:{br}:IP>'
    n = 0
    loc = g.loc()

    def case(rule, what, intervals, internal, expected, bad, clause_):
        nonlocal n
        got = _middle_text(seq, intervals, internal)
        n += 1
        ob(rep, rule, g.fq, what, got == expected, f'`{expected}`',
           f'{bad}: the middle part writes `{got}`, the parser reads this structure only from `{expected}`', loc, clause_)

    if 'markers' in aspects:
        case('TOK-delimiter', f'interval open/close: written as the parser tests them ({o!r} / {c!r})',
             [_iv('v', 1, 2)], None, f'A{o}B{c}C', 'an interval over the second of three residues', clause)
        case('TOK-delimiter', f'interval ambiguity marker: written as the parser tests it ({q!r})',
             [_iv('v', 1, 2, True)], None, f'A{o}{q}B{c}C', 'an ambiguous interval over the second of three residues',
             clause)
        case('TOK-delimiter', 'interval modifications follow the closing marker in the brackets the parser reads them from',
             [_iv('v', 0, 2, False, ('m1', 'm2'))], None, f'{o}AB{c}{t("m1", ib)}{t("m2", ib)}C',
             'an interval with two modifications', clause)
    if 'positions' in aspects:
        case('KIND', 'interval markers for bound i are written before residue i', [_iv('v', 1, 3)], None,
             f'A{o}BC{c}', 'an interval from Boundary 1 to Boundary n', clause)
        case('KIND', 'an interval ending at n is closed after the last residue',
             [_iv('v', 0, 3, False, ('m',))], None, f'{o}ABC{c}{t("m", ib)}', 'an interval over the whole sequence', clause)
        case('KIND', 'residue modifications of Position i are written after residue i', None,
             {0: ('a',), 2: ('b', 'c')}, f'A{t("a", rb)}BC{t("b", rb)}{t("c", rb)}',
             'modifications on the first and the last residue', clause)
        case('KIND', 'the modifications of the last residue of an interval are written before the interval is closed',
             [_iv('v', 0, 2, False, ('m',))], {0: ('r0',), 1: ('r1',), 2: ('r2',)},
             f'{o}A{t("r0", rb)}B{t("r1", rb)}{c}{t("m", ib)}C{t("r2", rb)}',
             'an interval whose residues carry modifications of their own', clause)
        case('KIND', 'an empty interval is written whole at its boundary', [_iv('e', 1, 1, True, ('m',)), _iv('z', 3, 3)],
             None, f'A{o}{q}{c}{t("m", ib)}BC{o}{c}', 'empty intervals at Boundary 1 and Boundary n', clause)
    if 'order' in aspects:
        # every set of up to three distinct, non-overlapping intervals over three residues (adjacent and empty ones
        # included), every residue modified, in every order of the list, against the reference text
        res = {0: ('r0',), 1: ('r1',), 2: ('r2',)}
        pool = []
        for s_ in range(4):
            for e_ in range(s_, 4):
                k = len(pool)
                pool.append(_iv(f'v{s_}{e_}', s_, e_, k % 2 == 1, (f'm{s_}{e_}',) if k % 3 != 2 else None))

        def overlap(x, y):
            (a1, b1), (a2, b2) = (x['interval.start'], x['interval.end']), (y['interval.start'], y['interval.end'])
            if a1 == b1 or a2 == b2:   # an empty interval overlaps only what strictly contains its boundary
                p_, (lo, hi) = (a1, (a2, b2)) if a1 == b1 else (a2, (a1, b1))
                return lo < p_ < hi
            return a1 < b2 and a2 < b1

        def reference(ivs):
            out = []
            for b_ in range(4):
                for kind in ('close', 'empty', 'open'):
                    for v in ivs:
                        s_, e_ = v['interval.start'], v['interval.end']
                        amb = q if v['interval.ambiguous'] else ''
                        mods = ''.join(t(m_, ib) for m_ in (v['interval.mods'] or ()))
                        if kind == 'close' and e_ == b_ and s_ < b_:
                            out.append(c + mods)
                        if kind == 'empty' and s_ == e_ == b_:
                            out.append(o + amb + c + mods)
                        if kind == 'open' and s_ == b_ and e_ > b_:
                            out.append(o + amb)
                if b_ < 3:
                    out.append('ABC'[b_] + ''.join(t(m_, rb) for m_ in res[b_]))
            return ''.join(out)
        bad, sets, traces = None, 0, 0
        for size in (1, 2, 3):
            for comb in itertools.combinations(pool, size):
                if any(overlap(x, y) for x, y in itertools.combinations(comb, 2)):
                    continue
                sets += 1
                expected = reference(comb)
                for perm in itertools.permutations(comb):
                    traces += 1
                    got = _middle_text(seq, list(perm), res)
                    if got != expected and bad is None:
                        bad = ([(x['interval.start'], x['interval.end']) for x in perm], got, expected)
        n += 1
        ob(rep, 'KIND', g.fq, 'at one boundary closing markers are written before opening markers for any order of the '
           'interval list', bad is None, f'{sets} interval sets over three residues, {traces} list orders: each is '
           f'written as the reference text', (f'with the intervals {bad[0]} of `ABC` (every residue modified), held in '
           f'this order, the middle part writes `{bad[1]}` instead of `{bad[2]}`: the parser does not read the same '
           f'structure back (adjacent intervals held in descending order, as reverse() leaves them, are the common '
           f'case)') if bad else '', loc, clause)
        rep.floor('KIND', 'interval list orders traced through the middle serializer', traces, 300)
    if 'absent' in aspects:
        for what, ivs_, im in (('no interval list and no residue modifications (None)', None, None),
                               ('an empty interval list and an empty modification dict', [], {})):
            case('KIND', f'{what}: only the residues are written', ivs_, im, 'ABC', what, clause)
    return n


def marker_order(ctx, rep, clause):
    middle_reference(ctx, rep, clause, ('order',))


def index_kinds(ctx, rep, clause):
    """interval bounds are Boundaries (0..n), residue modifications are Positions (0..n-1), on both sides"""
    program = ctx.program
    r = reader_table(program)['_markers']
    ob(rep, 'KIND', f'{PP}:_ProFormaParser._parse_sequence_middle', 'interval start is read as len(residues so far)',
       r.get('open', {}).get('start') == 'len(self._amino_acids)', 'Boundary = number of residues before it',
       f'start is read as {r.get("open", {}).get("start")}', r.get('open', {}).get('loc', ''), clause)
    ob(rep, 'KIND', f'{PP}:_ProFormaParser._parse_sequence_middle', 'interval end is read as len(residues so far)',
       r.get('close', {}).get('end') == 'len(self._amino_acids)', 'Boundary = number of residues before it',
       f'end is read as {r.get("close", {}).get("end")}', r.get('close', {}).get('loc', ''), clause)
    f = program.func(f'{PP}:_ProFormaParser._add_internal_mod')
    pos = None
    cf = Canon(f.node)
    for n in walk_own(f.node):
        # the key under which the modification is filed: self._internal_mods[<key>]
        if isinstance(n, ast.Subscript) and norm_stmt(n.value) == 'self._internal_mods':
            pos = norm_stmt(cf.resolve(n.slice))
        # ... or self._internal_mods.setdefault(<key>, [])
        if isinstance(n, ast.Call) and isinstance(n.func, ast.Attribute) and n.func.attr == 'setdefault' and n.args and \
                norm_stmt(n.func.value) == 'self._internal_mods':
            pos = norm_stmt(cf.resolve(n.args[0]))
    ob(rep, 'KIND', f.fq, 'a residue modification is attached at len(residues) - 1', pos == 'len(self._amino_acids) - 1',
       'Position of the residue just read', f'attached at {pos}', f.loc(), clause)
    # writer: markers before residue i, once more after the last residue, closings before openings, residue
    # modifications after their residue
    middle_reference(ctx, rep, clause, ('positions', 'order', 'absent'))


def check(ctx, rep):
    rep.explanation = EXPLANATION
    an, program = ctx.analyzer, ctx.program
    token_tables(ctx, rep, 'C01a')
    field_coverage(ctx, rep, 'C01b')
    callers = {f.fq for f in program.all_functions() if f.module.name in (PP, 'peptacular.sequence.sequence_funcs',
                                                                          'peptacular.mass_calc')}
    n = add_fwd(rep, forwarding(an, program, ['include_plus'], callers=callers), 'C01c')
    rep.floor('FWD', 'include_plus forwarding sites', n, 25)
    value_text(ctx, rep, 'C01a')
    from .common import value_preserving_rule
    value_preserving_rule(ctx, rep, 'C01a', ('peptacular.proforma.proforma_dataclasses', 'peptacular.proforma.proforma_parser', 'peptacular.proforma.input_convert'))
    index_kinds(ctx, rep, 'C01d')
    interval_state(ctx, rep, 'C01b')
