"""C14 -- isotopic distributions are normalised, centred on the right masses and complete (structural conditions)."""
import ast
from typing import List, Set

from ..loader import AnalysisError, norm_stmt, walk_own
from .common import calls_in, ret_deps_by_node
from .common import check as ob
from ..canon import Canon
from ..guards import dominating_tests

EXPLANATION = (
    'Decides: (a) the mass offset computed from the e / p / n entries of the formula is applied on every path that '
    'reports masses -- its uses may be control dependent only on the output-mode switches (use_neutron_count, '
    'output_masses_for_neutron_offset) or on the offset itself, not on whether the formula is fractional; it is '
    'built from all three particle counts with the matching constants and it reaches the returned value; '
    '(b) estimate_isotopic_distribution passes each of its ten options to the parameter of the same name of '
    'isotopic_distribution (a transposition of two positional floats is invisible to tests); (c) both convolution '
    'tables are selected by the same use_neutron_count test, and the scaling divides by the sum only under '
    'is_abundance_sum and multiplies by distribution_abundance on both branches; (d) the caller\'s formula dict is '
    'not edited (C08). Not decided: normalisation, sortedness, the mean identity, the multinomial comparison, '
    'binning (numeric properties of convolutions).')

ISO = 'peptacular.isotope'
FQ = f'{ISO}:isotopic_distribution'
MODE_FLAGS = {'use_neutron_count', 'output_masses_for_neutron_offset'}


def particle_offset(ctx, rep, clause):
    an, program = ctx.analyzer, ctx.program
    f = program.func(FQ)
    # the variable that combines the three particle counts with their masses
    offset_var = None
    offset_node = None
    count_vars = {}
    for n in walk_own(f.node):
        if isinstance(n, ast.Assign) and isinstance(n.targets[0], ast.Name) and isinstance(n.value, ast.Call) and \
                isinstance(n.value.func, ast.Attribute) and n.value.func.attr in ('pop', 'get') and n.value.args and \
                isinstance(n.value.args[0], ast.Constant) and n.value.args[0].value in ('e', 'p', 'n'):
            count_vars[n.value.args[0].value] = n.targets[0].id
    for n in walk_own(f.node):
        if isinstance(n, ast.Assign) and isinstance(n.targets[0], ast.Name):
            names = {x.id for x in ast.walk(n.value) if isinstance(x, ast.Name)}
            if count_vars and set(count_vars.values()) <= names:
                offset_var, offset_node = n.targets[0].id, n
    ob(rep, 'USE', FQ, 'the e, p and n entries of the formula are all read', set(count_vars) == {'e', 'p', 'n'},
       f'{count_vars}', f'only {sorted(count_vars)} are read: the other particles are ignored', f.loc(), clause)
    if offset_var is None:
        raise AnalysisError('isotopic_distribution: the particle mass offset (sum over e, p, n) was not found')
    # pairing of counts and constants in the offset expression
    pairs = {}
    for n in ast.walk(offset_node.value):
        if isinstance(n, ast.BinOp) and isinstance(n.op, ast.Mult):
            a, b = norm_stmt(n.left), norm_stmt(n.right)
            for x, y in ((a, b), (b, a)):
                if x in count_vars.values():
                    pairs[x] = y
    want = {'e': 'ELECTRON_MASS', 'p': 'PROTON_MASS', 'n': 'NEUTRON_MASS'}
    for k, const in want.items():
        got = pairs.get(count_vars.get(k, ''), '')
        ob(rep, 'USE', FQ, f"count of '{k}' is weighted with {const}", got.endswith(const), got,
           f"the '{k}' count is multiplied by `{got}`", f.loc(offset_node), clause)
    # every use of the offset: allowed control dependences
    cf = Canon(f.node)
    uses = []
    def visit(block, tests: List[ast.AST]):
        for st in block:
            if isinstance(st, ast.If):
                visit(st.body, tests + [st.test])
                visit(st.orelse, tests + [st.test])
                # uses inside the test itself are exempt (a `!= 0` shortcut)
            else:
                for x in ast.walk(st):
                    if isinstance(x, ast.Name) and x.id == offset_var and isinstance(x.ctx, ast.Load):
                        uses.append((st, list(tests)))
                for fld in ('body', 'orelse', 'finalbody'):
                    sub = getattr(st, fld, None)
                    if isinstance(sub, list) and sub and isinstance(sub[0], ast.stmt):
                        visit(sub, tests)
    visit(f.node.body, [])
    ob(rep, 'USE', FQ, 'the particle offset is used', len(uses) >= 1, f'{len(uses)} use(s)',
       'the offset is computed and never used: e/p/n entries do not move the masses', f.loc(offset_node), clause)
    for st, tests in uses:
        foreign = set()
        for t in tests:
            names = {x.id for x in ast.walk(t) if isinstance(x, ast.Name)}
            foreign |= names - MODE_FLAGS - {offset_var}
        under = ' / '.join(_anon(cf, t) for t in tests) or 'no test'
        ob(rep, 'USE', FQ, f'use of the particle offset under [{under}] depends only on the output-mode switches',
           not foreign,
           'applied whenever masses are reported',
           f'the offset is applied only under a test on {sorted(foreign)}: for formulas where that test is false '
           f'(e.g. integer counts) the lightest peak ignores the electrons/protons/neutrons listed in the formula',
           f.loc(st), clause)
    # and it reaches the result
    reach = any(offset_var_in_deps(an, FQ, count_vars))
    ob(rep, 'USE', FQ, 'the particle counts reach the returned distribution', reach, 'in the slice of the return',
       'the returned masses do not depend on the particle entries', f.loc(), clause)


def _anon(c: Canon, t) -> str:
    """test text with every local spelled `_` (parameters keep their names)"""
    import copy as _copy
    t2 = _copy.deepcopy(t)
    for x in ast.walk(t2):
        if isinstance(x, ast.Name) and c.is_local(x.id):
            x.id = '_'
    return norm_stmt(t2)


def offset_var_in_deps(an, fq, count_vars):
    for node, av, kind in ret_deps_by_node(an, fq):
        yield 'chemical_formula' in av.deps


def estimate_forwarding(ctx, rep, clause):
    an, program = ctx.analyzer, ctx.program
    f = program.func(f'{ISO}:estimate_isotopic_distribution')
    target = program.func(FQ)
    recs = [r for r in calls_in(an, f.fq) if r.callee is not None and r.callee.fq == FQ]
    if len(recs) != 1:
        raise AnalysisError('estimate_isotopic_distribution: delegating call not found')
    r = recs[0]
    n = 0
    for p in f.params:
        if p.name == 'neutral_mass':
            continue
        if target.param(p.name) is None:
            continue
        n += 1
        e = r.binding.get(p.name)
        ok = isinstance(e, ast.Name) and e.id == p.name
        ob(rep, 'FWD', f.fq, f'option {p.name} is passed to the parameter of the same name', ok, f'{p.name}={p.name}',
           f'isotopic_distribution({p.name}=...) receives `{norm_stmt(e) if e is not None else "nothing (default)"}`: '
           f'two options are transposed or one is dropped', f.loc(r.node), clause)
    rep.floor('FWD', 'options forwarded by estimate_isotopic_distribution', n, 10)
    e = r.binding.get('chemical_formula')
    src = None
    for x in walk_own(f.node):
        if isinstance(x, ast.Assign) and isinstance(e, ast.Name) and norm_stmt(x.targets[0]) == e.id:
            src = norm_stmt(x.value)
    ob(rep, 'FWD', f.fq, 'the formula is estimate_comp(neutral_mass)', src == 'estimate_comp(neutral_mass)', f'{src}',
       f'the estimated formula is `{src}`', f.loc(), clause)


def table_selection(ctx, rep, clause):
    program = ctx.program
    f = program.func(f'{ISO}:_calculate_elemental_distribution')
    # the tables read when the option is on / off, whatever form the selection takes (an if statement, a conditional
    # expression, a local that holds the chosen table): the function specialised for both values
    from ..guards import GuardEval, specialise, resolve
    reads = {}
    for val in (True, False):
        ge = GuardEval({'use_neutron_count': val})
        seen = set()
        for st in specialise(f.node.body, ge):
            for x in ast.walk(resolve(st, ge)):
                if isinstance(x, ast.Attribute) and x.attr.startswith('ATOMIC_SYMBOL_TO_ISOTOPE'):
                    seen.add(x.attr)
        reads[val] = seen
    both = reads[True] & reads[False]
    ob(rep, 'SIB-table', f.fq, 'every read of an isotope table is under the use_neutron_count selection', not both,
       'one selection point', f'`{sorted(both)[0] if both else ""}` is read whether use_neutron_count is set or not: '
       f'the neutron-offset view and the mass view would both use it', f.loc(), clause)
    ok = bool(reads[True]) and all('NEUTRON_OFFSETS' in t for t in reads[True]) and bool(reads[False]) and \
        all('ISOTOPE_MASSES' in t and 'NEUTRON_OFFSETS' not in t for t in reads[False])
    ob(rep, 'SIB-table', f.fq, 'neutron-offset table under use_neutron_count, mass table otherwise', ok,
       'one test selects between the two sibling tables',
       f'with use_neutron_count set the function reads {sorted(reads[True])}, without it {sorted(reads[False])}: the '
       f'isotope tables are selected by the wrong branch', f.loc(), clause)
    g = program.func(f'{ISO}:_scale_isotope_abundances')
    div = [n for n in walk_own(g.node) if isinstance(n, ast.If) and 'is_abundance_sum' in norm_stmt(n.test)]
    cg = Canon(g.node)
    ok = len(div) == 1 and 'each(isotopes).1 / sum(' in ' '.join(cg.text(s) for s in div[0].body).replace('(sum(', 'sum(') \
        and not div[0].orelse
    # the divisor is the sum over the very list that is normalised and returned
    tot_ok = False
    if div:
        body = div[0].body
        tot = [s_ for s_ in body if isinstance(s_, ast.Assign) and isinstance(s_.value, ast.Call) and
               norm_stmt(s_.value.func) == 'sum']
        norm = [s_ for s_ in body if isinstance(s_, ast.Assign) and isinstance(s_.value, ast.ListComp)]
        if tot and norm:
            src_tot = norm_stmt(tot[0].value.args[0].generators[0].iter) if isinstance(tot[0].value.args[0], ast.GeneratorExp) else '?'
            src_norm = norm_stmt(norm[0].value.generators[0].iter)
            tot_ok = src_tot == src_norm == norm_stmt(norm[0].targets[0]) and \
                norm_stmt(tot[0].targets[0]) in norm_stmt(norm[0].value.elt)
    ob(rep, 'SIB-table', g.fq, 'the divisor is the sum of the peaks that are returned', tot_ok,
       'sum over the list being normalised', 'the total used for sum-normalisation is not computed from the list that '
       'is normalised (e.g. taken before pruning): the returned abundances no longer add up to the requested total',
       g.loc(), clause)
    ob(rep, 'SIB-table', g.fq, 'division by the total only under is_abundance_sum', ok, 'sum-normalisation is optional',
       'the sum normalisation is applied on the wrong branch', g.loc(), clause)
    top = [cg.text(s) for s in g.node.body]
    ok = any('each(isotopes).1 * distribution_abundance' in t or 'distribution_abundance * each(isotopes).1' in t
             for t in top)
    ob(rep, 'SIB-table', g.fq, 'every abundance is multiplied by distribution_abundance on both branches', ok,
       'unconditional scaling', 'the requested abundance is not applied unconditionally', g.loc(), clause)


def fixed_isotope_rows(ctx, rep, clause):
    """element_setup.py: an explicitly labelled isotope (13C, D, ...) is one peak.  In the neutron-offset table it
    sits at offset 0 (offsets count from the lightest peak of the pattern, which is where the label already is),
    in the mass table at its own mass -- the two sibling tables must agree on that, otherwise the neutron-offset view
    is no longer the mass view binned by nominal mass"""
    program = ctx.program
    want = {'map_atomic_number_to_comp_neutron_offset': 'offset', 'map_atomic_number_to_comp': 'mass'}
    n = 0
    for fname, kind in want.items():
        f = program.func(f'peptacular.element_setup:{fname}')
        rows = []
        for x in walk_own(f.node):
            if isinstance(x, ast.Assign) and isinstance(x.targets[0], ast.Subscript) and \
                    isinstance(x.targets[0].slice, ast.Call) and norm_stmt(x.targets[0].slice.func) == 'str' and \
                    isinstance(x.value, ast.List):
                rows.append(x)
        if not rows:
            raise AnalysisError(f'{fname}: the row of an explicitly labelled isotope (d[str(info)] = [...]) was not found')
        for r in rows:
            n += 1
            v = r.value
            ok = len(v.elts) == 1 and isinstance(v.elts[0], ast.Tuple) and len(v.elts[0].elts) == 2
            if ok:
                a, b = v.elts[0].elts
                one = isinstance(b, ast.Constant) and b.value == 1
                if kind == 'offset':
                    ok = one and isinstance(a, ast.Constant) and a.value == 0 and not isinstance(a.value, bool)
                else:
                    ok = one and isinstance(a, ast.Attribute) and a.attr == 'relative_atomic_mass' and \
                        norm_stmt(a.value) == norm_stmt(r.targets[0].slice.args[0])
            ob(rep, 'SIB-table', f.fq, f'a labelled isotope is a single peak at ' +
               ('offset 0' if kind == 'offset' else 'its own mass') + ' with abundance 1', ok, norm_stmt(v),
               f'the row of a labelled isotope is `{norm_stmt(v)}`: ' +
               ('in the neutron-offset view a labelled formula would start at a non-zero offset (and the label would '
                'be counted twice when masses are reported for the offsets)' if kind == 'offset' else
                'the labelled isotope no longer weighs its own mass'), f.loc(r), clause)
    rep.floor('SIB-table', 'labelled-isotope rows in the two pattern tables', n, 2)


def average_from_isotopes(ctx, rep, clause):
    """the average atomic mass is the abundance-weighted mean of the very isotope rows the patterns are built from
    (sum of relative_atomic_mass x isotopic_composition): the mean of a pattern equals the average mass of the
    composition only if both come from the same rows -- not from the tabulated standard atomic weight"""
    program = ctx.program
    f = program.func('peptacular.element_setup:map_atomic_symbol_to_average_mass')
    c = Canon(f.node)
    cls = program.cls('peptacular.element_setup:ElementInfo')
    stores = [x for x in walk_own(f.node) if isinstance(x, ast.Assign) and isinstance(x.targets[0], ast.Subscript)]
    if not stores:
        raise AnalysisError('map_atomic_symbol_to_average_mass: the table store was not found')
    for st in stores:
        # everything the stored value can be computed from: all bindings of the locals it mentions, transitively
        exprs, seen, todo = [st.value], set(), [st.value]
        while todo:
            e = todo.pop()
            for y in ast.walk(e):
                if isinstance(y, ast.Name) and c.is_local(y.id) and y.id not in seen:
                    seen.add(y.id)
                    for kind, payload in c.bindings[y.id]:
                        val = payload if kind in ('assign', 'aug') else payload[0]
                        if isinstance(val, ast.AST):
                            exprs.append(val)
                            todo.append(val)
        reads = set()
        has_sum = False
        for v in exprs:
            for y in ast.walk(v):
                if isinstance(y, ast.Attribute):
                    reads.add(y.attr)
                    m = cls.methods.get(y.attr)
                    if m is not None:
                        reads |= {z.attr for z in ast.walk(m.node) if isinstance(z, ast.Attribute) and norm_stmt(z.value) == 'self'}
                if isinstance(y, ast.Call) and norm_stmt(y.func) == 'sum':
                    has_sum = True
        has_sum = has_sum or any(kind == 'aug' for n_ in seen for kind, _pl in c.bindings[n_])
        ok = has_sum and {'relative_atomic_mass', 'isotopic_composition'} <= reads and \
            not any('standard' in r or 'weight' in r for r in reads)
        ob(rep, 'SIB-table', f.fq, 'the average mass is the abundance-weighted sum over the isotope rows', ok,
           f'reads {sorted(r for r in reads if not r.startswith("atomic_"))}',
           f'the stored average mass reads {sorted(reads)}: it is not (only) the sum of relative_atomic_mass x '
           f'isotopic_composition over the isotope rows, so the abundance-weighted mean of an isotope pattern (built from '
           f'those rows) differs from the average mass of the composition (Se: 0.012 Da per atom)', f.loc(st), clause)


def merge_accumulation(ctx, rep, clause):
    """merge_isotopic_distributions: every pattern goes through the same round-then-accumulate loop into an
    initially empty dict (a pattern that seeds the dict skips the rounding and overwrites equal masses)"""
    program = ctx.program
    f = program.func(f'{ISO}:merge_isotopic_distributions')
    c = Canon(f.node)
    # the dict whose items are returned
    acc = None
    for x in walk_own(f.node):
        if isinstance(x, ast.Return) and x.value is not None:
            for y in ast.walk(x.value):
                if isinstance(y, ast.Call) and isinstance(y.func, ast.Attribute) and y.func.attr == 'items' and \
                        isinstance(y.func.value, ast.Name):
                    acc = y.func.value.id
    if acc is None:
        raise AnalysisError('merge_isotopic_distributions: the accumulated dict was not found')
    inits = [x for x in walk_own(f.node) if isinstance(x, ast.Assign) and norm_stmt(x.targets[0]) == acc]
    empty = len(inits) == 1 and ((isinstance(inits[0].value, ast.Dict) and not inits[0].value.keys) or
                                 norm_stmt(inits[0].value) in ('dict()', 'defaultdict(float)', 'collections.defaultdict(float)'))
    ob(rep, 'ACC', f.fq, 'the merged pattern starts empty', empty, norm_stmt(inits[0]) if inits else '',
       f'the accumulator is initialised with `{norm_stmt(inits[0].value) if inits else "?"}`: peaks put there bypass '
       f'the rounding to `precision` and equal masses overwrite each other instead of adding up', 
       f.loc(inits[0]) if inits else f.loc(), clause)
    loops = [x for x in walk_own(f.node) if isinstance(x, ast.For) and
             any(isinstance(y, (ast.Assign, ast.AugAssign)) and
                 norm_stmt((y.targets[0] if isinstance(y, ast.Assign) else y.target)).startswith(acc + '[')
                 for y in ast.walk(x))]
    outer = [x for x in loops if not any(x is not o and any(z is x for z in ast.walk(o)) for o in loops)]
    ok = len(outer) == 1 and norm_stmt(outer[0].iter) == 'distributions'
    ob(rep, 'ACC', f.fq, 'every pattern handed in is accumulated by the same loop', ok,
       'for <pattern> in distributions', f'the accumulating loop iterates `{norm_stmt(outer[0].iter) if outer else "?"}`'
       f' ({len(outer)} loop(s)): some pattern is treated differently from the others', f.loc(outer[0]) if outer else
       f.loc(), clause)
    stores = [y for x in loops for y in ast.walk(x) if isinstance(y, ast.Assign) and
              norm_stmt(y.targets[0]).startswith(acc + '[')]
    for st in stores:
        guarded = any(isinstance(t, ast.Compare) and isinstance(t.ops[0], (ast.In, ast.NotIn)) and
                      norm_stmt(t.comparators[0]) == acc for t, _p in
                      dominating_tests(f.node, st))
        ob(rep, 'ACC', f.fq, f'plain store `{c.text(st)[:60]}` only creates a missing key', guarded or
           (acc + '.get(') in norm_stmt(st.value), 'under `mass not in merged` / else of `mass in merged`',
           'a plain store overwrites the abundance already accumulated at that mass', f.loc(st), clause)


def check(ctx, rep):
    rep.explanation = EXPLANATION
    an, program = ctx.analyzer, ctx.program
    particle_offset(ctx, rep, 'C14a')
    estimate_forwarding(ctx, rep, 'C14b')
    table_selection(ctx, rep, 'C14c')
    fixed_isotope_rows(ctx, rep, 'C14c')
    average_from_isotopes(ctx, rep, 'C14c')
    merge_accumulation(ctx, rep, 'C14e')
    for fq in (FQ, f'{ISO}:estimate_isotopic_distribution', f'{ISO}:merge_isotopic_distributions'):
        s = an.summaries.get((fq, ()))
        ob(rep, 'EFF-mutates-argument', fq, 'arguments are not written', not s.mutates, 'works on a copy',
           f'writes parameter index(es) {sorted(s.mutates)}', program.func(fq).loc(), 'C14d')
