"""C08 -- queries never change their arguments or depend on call history (R-EFF at the public API)."""
from ..rules_eff import evaluate, Surface
from ..loader import AnalysisError

EXPLANATION = (
    'Decides the frame-condition part of C08 for every public function and every public method of the annotation/'
    'fragment classes that is not an explicit editor (add_*/pop_*/setters/clear_empty_mods/inplace=True): '
    '(a) no path writes an object owned by the caller (argument, self, or anything inside them), through any '
    'depth of calls; (b) the returned or yielded value is not, and does not contain, a caller-owned mutable object; '
    '(c) constructors and setters do not keep a reference to a mutable argument; (d) nothing outside the database '
    'loader API writes module-level state, nothing outside proforma/randomizer.py uses the process-wide RNG, no '
    'memoising decorator hands one mutable object to several callers. A frame condition over all code paths implies '
    'the one over all call histories. Not decided: behavioural equality of results across histories beyond what '
    'the absence of shared mutable state implies; effects through the call sites listed as unresolved.')


def check(ctx, rep, entry_filter=None, prop_rules=None):
    rep.explanation = EXPLANATION
    an = ctx.analyzer
    program = ctx.program
    res = evaluate(program, an)
    for o in res.obligations:
        rep.ob(o['rule'], o['construct'], o['loc'], o['ok'], o['reason'], True, 'C08')
    for key, d in sorted(res.findings.items()):
        rep.violation(d['rule'], d['module'], d['qualname'], d['construct'], d['message'], d['loc'],
                      {'exposed_by': d['entries'][:12], 'n_entries': len(d['entries'])}, d['clause'],
                      count_obligation=False)
    resolved = sum(s.resolved for (fq, spec), s in an.summaries.items() if spec == ())
    unresolved_sites = sorted({u for (fq, spec), s in an.summaries.items() if spec == () for u in s.unresolved_sites})
    rep.coverage_extra.update({
        'units_parsed': len(program.modules),
        'functions_analysed': len(program.all_functions()),
        'summaries_computed': len(an.summaries),
        'fixed_point_passes': an.passes,
        'entry_points_checked': res.entries_checked,
        'call_sites_resolved': resolved,
        'call_sites_unresolved': len(unresolved_sites),
        'unresolved_call_sites': unresolved_sites,
        'unknown_type_aliases_not_judged': sorted(set(res.unknown_alias_notes)),
    })
    rep.floor('R-EFF', 'public entry points analysed', res.entries_checked, 150)
    rep.floor('R-EFF', 'resolved call sites', resolved, 2000)
    total = resolved + len(unresolved_sites)
    if total and len(unresolved_sites) / total > 0.04:
        rep.error(f'call resolution rate dropped: {len(unresolved_sites)} of {total} call sites unresolved (>4%)')
    # positive control: the analysis must still see the stores made by the explicit editors
    ctl = an.summaries.get(('peptacular.proforma.proforma_parser:ProFormaAnnotation.pop_labile_mods', ()))
    if ctl is None or 0 not in ctl.mutates:
        rep.error('positive control failed: ProFormaAnnotation.pop_labile_mods is not seen to write self')
    else:
        rep.ob('EFF-positive-control', 'ProFormaAnnotation.pop_labile_mods writes self', '', True,
               'the editor used as control is detected as mutating its receiver', False, 'C08')
    from .common import repeat_alias_rule
    repeat_alias_rule(ctx, rep, 'C08b', set(program.modules))
