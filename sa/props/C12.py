"""C12 -- global modification rules equal the explicit per-residue form (structural necessary conditions)."""
import ast
import re

from ..loader import AnalysisError, norm_stmt, walk_own
from ..rules_flow import forwarding, param_reaches_returns
from .common import add_fwd, add_ret, ret_deps_by_node
from .common import check as ob
from ..canon import Canon, localise, each
from ..guards import GuardEval, UNK, dominating_tests, preceding_exits

EXPLANATION = (
    'Decides: (a) the three interpreters of a static rule (mass fast path, composition path, condensation) use the '
    'same two special targets N-Term / C-Term, skip them in the residue loop, take the residue multiplicity from '
    'the sequence, and all consume parse_static_mods of the static_mods field; (b) in the composition path the '
    'isotope substitution is applied to the residue/terminus composition on both branches and to the modification '
    'composition only under use_isotope_on_mods, and the flag is forwarded mass -> comp_mass -> _sequence_comp; '
    '(c) the writer/parser pairs of static rules and isotope labels agree on the separators @ and , and on the '
    'D/T -> H aliasing; (d) mass() routes to the composition path exactly when isotope labels are present, and '
    'that route honours every parameter. Not decided: equality of masses/compositions/fragments between the two '
    'forms for every rule (value-level); whether per-residue pieces carry terminal static rules.')

PP = 'peptacular.proforma.proforma_parser'
INTERPRETERS = ['peptacular.mass_calc:mass', 'peptacular.chem.chem_calc:_sequence_comp',
                f'{PP}:ProFormaAnnotation.condense_static_mods']


def static_interpreters(ctx, rep, clause):
    program = ctx.program
    for fq in INTERPRETERS:
        f = program.func(fq)
        gets = set()
        skip = None
        source = None
        mult = False
        map_var = None
        for n in walk_own(f.node):
            if isinstance(n, ast.Assign) and isinstance(n.value, ast.Call) and \
                    norm_stmt(n.value.func) == 'parse_static_mods' and isinstance(n.targets[0], ast.Name):
                map_var = n.targets[0].id
        if map_var is None:
            raise AnalysisError(f'{fq}: no `x = parse_static_mods(...)` found')
        from .C02 import _Provenance
        prov = _Provenance(program, f)
        cst = Canon(f.node)

        def const_set(e):
            e = cst.resolve(e)
            if isinstance(e, (ast.List, ast.Tuple, ast.Set)) and all(isinstance(x, ast.Constant) for x in e.elts):
                return {x.value for x in e.elts}
            if isinstance(e, ast.Dict) and all(isinstance(x, ast.Constant) for x in e.keys):
                return {x.value for x in e.keys}
            return None
        for n in walk_own(f.node):
            # the special targets fetched from the rule map: .get('N-Term') / .get(key) with key over a literal tuple
            if isinstance(n, ast.Call) and isinstance(n.func, ast.Attribute) and n.func.attr == 'get' and n.args and \
                    norm_stmt(n.func.value) == map_var:
                gets |= {k for k in prov.keys_of(n.args[0]) if isinstance(k, str)}
            # the residue loop leaves the special targets out: `if aa in [...]: continue` or `if aa not in (...): <body>`
            if isinstance(n, ast.If) and isinstance(n.test, ast.Compare) and len(n.test.ops) == 1 and \
                    isinstance(n.test.ops[0], (ast.In, ast.NotIn)):
                cs = const_set(n.test.comparators[0])
                key_vars = {lp.target.elts[0].id for lp in ast.walk(f.node) if isinstance(lp, ast.For) and
                            norm_stmt(lp.iter) == f'{map_var}.items()' and isinstance(lp.target, ast.Tuple) and
                            isinstance(lp.target.elts[0], ast.Name)}
                if cs is not None and isinstance(n.test.left, ast.Name) and n.test.left.id in key_vars:
                    skipping = (isinstance(n.test.ops[0], ast.In) and any(isinstance(s_, ast.Continue) for s_ in n.body)) \
                        or (isinstance(n.test.ops[0], ast.NotIn) and not any(isinstance(s_, ast.Continue) for s_ in n.body))
                    if skipping:
                        skip = cs
            # ... or a comprehension over the rule map that filters them out
            if isinstance(n, ast.comprehension) and norm_stmt(n.iter) == f'{map_var}.items()' and \
                    isinstance(n.target, ast.Tuple) and isinstance(n.target.elts[0], ast.Name):
                for t in n.ifs:
                    if isinstance(t, ast.Compare) and len(t.ops) == 1 and isinstance(t.ops[0], ast.NotIn) and \
                            isinstance(t.left, ast.Name) and t.left.id == n.target.elts[0].id:
                        cs = const_set(t.comparators[0])
                        if cs is not None:
                            skip = cs
            if isinstance(n, ast.Call) and isinstance(n.func, ast.Name) and n.func.id == 'parse_static_mods' and n.args:
                source = Canon(f.node).text(n.args[0])
            if isinstance(n, ast.Call) and isinstance(n.func, ast.Attribute) and n.func.attr == 'count' and \
                    norm_stmt(n.func.value).endswith('.sequence'):
                mult = True
            if isinstance(n, ast.Call) and norm_stmt(n.func) == 're.finditer' and len(n.args) == 2 and \
                    norm_stmt(n.args[1]).endswith('.sequence'):
                mult = True
        if not gets and not skip:
            # neither a read of a special target nor a skip of them was recognised: the rule map is handled in a form
            # this rule does not read (a verdict needs at least one of the two facts)
            raise AnalysisError(f'{fq}: the handling of the special targets of the static-rule map was not recognised '
                                f'(form not read)')
        ob(rep, 'SIB-static', fq, 'special targets are N-Term and C-Term', gets == {'N-Term', 'C-Term'},
           "static_map.get('N-Term') / .get('C-Term')", f'special targets read: {sorted(gets)}: a terminal rule is '
           f'interpreted by one calculator and ignored (or treated as a residue) by another', f.loc(), clause)
        ob(rep, 'SIB-static', fq, 'the residue loop skips exactly the two special targets',
           skip == {'N-Term', 'C-Term'}, "if aa in ['N-Term', 'C-Term']: continue", f'skips {sorted(skip or [])}',
           f.loc(), clause)
        # the field itself, or (condense_static_mods) the value popped from the field
        ok_src = source is not None and (source.endswith('.static_mods') or source.endswith('.pop_static_mods()'))
        ob(rep, 'SIB-static', fq, 'the rule map is parse_static_mods(<static_mods field>)', ok_src, f'{source}',
           f'parses `{source}`', f.loc(), clause)
        ob(rep, 'SIB-static', fq, 'every occurrence of a targeted residue is counted', mult,
           'sequence.count(aa) / every match of aa in the sequence', 'the residue multiplicity is not taken from the '
           'sequence', f.loc(), clause)


def condense_unfiltered(ctx, rep, clause):
    """condense_static_mods writes the rule's modification list itself onto every matched residue (and terminus): the
    explicit form carries the rule once per target whatever the residue already carries"""
    program = ctx.program
    f = program.func(f'{PP}:ProFormaAnnotation.condense_static_mods')
    c = Canon(f.node)
    rule_tok = None
    for name in c.order:
        for kind, payload in c.bindings[name]:
            if kind == 'each' and tuple(payload[1]) == (1,) and c.text(payload[0]).endswith('.items()'):
                rule_tok = name
    if rule_tok is None:
        raise AnalysisError('condense_static_mods: the loop over the rule map was not found')
    k = 0
    for x in walk_own(f.node):
        if isinstance(x, ast.Call) and isinstance(x.func, ast.Attribute) and x.func.attr in ('add_internal_mods', 'add_internal_mod'):
            k += 1
            arg = x.args[0] if x.args else None
            vals = list(arg.values) if isinstance(arg, ast.Dict) else ([x.args[1]] if len(x.args) > 1 else [])
            ok = bool(vals) and all(isinstance(v, ast.Name) and v.id == rule_tok for v in vals)
            ob(rep, 'SIB-static', f.fq, 'the rule list is written unfiltered onto each matched residue', ok,
               'the value added is the rule\'s own modification list',
               f'`{norm_stmt(x)[:80]}` adds something other than the rule\'s modification list (a filtered or rebuilt '
               f'list): a target that already carries the same modification gets it once where the rule form and the '
               f'mass fast path count it twice', f.loc(x), clause)
    rep.floor('SIB-static', 'residue writes in condense_static_mods', k, 1)


def _additions(program, f):
    """(accumulator name, source expression, node) for every "add the counts of <source> to <accumulator>" in f:
    `for k, v in SRC.items(): ACC[k] = ACC.get(k, 0) + ...`, or a call of a private helper that does exactly that with
    its first two parameters"""
    out = []

    def loop_add(fn_node):
        res = []
        from ..canon import Canon as _Canon
        cz = _Canon(fn_node)
        for n in ast.walk(fn_node):
            it = n.iter if isinstance(n, ast.For) else None
            if isinstance(it, ast.Name) and cz.single_value(it.id) is not None:
                it = cz.single_value(it.id)        # terms = SRC.items() ... for k, v in terms:
            if isinstance(n, ast.For) and isinstance(it, ast.Call) and isinstance(it.func, ast.Attribute) and \
                    it.func.attr == 'items':
                for st in ast.walk(n):
                    tgt = None
                    if isinstance(st, ast.Assign) and isinstance(st.targets[0], ast.Subscript):
                        tgt = st.targets[0]
                    elif isinstance(st, ast.AugAssign) and isinstance(st.target, ast.Subscript):
                        tgt = st.target
                    if tgt is not None and isinstance(tgt.value, ast.Name):
                        res.append((tgt.value.id, it.func.value, st))
        return res
    out += loop_add(f.node)
    for n in ast.walk(f.node):
        if isinstance(n, ast.Call) and isinstance(n.func, ast.Name) and n.func.id.startswith('_') and len(n.args) >= 2 and \
                isinstance(n.args[0], ast.Name):
            g = program.find_func(f'{f.module.name}:{n.func.id}')
            if g is None or g.fq == f.fq or len(g.params) < 2:
                continue
            inner = loop_add(g.node)
            if any(acc == g.params[0].name and isinstance(src, ast.Name) and src.id == g.params[1].name
                   for acc, src, _st in inner):
                out.append((n.args[0].id, n.args[1], n))
    return out


def isotope_control(ctx, rep, clause):
    from ..guards import specialise
    an, program = ctx.analyzer, ctx.program
    f = program.func('peptacular.chem.chem_calc:_sequence_comp')
    c = Canon(f.node)
    # which accumulators are relabelled, per value of the switch (branches pruned under that value)
    labelled = {}
    call_nodes = {}
    for flag in (True, False):
        got = set()
        for st in specialise(f.node.body, GuardEval({'use_isotope_on_mods': flag}, c.aliases())):
            for x in ast.walk(st):
                if isinstance(x, ast.Call) and norm_stmt(x.func) == 'apply_isotope_mods_to_composition' and x.args and \
                        isinstance(x.args[0], ast.Name):
                    ok_lab = len(x.args) > 1 and norm_stmt(c.resolve(x.args[1])).endswith('.isotope_mods')
                    if ok_lab:
                        got.add(x.args[0].id)
                        call_nodes[x.args[0].id] = x
        labelled[flag] = got
    if not labelled[True]:
        raise AnalysisError('_sequence_comp: no relabelling of an accumulator with the annotation\'s isotope labels found')
    adds = _additions(program, f)
    residue_acc = {acc for acc, src, _n in adds if any(isinstance(y, ast.Name) and y.id == 'AA_COMPOSITIONS'
                                                         for y in ast.walk(c.resolve(src)))}
    if len(residue_acc) != 1:
        raise AnalysisError('_sequence_comp: the accumulator of the residue compositions was not recognised')
    a, b = labelled[True], labelled[False]
    blk = next(iter(call_nodes.values()))
    ob(rep, 'SIB-isotope', f.fq, 'with use_isotope_on_mods both the sequence and the modification composition are '
       'labelled', len(a) == 2 and residue_acc <= a, f'{len(a)} accumulators', f'labelled: {sorted(a)}',
       f.loc(blk), clause)
    ob(rep, 'SIB-isotope', f.fq, 'without it only the sequence composition is labelled',
       b == residue_acc, f'{len(b)} accumulator', f'labelled: {sorted(b)}: a label would reach atoms inside '
       f'modifications although not requested (or miss the residues)', f.loc(blk), clause)
    # every contribution that comes from mod_comp(...) is accumulated in the modification composition, i.e. in the
    # accumulator that is labelled only under use_isotope_on_mods -- never in the one that is always labelled
    mod_acc = sorted(a - b)
    k = 0
    for acc, src, node in adds:
        if any(isinstance(y, ast.Call) and norm_stmt(y.func) == 'mod_comp' for y in ast.walk(c.resolve(src))):
            k += 1
            ob(rep, 'SIB-isotope', f.fq, f'atoms of a modification (`{norm_stmt(src)[:50]}`) go to the modification '
               f'accumulator', [acc] == mod_acc, 'the accumulator labelled only on request',
               f'atoms of a modification are added to an accumulator that is isotope-labelled unconditionally: a '
               f'global label reaches atoms inside that modification although use_isotope_on_mods is off',
               f.loc(node), clause)
    rep.floor('SIB-isotope', 'modification-composition accumulations in _sequence_comp', k, 6)
    # the atoms of the ion-type adjustment (terminal groups, dissociation site) and of the charge carriers belong to the
    # peptide: they are added to the accumulator that is always labelled, and before it is labelled
    racc = next(iter(residue_acc))
    relabel = call_nodes.get(racc)
    j = 0
    for acc, src, node in adds:
        rs = c.resolve(src)
        what = None
        if any(isinstance(y, ast.Name) and y.id == 'NEUTRAL_FRAGMENT_COMPOSITION_ADJUSTMENTS' for y in ast.walk(rs)):
            what = 'the ion-type adjustment'
        if any(isinstance(y, ast.Call) and norm_stmt(y.func) == '_parse_charge_adducts_comp' for y in ast.walk(rs)):
            what = 'the charge carriers'
        if what is None:
            continue
        j += 1
        ok = acc == racc and (relabel is None or node.order < relabel.order)
        ob(rep, 'SIB-isotope', f.fq, f'{what} are part of the labelled peptide composition', ok,
           f'added to {racc} before the substitution',
           f'the atoms of {what} are added to `{acc}`' + ('' if acc != racc else ' after the isotope substitution') +
           f': a global label no longer reaches them (<18O>PEPTIDE keeps one plain O of the terminal water), while '
           f'mass() of the same labelled peptide does label them', f.loc(node), clause)
    rep.floor('SIB-isotope', 'peptide-level additions (ion-type adjustment, charge carriers) in _sequence_comp', j, 2)
    # the relabelling happens only when the annotation carries isotope labels
    from ..guards import dominating_tests
    encl = [norm_stmt(c.resolve(t)) for t, _p in dominating_tests(f.node, blk)]
    ob(rep, 'SIB-isotope', f.fq, 'the substitution happens only when the annotation carries isotope labels',
       any(t.endswith('.has_isotope_mods()') or '.isotope_mods is not None' in t for t in encl), f'{encl}',
       f'guarded by `{encl}`', f.loc(blk), clause)
    n = add_fwd(rep, forwarding(an, program, ['use_isotope_on_mods', 'isotope_mods'],
                                callers={'peptacular.mass_calc:mass', 'peptacular.mass_calc:comp_mass',
                                         'peptacular.mass_calc:comp'}), clause)
    rep.floor('FWD', 'use_isotope_on_mods / isotope_mods forwarding sites', n, 5)
    # the substitution itself moves the whole count of the element to the label
    g = localise(program.func('peptacular.chem.chem_calc:apply_isotope_mods_to_composition'),
                 {'element': each(lambda t: t.endswith('.items()'), (0,)),
                  'isotope_label': each(lambda t: t.endswith('.items()'), (1,))})
    relabel_guard(g, rep, clause)
    # the count moves *onto* whatever the label key already holds: a plain store into composition[isotope_label] must be
    # unreachable when the label key is present (decided over {label present, label absent})
    stores = [x for x in ast.walk(g.node) if isinstance(x, (ast.Assign, ast.AugAssign)) and
              norm_stmt(x.targets[0] if isinstance(x, ast.Assign) else x.target) == 'composition[isotope_label]']
    moved = bool(stores)
    overwrite = None
    cg_ = Canon(g.node)
    for st in stores:
        if isinstance(st, ast.AugAssign):
            continue
        reads_old = any(norm_stmt(y) in ('composition[isotope_label]', 'composition.get(isotope_label, 0)',
                                         'composition.get(isotope_label)') for y in ast.walk(st.value))
        if reads_old:
            continue
        ge = GuardEval({'isotope_label in composition': True, 'isotope_label not in composition': False}, cg_.aliases())
        reachable = True
        for t, pol in dominating_tests(g.node, st):
            v = ge.eval(t)
            if v is not UNK and bool(v) != pol:
                reachable = False
        if reachable:
            overwrite = st
    ob(rep, 'SIB-isotope', g.fq, 'the whole count of the element moves to the isotope key', moved and overwrite is None,
       'added to an existing label count, created otherwise',
       (f'`{norm_stmt(overwrite)[:80]}` can run when the label key is already present and replaces its count: a '
        f'modification that holds both the plain element and the labelled isotope (Formula:[13C2]C3H4) loses the atoms '
        f'it had under the label' if overwrite is not None else 'the substitution no longer moves the complete count'),
       g.loc(overwrite) if overwrite is not None else g.loc(), clause)


def relabel_guard(g, rep, clause):
    """the move element -> label runs for every element the composition lists with a non-zero count (modifications
    that remove atoms give negative counts): decided over the finite set of cases {absent, negative, positive}"""
    dels = [n for n in ast.walk(g.node) if isinstance(n, ast.Delete) and norm_stmt(n.targets[0]) == 'composition[element]']
    dels += [n for n in ast.walk(g.node) if isinstance(n, ast.Call) and norm_stmt(n.func) == 'composition.pop' and n.args
             and norm_stmt(n.args[0]) == 'element']
    if len(dels) != 1:
        raise AnalysisError('apply_isotope_mods_to_composition: the removal of the element key (del / pop) was not found')
    loop = None
    for n in walk_own(g.node):
        if isinstance(n, ast.For) and any(x is dels[0] for x in ast.walk(n)):
            loop = n
    if loop is None:
        raise AnalysisError('apply_isotope_mods_to_composition: the loop over the label map was not found')
    c = Canon(g.node)
    tests = list(dominating_tests(loop, dels[0])) + [(t, False) for t in preceding_exits(loop.body, dels[0])]
    bad = None
    for count in (-3, -1, -0.5, 0.5, 1, 4):
        env = {'element in composition': True, 'element not in composition': False,
               'composition.get(element, 0)': count, 'composition.get(element)': count,
               'composition.get(element, 0.0)': count, 'composition[element]': count,
               'element == isotope_label': False, 'element != isotope_label': True,
               'isotope_label == element': False, 'isotope_label != element': True}
        ge = GuardEval(env, c.aliases())
        for t, pol in tests:
            v = ge.eval(t)
            if v is not UNK and bool(v) != pol and bad is None:
                bad = (count, norm_stmt(t))
    ob(rep, 'SIB-isotope', g.fq, 'every listed element with a non-zero count is relabelled (negative counts included)',
       bad is None, 'guards decided for counts in {-3, -1, -0.5, 0.5, 1, 4}',
       f'for a count of {bad[0] if bad else ""} the guard `{bad[1] if bad else ""}` skips the relabelling: atoms removed by a '
       f'modification (negative net count) keep the unlabelled key and the labelled peptide no longer differs from '
       f'the unlabelled one by (number of atoms) x (isotope mass difference)', g.loc(dels[0]), clause)


def _split_consts(f):
    return {n.args[0].value for n in ast.walk(f.node) if isinstance(n, ast.Call) and isinstance(n.func, ast.Attribute)
            and n.func.attr == 'split' and n.args and isinstance(n.args[0], ast.Constant)}


def _writer_separators(f):
    out = set()
    for n in ast.walk(f.node):
        if isinstance(n, ast.JoinedStr):
            for v in n.values:
                if isinstance(v, ast.Constant) and isinstance(v.value, str) and v.value:
                    out.add(v.value)
        if isinstance(n, ast.Call) and isinstance(n.func, ast.Attribute) and n.func.attr == 'join' and \
                isinstance(n.func.value, ast.Constant) and n.func.value.value:
            out.add(n.func.value.value)
    return out


def token_pairs(ctx, rep, clause):
    program = ctx.program
    ps = program.func(f'{PP}:parse_static_mods')
    ws = program.func(f'{PP}:write_static_mods')
    rs, wsep = _split_consts(ps), _writer_separators(ws)
    ob(rep, 'TOK-static', ps.fq, f"separators: parser splits on {sorted(rs)}, writer joins with {sorted(wsep)}",
       rs == wsep == {'@', ','}, "'@' between rule and targets, ',' between targets, on both sides",
       f'the parser of static rules splits on {sorted(rs)} but the writer emits {sorted(wsep)}', ps.loc(), clause)
    wb = {n.args[0].value for n in ast.walk(ws.node) if isinstance(n, ast.Call) and isinstance(n.func, ast.Attribute)
          and n.func.attr == 'serialize' and n.args and isinstance(n.args[0], ast.Constant)}
    pb = {n.args[1].value + n.args[2].value for n in ast.walk(ps.node) if isinstance(n, ast.Call) and
          norm_stmt(n.func) == '_parse_modifications' and len(n.args) == 3 and
          all(isinstance(a, ast.Constant) for a in n.args[1:])}
    ob(rep, 'TOK-static', ws.fq, f'brackets: writer {sorted(wb)}, parser {sorted(pb)}', wb == pb == {'[]'},
       '[] on both sides', f'write_static_mods brackets with {sorted(wb)}, parse_static_mods reads {sorted(pb)}',
       ws.loc(), clause)
    pi = program.func(f'{PP}:parse_isotope_mods')
    aliased = set()
    for n in ast.walk(pi.node):
        if isinstance(n, ast.Assign) and isinstance(n.targets[0], ast.Subscript) and \
                isinstance(n.targets[0].slice, ast.Constant) and n.targets[0].slice.value == 'H' and \
                isinstance(n.value, ast.Call) and isinstance(n.value.func, ast.Attribute) and \
                n.value.func.attr == 'pop' and n.value.args and isinstance(n.value.args[0], ast.Constant):
            aliased.add(n.value.args[0].value)
    ob(rep, 'TOK-isotope', pi.fq, 'D and T are filed as labels of H', aliased == {'D', 'T'}, 'D/T -> H',
       f'only {sorted(aliased)} is mapped to hydrogen: <D> or <T> would leave the peptide unchanged', pi.loc(), clause)
    ok = False
    for n in ast.walk(pi.node):
        if isinstance(n, ast.Call) and norm_stmt(n.func) in ('re.sub', 'regex.sub') and len(n.args) == 3 and \
                norm_stmt(n.args[0]) == 'ISOTOPE_NUM_PATTERN' and isinstance(n.args[1], ast.Constant) and \
                n.args[1].value == '':
            ok = True
    ob(rep, 'TOK-isotope', pi.fq, 'the element of a label is the label without its mass number', ok,
       '13C -> C', 'the labelled element is no longer derived by removing the digits', pi.loc(), clause)


def routing(ctx, rep, clause):
    an, program = ctx.analyzer, ctx.program
    fq = 'peptacular.mass_calc:mass'
    f = program.func(fq)
    route = None
    for n in walk_own(f.node):
        if isinstance(n, ast.If) and 'comp_mass(' in ' '.join(norm_stmt(s) for s in n.body):
            route = n
    if route is None:
        raise AnalysisError('mass(): the route to the composition path was not found')
    t = norm_stmt(route.test)
    ob(rep, 'SIB-route', fq, 'the composition path is taken exactly when isotope labels are present',
       t == 'isotope_mods is not None and len(isotope_mods) > 0', t, f'route condition is `{t}`', f.loc(route), clause)
    cm = Canon(f.node)
    pre = [n for n in walk_own(f.node) if isinstance(n, ast.If) and
           re.fullmatch(r'.+\.isotope_mods is not None and isotope_mods is None', cm.text(n.test))]
    ob(rep, 'SIB-route', fq, 'labels written in the sequence are used when none are passed', len(pre) == 1,
       'isotope_mods = annotation.isotope_mods', 'labels of the annotation are no longer picked up', f.loc(), clause)
    ps = ['charge', 'ion_type', 'monoisotopic', 'isotope', 'loss', 'charge_adducts', 'isotope_mods',
          'use_isotope_on_mods', 'precision']
    obs = [o for o in param_reaches_returns(an, program, fq, ps)
           if not (o.param == 'use_isotope_on_mods' and 'adjust_mass(' in o.text)]
    add_ret(rep, obs, clause)


def check(ctx, rep):
    rep.explanation = EXPLANATION
    static_interpreters(ctx, rep, 'C12a')
    condense_unfiltered(ctx, rep, 'C12a')
    isotope_control(ctx, rep, 'C12b')
    token_pairs(ctx, rep, 'C12c')
    routing(ctx, rep, 'C12d')
    from .common import self_accumulation_rule
    self_accumulation_rule(ctx, rep, 'C12b', ('peptacular.chem.chem_calc',))
    from .common import repeat_alias_rule
    repeat_alias_rule(ctx, rep, 'C12a', ('peptacular.proforma.proforma_parser', 'peptacular.mass_calc', 'peptacular.chem.chem_calc'))
