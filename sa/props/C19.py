"""C19 -- combinatorial expansions are exactly the combinatorics of the modified residues (structural conditions)."""
import ast
import re as _re

from ..loader import AnalysisError, norm_stmt, walk_own
from .common import calls_in, alpha_body
from .common import check as ob

EXPLANATION = (
    'Decides: (a) each of the four methods calls the itertools function of its own name on (components, size) / '
    '(components, repeat=repeat), None defaults to len(self), and each module-level function calls the method of '
    'its own name with its size argument; (b) the four prologues are identical: the start and end text are '
    'serialized from the unmodified object before anything is popped, the residue pieces come from split() of an '
    'object that kept only its residue modifications, and the result is parse(start + join(pieces) + end) -- needed '
    'for "wrapped in the peptide\'s unchanged global, labile and terminal annotations"; (c) the key under which '
    'pop_mods files the residue modifications is the key the prologue reads back; (d) self is not edited (C08). '
    'Not decided: the counts n!/(n-k)!, C(n,k), ..., ordering, that every result parses (itertools semantics over '
    'runtime lists).')

PP = 'peptacular.proforma.proforma_parser'
PFA = f'{PP}:ProFormaAnnotation'
CB = 'peptacular.sequence.combinatoric'
NAMES = {'permutations': 'size', 'product': 'repeat', 'combinations': 'size', 'combinations_with_replacement': 'size'}


def check(ctx, rep):
    rep.explanation = EXPLANATION
    an, program = ctx.analyzer, ctx.program
    cls = program.cls(PFA)
    prologues = {}
    for name, argname in NAMES.items():
        m = cls.methods.get(name)
        if m is None:
            raise AnalysisError(f'anchor method missing: ProFormaAnnotation.{name}')
        # (a) the itertools call
        calls = [n for n in walk_own(m.node) if isinstance(n, ast.Call) and isinstance(n.func, ast.Attribute) and
                 isinstance(n.func.value, ast.Name) and n.func.value.id == 'itertools']
        ok = len(calls) == 1 and calls[0].func.attr == name
        ob(rep, 'CALL-itertools', m.fq, f'{name} enumerates with itertools.{name}', ok, f'itertools.{name}',
           f'calls itertools.{calls[0].func.attr if calls else "?"}: the method returns a different enumeration than '
           f'its name promises', m.loc(calls[0]) if calls else m.loc(), 'C19a')
        if calls:
            c = calls[0]
            comp_var = None
            for n in walk_own(m.node):
                if isinstance(n, ast.Assign) and isinstance(n.targets[0], ast.Name) and \
                        isinstance(n.value, ast.ListComp) and '.split()' in norm_stmt(n.value.generators[0].iter) and \
                        '.serialize()' in norm_stmt(n.value.elt):
                    comp_var = n.targets[0].id
            if name == 'product':
                good = len(c.args) == 1 and norm_stmt(c.args[0]) == comp_var and \
                    (any(kw.arg == 'repeat' and norm_stmt(kw.value) == 'repeat' for kw in c.keywords))
            else:
                good = len(c.args) == 2 and norm_stmt(c.args[0]) == comp_var and norm_stmt(c.args[1]) == argname
            ob(rep, 'CALL-itertools', m.fq, f'itertools.{name} receives (serialized residue pieces, {argname})', good,
               norm_stmt(c), f'arguments are `{norm_stmt(c)}`', m.loc(c), 'C19a')
        dflt = any(isinstance(n, ast.If) and norm_stmt(n.test) == f'{argname} is None' and len(n.body) == 1 and
                   norm_stmt(n.body[0]) == f'{argname} = len(self)' for n in walk_own(m.node))
        ob(rep, 'CALL-itertools', m.fq, f'{argname}=None means the full length', dflt, f'{argname} = len(self)',
           f'None no longer defaults to len(self)', m.loc(), 'C19a')
        # (b) prologue text with the enumeration-specific parts abstracted
        raw = ' ; '.join(norm_stmt(s) for s in m.node.body
                         if not (isinstance(s, ast.Expr) and isinstance(s.value, ast.Constant)))
        txt = ' ; '.join(alpha_body(m, [(f'itertools.{name}', 'itertools.F'), (argname, 'K'), ('K=K', 'K')]))
        prologues[name] = txt
        # start/end are serialized before anything is popped
        order = []
        for n in walk_own(m.node):
            if isinstance(n, ast.Call) and isinstance(n.func, ast.Attribute):
                if n.func.attr in ('serialize_start', 'serialize_end') and norm_stmt(n.func.value) == 'self':
                    order.append((n.lineno, 'serialize'))
                if n.func.attr.startswith('pop_'):
                    order.append((n.lineno, 'pop'))
        order.sort()
        kinds = [k for _, k in order]
        ok = kinds.count('serialize') == 2 and 'pop' in kinds and kinds.index('pop') >= 2
        ob(rep, 'SIB-clone', m.fq, 'start and end text are taken from self before anything is popped', ok,
           'serialize_start(), serialize_end(), then pop', f'order is {kinds}: the wrapping text would miss '
           f'annotations that were already removed', m.loc(), 'C19b')
        ret = [n for n in walk_own(m.node) if isinstance(n, ast.Return) and n.value is not None]
        ok = len(ret) == 1 and _is_wrapped_parse(m, ret[0])
        ob(rep, 'SIB-clone', m.fq, "every result is parse(start + ''.join(pieces) + end)", ok, 're-parsed text',
           f'returns `{norm_stmt(ret[0])[:80] if ret else "?"}`', m.loc(), 'C19b')
        # (c) key read back
        keys = set(_re.findall(r"\.get\('([a-z_]+)'\)", raw))
        ob(rep, 'TOK-key', m.fq, "the residue modifications are read back under pop_mods' key", keys == {'internal'} and
           _pop_mods_internal_key(program) == 'internal', "'internal' on both sides",
           f"reads {sorted(keys)} but pop_mods files residue modifications under "
           f"'{_pop_mods_internal_key(program)}': the pieces lose their residue modifications", m.loc(), 'C19c')
        # (d)
        s = an.summaries.get((m.fq, ()))
        ob(rep, 'EFF-mutates-argument', m.fq, 'self is not edited', 0 not in s.mutates, 'works on a copy',
           f'writes self: {[w.root_stmt for w in s.mutates.get(0, {}).values()][:3]}', m.loc(), 'C19d')
        # module-level wrapper
        w = program.func(f'{CB}:{name}')
        recs = [r for r in calls_in(an, w.fq) if r.callee is not None and r.callee.fq == m.fq]
        ok = len(recs) == 1
        argok = False
        if ok:
            e = recs[0].binding.get(argname)
            argok = isinstance(e, ast.Name) and e.id == argname
        ob(rep, 'CALL-itertools', w.fq, f'{CB.split(".")[-1]}.{name} delegates to the method of the same name with '
           f'its {argname}', ok and argok, f'annotation.{name}({argname})',
           'the wrapper calls another method or drops its size argument', w.loc(), 'C19a')
    base = prologues['permutations']
    for name, txt in prologues.items():
        ob(rep, 'SIB-clone', f'{PFA}.{name}', f'{name} shares the prologue of permutations', txt == base,
           'identical modulo the itertools function and its size argument',
           f'the body differs from permutations: `{_first_diff(base, txt)}`', cls.methods[name].loc(), 'C19b')


def _is_wrapped_parse(m, ret) -> bool:
    """return [parse(<start> + ''.join(<piece tuple>) + <end>) for ... in itertools...] with <start>/<end> being the
    variables assigned from self.serialize_start()/serialize_end()"""
    start = end = None
    for n in walk_own(m.node):
        if isinstance(n, ast.Assign) and isinstance(n.targets[0], ast.Name) and isinstance(n.value, ast.Call) and \
                isinstance(n.value.func, ast.Attribute) and norm_stmt(n.value.func.value) == 'self':
            if n.value.func.attr == 'serialize_start':
                start = n.targets[0].id
            if n.value.func.attr == 'serialize_end':
                end = n.targets[0].id
    v = ret.value
    if not (isinstance(v, ast.ListComp) and isinstance(v.elt, ast.Call) and norm_stmt(v.elt.func) == 'parse' and v.elt.args):
        return False
    a = v.elt.args[0]
    tgt = v.generators[0].target
    if not isinstance(tgt, ast.Name):
        return False
    return norm_stmt(a) == f"{start} + ''.join({tgt.id}) + {end}"


def _first_diff(a: str, b: str) -> str:
    pa, pb = a.split(' ; '), b.split(' ; ')
    for x, y in zip(pa, pb):
        if x != y:
            return f'{y}  (permutations: {x})'
    return 'different length'


def _pop_mods_internal_key(program) -> str:
    f = program.func(f'{PFA}.pop_mods')
    for n in walk_own(f.node):
        if isinstance(n, ast.Assign) and isinstance(n.targets[0], ast.Subscript) and \
                isinstance(n.targets[0].slice, ast.Constant) and 'pop_internal_mods' in norm_stmt(n.value):
            return n.targets[0].slice.value
    raise AnalysisError('pop_mods: key for internal modifications not found')
