"""C19 -- combinatorial expansions are exactly the combinatorics of the modified residues (structural conditions)."""
import ast
import re as _re

from ..loader import AnalysisError, norm_stmt, walk_own
from .common import calls_in, alpha_body
from .common import check as ob
from ..canon import Canon

EXPLANATION = (
    'Decides: (a) each of the four methods calls the itertools function of its own name on (components, size) / '
    '(components, repeat=repeat), None defaults to len(self), and each module-level function calls the method of '
    'its own name with its size argument; (b) the four prologues are identical: the start and end text are '
    'serialized from the unmodified object before anything is popped, the residue pieces come from split() of an '
    'object that kept only its residue modifications, and the result is parse(start + join(pieces) + end) -- needed '
    'for "wrapped in the peptide\'s unchanged global, labile and terminal annotations"; (c) the key under which '
    'pop_mods files the residue modifications is the key the prologue reads back; (d) self is not edited (C08). '
    'Not decided: the counts n!/(n-k)!, C(n,k), ..., ordering, that every result parses (itertools semantics over '
    'runtime lists).')

PP = 'peptacular.proforma.proforma_parser'
PFA = f'{PP}:ProFormaAnnotation'
CB = 'peptacular.sequence.combinatoric'
NAMES = {'permutations': 'size', 'product': 'repeat', 'combinations': 'size', 'combinations_with_replacement': 'size'}


def check(ctx, rep):
    rep.explanation = EXPLANATION
    an, program = ctx.analyzer, ctx.program
    cls = program.cls(PFA)
    prologues = {}
    for name, argname in NAMES.items():
        m = cls.methods.get(name)
        if m is None:
            raise AnalysisError(f'anchor method missing: ProFormaAnnotation.{name}')
        # (a) the itertools call
        calls = [n for n in walk_own(m.node) if isinstance(n, ast.Call) and isinstance(n.func, ast.Attribute) and
                 isinstance(n.func.value, ast.Name) and n.func.value.id == 'itertools']
        ok = len(calls) == 1 and calls[0].func.attr == name
        ob(rep, 'CALL-itertools', m.fq, f'{name} enumerates with itertools.{name}', ok, f'itertools.{name}',
           f'calls itertools.{calls[0].func.attr if calls else "?"}: the method returns a different enumeration than '
           f'its name promises', m.loc(calls[0]) if calls else m.loc(), 'C19a')
        if calls:
            c = calls[0]
            cmr = Canon(m.node)
            first = cmr.resolve(c.args[0]) if c.args else None
            pieces = isinstance(first, ast.ListComp) and '.split()' in norm_stmt(first.generators[0].iter) and \
                '.serialize()' in norm_stmt(first.elt)
            # the size argument is the parameter itself or a local that starts as a copy of it (the default is
            # decided below, on the value that reaches this call)
            def from_param(e) -> bool:
                seen = set()
                while isinstance(e, ast.Name) and e.id != argname and e.id not in seen:
                    seen.add(e.id)
                    firsts = [a for a in walk_own(m.node) if isinstance(a, ast.Assign) and
                              isinstance(a.targets[0], ast.Name) and a.targets[0].id == e.id]
                    if not firsts:
                        return False
                    e = min(firsts, key=lambda a: a.order).value
                return isinstance(e, ast.Name) and e.id == argname
            if name == 'product':
                good = len(c.args) == 1 and pieces and \
                    (any(kw.arg == 'repeat' and from_param(kw.value) for kw in c.keywords))
            else:
                good = len(c.args) == 2 and pieces and from_param(c.args[1])
            ob(rep, 'CALL-itertools', m.fq, f'itertools.{name} receives (serialized residue pieces, {argname})', good,
               norm_stmt(c), f'arguments are `{norm_stmt(c)}`', m.loc(c), 'C19a')
        # the size handed to itertools: len(self) when the caller passes None, the caller's value otherwise (read under
        # both cases, so an if statement and a conditional expression are the same)
        from ..guards import specialise, GuardEval as GE, UNK as U
        cm = Canon(m.node)
        finals = {}
        for given in (None, 3, 9):
            ge = GE({argname: given, 'len(self)': 7, 'len(self.sequence)': 7}, cm.aliases())
            size_expr = None
            if calls:
                size_expr = next((kw.value for kw in calls[0].keywords if kw.arg == 'repeat'), None) if name == 'product' \
                    else (calls[0].args[1] if len(calls[0].args) > 1 else None)
            for _st in specialise(m.node.body, ge):
                if calls and any(x is calls[0] for x in ast.walk(_st)):
                    break
            # the value that reaches the itertools call
            finals[given] = ge.eval(size_expr) if size_expr is not None else ge.env.get(argname, U)
        dflt = finals == {None: 7, 3: 3, 9: 9}
        ob(rep, 'CALL-itertools', m.fq, f'{argname}=None means the full length', dflt, f'{argname} = len(self)',
           f'with len(self) == 7 the size used is {finals}: None no longer defaults to the full length, or a given size '
           f'is changed', m.loc(), 'C19a')
        # (b) prologue text with the enumeration-specific parts abstracted
        raw = ' ; '.join(norm_stmt(s) for s in m.node.body
                         if not (isinstance(s, ast.Expr) and isinstance(s.value, ast.Constant)))
        # what the method is made of, independent of how it is written: the pieces it enumerates over, the working
        # copy they come from, how the residue modifications get back onto that copy, and the text the results are
        # parsed from
        cs = Canon(m.node)
        pieces_txt = norm_stmt(cs.resolve(calls[0].args[0])) if calls and calls[0].args else '?'
        restore = sorted(norm_stmt(cs.resolve(n.value)) for n in walk_own(m.node) if isinstance(n, ast.Assign) and
                         isinstance(n.targets[0], ast.Attribute) and n.targets[0].attr == '_internal_mods')
        prologues[name] = (pieces_txt, tuple(restore), tuple(sorted(_result_templates(m))))
        # start/end are serialized before anything is popped
        order = []
        for n in walk_own(m.node):
            if isinstance(n, ast.Call) and isinstance(n.func, ast.Attribute):
                if n.func.attr in ('serialize_start', 'serialize_end') and norm_stmt(n.func.value) == 'self':
                    order.append((n.order, 'serialize'))
                if n.func.attr.startswith('pop_'):
                    order.append((n.order, 'pop'))
        order.sort()
        kinds = [k for _, k in order]
        ok = kinds.count('serialize') == 2 and 'pop' in kinds and kinds.index('pop') >= 2
        ob(rep, 'SIB-clone', m.fq, 'start and end text are taken from self before anything is popped', ok,
           'serialize_start(), serialize_end(), then pop', f'order is {kinds}: the wrapping text would miss '
           f'annotations that were already removed', m.loc(), 'C19b')
        tpl = _result_templates(m)
        bad_ret = _returns_not_enumerated(m)
        ob(rep, 'SIB-clone', m.fq, 'every return hands back the enumerated, re-parsed list', not bad_ret,
           'list of parse(...) over the itertools call', f'`{bad_ret}` returns something that was not built by '
           f'parsing the pieces of the itertools enumeration (a shortcut result keeps or loses what the re-parsed '
           f'results do not)', m.loc(), 'C19b')
        ok = tpl == ["{self.serialize_start()}{''.join(_)}{self.serialize_end()}"]
        ob(rep, 'SIB-clone', m.fq, "every result is parse(start + ''.join(pieces) + end)", ok, 're-parsed text',
           f'results are parsed from {tpl}', m.loc(), 'C19b')
        # (c) key read back
        keys = set(_re.findall(r"\.get\('([a-z_]+)'\)", raw))
        ob(rep, 'TOK-key', m.fq, "the residue modifications are read back under pop_mods' key", keys == {'internal'} and
           _pop_mods_internal_key(program) == 'internal', "'internal' on both sides",
           f"reads {sorted(keys)} but pop_mods files residue modifications under "
           f"'{_pop_mods_internal_key(program)}': the pieces lose their residue modifications", m.loc(), 'C19c')
        # (d)
        s = an.summaries.get((m.fq, ()))
        ob(rep, 'EFF-mutates-argument', m.fq, 'self is not edited', 0 not in s.mutates, 'works on a copy',
           f'writes self: {[w.root_stmt for w in s.mutates.get(0, {}).values()][:3]}', m.loc(), 'C19d')
        # module-level wrapper
        w = program.func(f'{CB}:{name}')
        recs = [r for r in calls_in(an, w.fq) if r.callee is not None and r.callee.fq == m.fq]
        ok = len(recs) == 1
        argok = False
        if ok:
            e = recs[0].binding.get(argname)
            argok = isinstance(e, ast.Name) and e.id == argname
        ob(rep, 'CALL-itertools', w.fq, f'{CB.split(".")[-1]}.{name} delegates to the method of the same name with '
           f'its {argname}', ok and argok, f'annotation.{name}({argname})',
           'the wrapper calls another method or drops its size argument', w.loc(), 'C19a')
    base = prologues['permutations']
    for name, txt in prologues.items():
        ob(rep, 'SIB-clone', f'{PFA}.{name}', f'{name} is built like permutations', txt == base,
           'same pieces, same working copy, same result text; only the itertools function differs',
           f'{name} differs from permutations in what it enumerates over or returns: {txt} vs {base}',
           cls.methods[name].loc(), 'C19b')


def _result_templates(m) -> list:
    """text templates the results are parsed from: the argument of every parse(...) call, with concatenation and
    f-strings flattened, locals resolved and the enumeration variable spelled `_`"""
    from .C01 import _templates
    c = Canon(m.node)
    out = set()
    for n in walk_own(m.node):
        if isinstance(n, ast.Call) and norm_stmt(n.func) == 'parse' and n.args:
            loop_vars = {nm for nm in c.order if any(k == 'each' for k, _p in c.bindings.get(nm, []))}
            arg = c.resolve(n.args[0])

            class R(ast.NodeTransformer):
                def visit_Name(self, x):
                    return ast.copy_location(ast.Name(id='_' if x.id in loop_vars else x.id, ctx=x.ctx), x)
            for t in _templates(R().visit(arg), c):
                out.add(t)
    return sorted(out)


def _returns_not_enumerated(m):
    """text of the first return whose value is neither [parse(..) for .. in itertools.X(..)] nor a list filled only by
    .append(parse(..)) inside a loop over itertools.X(..); None when all are"""
    c = Canon(m.node)

    def from_itertools(it):
        it = c.resolve(it)
        return any(isinstance(x, ast.Call) and norm_stmt(x.func).startswith('itertools.') for x in ast.walk(it))

    def is_parse(e):
        return isinstance(e, ast.Call) and norm_stmt(e.func) == 'parse'

    for r in walk_own(m.node):
        if not isinstance(r, ast.Return):
            continue
        if r.value is None:
            return norm_stmt(r)
        v = c.resolve(r.value)
        if isinstance(v, ast.ListComp) and is_parse(v.elt) and len(v.generators) == 1 and \
                from_itertools(v.generators[0].iter):
            continue
        if isinstance(r.value, ast.Name):
            nm = r.value.id
            init = [n for n in walk_own(m.node) if isinstance(n, ast.Assign) and any(
                isinstance(t, ast.Name) and t.id == nm for t in n.targets)]
            fills, other = [], []
            for loop in walk_own(m.node):
                if isinstance(loop, ast.For) and from_itertools(loop.iter):
                    for x in ast.walk(loop):
                        if isinstance(x, ast.Call) and isinstance(x.func, ast.Attribute) and \
                                norm_stmt(x.func.value) == nm and x.func.attr == 'append' and x.args and is_parse(x.args[0]):
                            fills.append(x)
            for x in walk_own(m.node):
                if isinstance(x, ast.Call) and isinstance(x.func, ast.Attribute) and norm_stmt(x.func.value) == nm and \
                        x not in fills:
                    other.append(x)
            if len(init) == 1 and norm_stmt(init[0].value) in ('[]', 'list()') and fills and not other:
                continue
        return norm_stmt(r)[:90]
    return None


def _is_wrapped_parse(m, ret) -> bool:
    """return [parse(<start> + ''.join(<piece tuple>) + <end>) for ... in itertools...] with <start>/<end> being the
    variables assigned from self.serialize_start()/serialize_end()"""
    start = end = None
    for n in walk_own(m.node):
        if isinstance(n, ast.Assign) and isinstance(n.targets[0], ast.Name) and isinstance(n.value, ast.Call) and \
                isinstance(n.value.func, ast.Attribute) and norm_stmt(n.value.func.value) == 'self':
            if n.value.func.attr == 'serialize_start':
                start = n.targets[0].id
            if n.value.func.attr == 'serialize_end':
                end = n.targets[0].id
    v = ret.value
    if not (isinstance(v, ast.ListComp) and isinstance(v.elt, ast.Call) and norm_stmt(v.elt.func) == 'parse' and v.elt.args):
        return False
    a = v.elt.args[0]
    tgt = v.generators[0].target
    if not isinstance(tgt, ast.Name):
        return False
    return norm_stmt(a) == f"{start} + ''.join({tgt.id}) + {end}"


def _first_diff(a: str, b: str) -> str:
    pa, pb = a.split(' ; '), b.split(' ; ')
    for x, y in zip(pa, pb):
        if x != y:
            return f'{y}  (permutations: {x})'
    return 'different length'


def _pop_mods_internal_key(program) -> str:
    f = program.func(f'{PFA}.pop_mods')
    from .C20 import produced_keys
    for k_, fld in produced_keys(f).items():   # also reads a (key, has, pop) table
        if fld.replace('_mods', '') == 'internal':
            return k_
    for n in walk_own(f.node):
        if isinstance(n, ast.Assign) and isinstance(n.targets[0], ast.Subscript) and \
                isinstance(n.targets[0].slice, ast.Constant) and 'pop_internal_mods' in norm_stmt(n.value):
            return n.targets[0].slice.value
    raise AnalysisError('pop_mods: key for internal modifications not found')
