"""C04 -- fragmentation enumerates every ion once and agrees with the mass calculator (structural conditions)."""
import ast
import copy
from typing import Dict, List, Optional, Set

from ..loader import AnalysisError, norm_stmt, walk_own, FuncInfo
from ..rules_flow import forwarding, param_reaches_returns
from .. import rules_tab as rt
from .common import add_fwd, add_ret, add_checks, calls_in, ret_tags
from .common import check as ob
from ..canon import Canon, localise, each, returned, helper_inliner
from ..guards import GuardEval, UNK, specialise, resolve

EXPLANATION = (
    'Decides: (a) the five non-`fragment` return types append exactly the projections of the Fragment the '
    '`fragment` branch would build (constructor bindings substituted into the derived properties number/label, local '
    'aliases resolved to their provenance); (b) all six return types are handled and anything else raises; (c) the '
    'cached Fragmenter is a projection of the same computation (every parameter forwarded under its own name, mass '
    'components built by the same expression); (d) loss, isotope, charge, ion_type reach every value return of the '
    'mass calculator; (e) get_number and the fragmenter route ion types through the same four series sets, which '
    'partition the valid ion types, with forward number = end and backward number = n - start; (f) before summing '
    'mass() over one-residue pieces, every whole-peptide field that slicing copies to every piece and that mass() '
    'reads is neutralised (popped, overridden in the call, or guarded). Not decided: number of spans per series, '
    'uniqueness of ions, float equality of the incremental sum with the direct calculator.')

FR = 'peptacular.fragmentation'
BUILD = f'{FR}:_build_fragments'
PP = 'peptacular.proforma.proforma_parser'


class _Inline(ast.NodeTransformer):
    def __init__(self, env: Dict[str, ast.AST]):
        self.env = env

    def visit_Name(self, node):
        if isinstance(node.ctx, ast.Load) and node.id in self.env:
            return copy.deepcopy(self.env[node.id])
        return node


def inline(e: ast.AST, env: Dict[str, ast.AST], rounds: int = 6) -> str:
    e = copy.deepcopy(e)
    for _ in range(rounds):
        before = ast.unparse(e)
        e = _Inline(env).visit(e)
        if ast.unparse(e) == before:
            break
    return ' '.join(ast.unparse(e).split())


def single_assignments(f: FuncInfo) -> Dict[str, ast.AST]:
    """locals assigned exactly once in the function by a plain `name = expr` (usable as aliases)"""
    count: Dict[str, int] = {}
    val: Dict[str, ast.AST] = {}
    for n in walk_own(f.node):
        targets = []
        if isinstance(n, ast.Assign):
            targets = [t for t in n.targets]
        elif isinstance(n, (ast.AugAssign, ast.AnnAssign)):
            targets = [n.target]
        elif isinstance(n, (ast.For, ast.comprehension)):
            targets = [n.target]
        for t in targets:
            for x in ast.walk(t):
                if isinstance(x, ast.Name):
                    count[x.id] = count.get(x.id, 0) + 1
                    if isinstance(n, ast.Assign) and len(n.targets) == 1 and isinstance(t, ast.Name):
                        val[x.id] = n.value
                    else:
                        count[x.id] += 1  # not a plain alias
    return {k: v for k, v in val.items() if count.get(k) == 1}


class _SelfSubst(ast.NodeTransformer):
    def __init__(self, bind: Dict[str, ast.AST], props: Dict[str, ast.AST]):
        self.bind, self.props = bind, props

    def visit_Attribute(self, node):
        if isinstance(node.value, ast.Name) and node.value.id == 'self':
            if node.attr in self.bind:
                return copy.deepcopy(self.bind[node.attr])
            if node.attr in self.props:
                return _SelfSubst(self.bind, self.props).visit(copy.deepcopy(self.props[node.attr]))
        return self.generic_visit(node)


def build_func(program) -> FuncInfo:
    """_build_fragments with the span loop variable spelled `span` (whatever it is called in the source)"""
    return localise(program.func(BUILD), {'span': each('spans'), 'frags': returned()})


def projections(ctx, rep, clause):
    program = ctx.program
    f = build_func(program)
    frag_cls = program.cls(f'{FR}:Fragment')
    ctor = None
    for n in walk_own(f.node):
        if isinstance(n, ast.Call) and isinstance(n.func, ast.Name) and n.func.id == 'Fragment':
            ctor = n
    if ctor is None:
        raise AnalysisError('_build_fragments: Fragment(...) construction not found')
    bind = {kw.arg: kw.value for kw in ctor.keywords if kw.arg}
    names = frag_cls.field_names()
    for i, a in enumerate(ctor.args):
        if i < len(names):
            bind[names[i]] = a
    # a __post_init__ that replaces a field changes what the derived properties see
    post = frag_cls.methods.get('__post_init__')
    rewritten = []
    if post is not None:
        for x in walk_own(post.node):
            if isinstance(x, ast.Call) and norm_stmt(x.func) in ('object.__setattr__', 'setattr') and len(x.args) == 3 and \
                    norm_stmt(x.args[0]) == 'self' and isinstance(x.args[1], ast.Constant):
                rewritten.append((x.args[1].value, x.args[2], x))
            if isinstance(x, ast.Assign) and isinstance(x.targets[0], ast.Attribute) and \
                    norm_stmt(x.targets[0].value) == 'self':
                rewritten.append((x.targets[0].attr, x.value, x))
    for fld, val, node in rewritten:
        if fld in bind:
            bind[fld] = _SelfSubst(dict(bind), {}).visit(copy.deepcopy(val))
    missing = [n for n in names if n not in bind]
    ob(rep, 'PROJ', BUILD, 'Fragment(...) binds every field', not missing, f'{len(names)} fields',
       f'fields {missing} are not bound', f.loc(ctor), clause)
    props = {}
    for pname in ('number', 'label'):
        m = frag_cls.methods.get(pname)
        if m is None:
            raise AnalysisError(f'Fragment.{pname} not found')
        rets = [x for x in walk_own(m.node) if isinstance(x, ast.Return) and x.value is not None]
        if len(rets) != 1:
            raise AnalysisError(f'Fragment.{pname}: expected a single return expression')
        props[pname] = rets[0].value
    cf = Canon(f.node, inliner=helper_inliner(program, FR))
    aliases = single_assignments(f)

    def spell(e, env=None, rtype=None) -> str:
        """expression with path-local bindings, function-wide single bindings and simple helpers resolved; conditional
        expressions on the return type take the arm of the return type asked about"""
        e = copy.deepcopy(e)
        if env:
            for _ in range(4):
                e = _Inline(env).visit(e)
        e = cf.resolve(e)
        if rtype is not None:
            from ..guards import resolve as gresolve, GuardEval as GE
            e = gresolve(e, GE({'return_type': rtype}))
        return ' '.join(ast.unparse(e).split())
    expect = {}
    for pname in ('number', 'label'):
        e = _SelfSubst(bind, props).visit(copy.deepcopy(props[pname]))
        expect[pname] = spell(e)
    expect['mass'] = spell(bind['mass'])
    expect['mz'] = spell(bind['mz'])
    want = {
        'label': expect['label'],
        'mass': expect['mass'],
        'mz': expect['mz'],
        'mass-label': f"({expect['mass']}, {expect['label']})",
        'mz-label': f"({expect['mz']}, {expect['label']})",
    }
    n = 0
    for rtype in want:
        appended_all, local, first = return_type_path(f, rtype)
        if not appended_all:
            continue  # reported by the exhaustiveness rule
        n += 1
        gots = sorted({spell(a, local, rtype) for a in appended_all})
        got = gots[0] if len(gots) == 1 else ' | '.join(gots)
        ob(rep, 'PROJ', BUILD, f"return_type '{rtype}' appends the projection of the Fragment", got == want[rtype],
           f'{got[:90]}',
           f"for return_type '{rtype}' the function appends `{got}` but the corresponding projection of the Fragment "
           f"built for return_type 'fragment' is `{want[rtype]}`: the return types do not describe the same ions",
           f.loc(first), clause, {'appended': got, 'projection': want[rtype]})
    rep.floor('PROJ', 'alternative return types compared', n, 5)


def loss_sequence(ctx, rep, clause):
    """applicable losses are decided on the bare residues of the fragment (never on the serialized text, whose
    modification names contain letters the loss patterns would match)"""
    program = ctx.program
    f = build_func(program)
    cf = Canon(f.node, inliner=helper_inliner(program, FR))

    def spell(e):
        return ' '.join(ast.unparse(cf.resolve(e)).split())
    calls = [n for n in walk_own(f.node) if isinstance(n, ast.Call) and isinstance(n.func, ast.Name) and
             n.func.id == 'get_losses']
    if len(calls) != 1:
        raise AnalysisError('_build_fragments: get_losses call not found')
    c = calls[0]
    arg = None
    for kw in c.keywords:
        if kw.arg == 'sequence':
            arg = kw.value
    if arg is None and c.args:
        arg = c.args[0]
    got = spell(arg) if arg is not None else '?'
    ob(rep, 'PROJ', BUILD, 'losses are matched against the residues of the fragment', 
       got == 'annotation.slice(span[0], span[1]).sequence', got,
       f'get_losses receives `{got}`: loss patterns are matched against something other than the bare residues of '
       f'the span (modification names would trigger losses)', f.loc(c), clause)
    ok_frag = False
    for n in walk_own(f.node):
        if isinstance(n, ast.Call) and isinstance(n.func, ast.Name) and n.func.id == 'Fragment':
            kws = {kw.arg: kw.value for kw in n.keywords}
            seq = spell(kws['sequence']) if 'sequence' in kws else ''
            un = spell(kws['unmod_sequence']) if 'unmod_sequence' in kws else ''
            ok_frag = seq == 'annotation.slice(span[0], span[1]).serialize()' and \
                un == 'annotation.slice(span[0], span[1]).sequence'
    ob(rep, 'PROJ', BUILD, 'Fragment.sequence / unmod_sequence are the serialized / bare slice of the span', ok_frag,
       'slice(span[0], span[1])', 'the fragment sequence fields are not the slice of the span', f.loc(), clause)


def loss_combinations(ctx, rep, clause):
    """get_losses: combined losses of every size 2..max_losses are enumerated whenever max_losses > 1 -- the guards
    around the combinations loop are decided over the finite set (max_losses M in 2..4) x (L matching sites in 2..5);
    sizes larger than L simply yield no combination, so no guard on L versus M is needed (or sound)"""
    program = ctx.program
    f = program.func(f'{FR}:get_losses')
    c = Canon(f.node)
    combos = [x for x in walk_own(f.node) if isinstance(x, ast.Call) and norm_stmt(x.func) in
              ('itertools.combinations', 'combinations')]
    if len(combos) != 1 or len(combos[0].args) != 2:
        raise AnalysisError('get_losses: the itertools.combinations(<sites>, <size>) call was not found')
    sites, size = combos[0].args
    loop = None
    for x in walk_own(f.node):
        if isinstance(x, ast.For) and isinstance(size, ast.Name) and isinstance(x.target, ast.Name) and \
                x.target.id == size.id:
            loop = x
    # the sizes: whatever the size variable iterates over (a for statement or a comprehension generator)
    rng = ''
    if isinstance(size, ast.Name):
        for kind, payload in c.bindings.get(size.id, []):
            if kind == 'each':
                rng = norm_stmt(c.resolve(payload[0])).replace(' ', '')
    ob(rep, 'EXH', f.fq, 'combination sizes range over 2..max_losses', rng == 'range(2,max_losses+1)', rng,
       f'sizes are taken from `{rng}`: some number of simultaneous losses between 2 and max_losses is never produced',
       f.loc(loop) if loop is not None else f.loc(combos[0]), clause)
    from ..guards import dominating_tests, preceding_exits
    anchor = loop if loop is not None else combos[0]
    tests = list(dominating_tests(f.node, anchor)) + [(t, False) for t in preceding_exits(f.node.body, anchor)]
    sites_txt = norm_stmt(sites)
    bad = None
    for M in (2, 3, 4):
        for L in (2, 3, 4, 5):
            ge = GuardEval({'max_losses': M, f'len({sites_txt})': L, sites_txt: [0] * L}, c.aliases())
            for t, pol in tests:
                v = ge.eval(t)
                if v is not UNK and bool(v) != pol and bad is None:
                    bad = (M, L, norm_stmt(t))
    ob(rep, 'EXH', f.fq, 'the combinations are enumerated whenever max_losses > 1', bad is None,
       f'{len(tests)} guard(s) decided for max_losses in 2..4 and 2..5 matching sites',
       f'with max_losses={bad[0] if bad else ""} and {bad[1] if bad else ""} matching sites the guard `{bad[2] if bad else ""}` '
       f'skips the enumeration: double losses that do exist are not returned', f.loc(anchor), clause)
    # the per-site list: one entry per regex match -- filled by an append under a loop over re.findall(...), or built
    # by a comprehension with a generator over re.findall(...)
    per_site = False
    if c.is_local(sites_txt):
        for x in walk_own(f.node):
            if isinstance(x, ast.For) and 'findall(' in norm_stmt(x.iter):
                for y in ast.walk(x):
                    if isinstance(y, ast.Call) and isinstance(y.func, ast.Attribute) and y.func.attr == 'append' and \
                            norm_stmt(y.func.value) == sites_txt:
                        per_site = True
        for kind, payload in c.bindings.get(sites_txt, []):
            if kind == 'assign' and isinstance(payload, ast.ListComp) and \
                    any('findall(' in norm_stmt(g.iter) for g in payload.generators):
                per_site = True
            # ... or the loss repeated once per match: repeat(loss, len(findall(..))) / [loss] * len(findall(..))
            if kind == 'assign':
                for y in ast.walk(payload):
                    if isinstance(y, ast.Call) and norm_stmt(y.func).split('.')[-1] == 'repeat' and len(y.args) == 2 and \
                            norm_stmt(y.args[1]).startswith('len(') and 'findall(' in norm_stmt(y.args[1]):
                        per_site = True
                    if isinstance(y, ast.BinOp) and isinstance(y.op, ast.Mult) and any(
                            norm_stmt(side).startswith('len(') and 'findall(' in norm_stmt(side)
                            for side in (y.left, y.right)) and any(isinstance(side, ast.List) and len(side.elts) == 1
                                                                   for side in (y.left, y.right)):
                        per_site = True
    ob(rep, 'EXH', f.fq, 'combinations are drawn from the per-site list (one entry per matching site)', per_site,
       'one entry per regex match',
       f'combinations are drawn from a list that does not receive one entry per matching site: '
       f'two losses at two different sites would be merged or missed', f.loc(combos[0]), clause)


def return_type_path(f: FuncInfo, rtype: str):
    """what the function appends when return_type == rtype: the statement list is specialised under that value
    (branches whose test is decided are pruned, conditional expressions resolved), so `==` chains, `in (...)` tests
    and merged branches are all read the same way.  -> (appended expressions, locals assigned on that path, first
    statement for the report)"""
    c = Canon(f.node)
    marks: Dict[int, bool] = {}
    ge = GuardEval({'return_type': rtype}, c.aliases())
    stream = list(specialise(f.node.body, ge, marks))
    ge = GuardEval({'return_type': rtype}, c.aliases())
    multi = {n_ for n_ in c.order if c.is_local(n_) and c.single_value(n_) is None}
    vals: Dict[str, Optional[ast.AST]] = {}
    appended, first, snapshots = [], None, []
    for st in stream:
        if isinstance(st, ast.Assign) and len(st.targets) == 1 and isinstance(st.targets[0], ast.Name) and \
                st.targets[0].id in multi:
            # a local bound more than once means what its last binding on this path gave it; a binding under an
            # undecided test makes it unknown
            vals[st.targets[0].id] = resolve(st.value, ge) if marks.get(id(st), False) else None
        for x in ast.walk(st):
            hit = None
            if isinstance(x, ast.Call) and isinstance(x.func, ast.Attribute) and x.func.attr == 'append' and x.args and \
                    norm_stmt(x.func.value) == 'frags':
                hit = x.args[0]
            if isinstance(x, (ast.Yield,)) and x.value is not None:
                hit = x.value
            if hit is not None:
                env = {k: v for k, v in vals.items() if v is not None}
                e = resolve(hit, ge)
                for _ in range(4):
                    e = _Inline(env).visit(copy.deepcopy(e))
                appended.append(e)
                first = first or st
    return appended, {}, first


def return_type_branches(f: FuncInfo) -> Dict[str, List[ast.stmt]]:
    out: Dict[str, List[ast.stmt]] = {}
    for n in walk_own(f.node):
        if isinstance(n, ast.If):
            t = n.test
            if isinstance(t, ast.Compare) and isinstance(t.left, ast.Name) and t.left.id == 'return_type' and \
                    len(t.ops) == 1 and isinstance(t.ops[0], ast.Eq) and isinstance(t.comparators[0], ast.Constant):
                out.setdefault(t.comparators[0].value, n.body)
    return out


def exhaustive(ctx, rep, clause):
    program = ctx.program
    mod = program.module(FR)
    lit = mod.assigns.get('FragmentReturnType')
    if lit is None or not isinstance(lit, ast.Subscript):
        raise AnalysisError('FragmentReturnType literal not found')
    sl = lit.slice
    members = [x.value for x in (sl.elts if isinstance(sl, ast.Tuple) else [sl]) if isinstance(x, ast.Constant)]
    f = build_func(program)
    handled = {m_ for m_ in members if return_type_path(f, m_)[0]}
    ob(rep, 'EXH', BUILD, f'handles every member of FragmentReturnType {members}', set(members) <= handled,
       'all members have a branch', f'no branch for {sorted(set(members) - handled)}: such a request silently '
       f'returns an empty list', f.loc(), clause)
    tested = set()
    for n_ in walk_own(f.node):
        if isinstance(n_, ast.Compare) and norm_stmt(n_.left) == 'return_type':
            for cmp_ in n_.comparators:
                for x in ([cmp_] if isinstance(cmp_, ast.Constant) else getattr(cmp_, 'elts', [])):
                    if isinstance(x, ast.Constant) and isinstance(x.value, str):
                        tested.add(x.value)
    extra = tested - set(members)
    ob(rep, 'EXH', BUILD, 'no branch for a value outside the literal', not extra, 'none', f'{sorted(extra)}', f.loc(),
       clause)


def fragmenter_projection(ctx, rep, clause):
    an, program = ctx.analyzer, ctx.program
    m = program.func(f'{FR}:Fragmenter.fragment')
    target = program.func(f'{FR}:fragment')
    recs = [r for r in calls_in(an, m.fq) if r.callee is not None and r.callee.fq == target.fq]
    if len(recs) != 1:
        raise AnalysisError('Fragmenter.fragment: the delegating call to fragment() was not found')
    r = recs[0]
    for p in m.params:
        if p.name == 'self':
            continue
        e = r.binding.get(p.name)
        ok = isinstance(e, ast.Name) and e.id == p.name
        ob(rep, 'FWD', m.fq, f'parameter {p.name} is forwarded under its own name', ok, f'{p.name}={p.name}',
           f'`{p.name}` is {"not passed" if e is None else "bound to `" + norm_stmt(e) + "`"} in the call to fragment(): '
           f'the cached object would answer a different question than the function', m.loc(r.node), clause)
    for pname, attr in (('sequence', 'annotation'), ('monoisotopic', 'monoisotopic'), ('_mass_components', 'mass_components')):
        e = r.binding.get(pname)
        ok = e is not None and norm_stmt(e) == f'self.{attr}'
        ob(rep, 'FWD', m.fq, f'{pname} comes from self.{attr}', ok, f'{pname}=self.{attr}',
           f'`{pname}` is {"not passed" if e is None else "bound to `" + norm_stmt(e) + "`"}', m.loc(r.node), clause)
    # the cache is built by the same computation as the uncached path
    init = program.func(f'{FR}:Fragmenter.__init__')
    a = component_expr(init)
    b = component_expr(target)
    ob(rep, 'SIB-clone', init.fq, 'cached mass components are computed as in fragment()', a is not None and a == b,
       f'{a}', f'Fragmenter.__init__ computes `{a}`, fragment() computes `{b}`', init.loc(), clause)


def component_expr(f: FuncInfo) -> Optional[str]:
    """normalised expression that produces the per-residue mass components (modulo `self.`)"""
    c = Canon(f.node, self_attrs=True)
    for n in walk_own(f.node):
        if isinstance(n, ast.Assign) and len(n.targets) == 1:
            t = norm_stmt(n.targets[0])
            if t in ('_mass_components', 'self.mass_components'):
                return c.text(n.value).replace('self.', '')
    return None


def builder_subsets(ctx, rep, clause):
    program = ctx.program
    fr = program.func(f'{FR}:fragment')
    # each builder gets the ion types of its own series (or filters them itself): an internal span built as a `b`
    # ion would be reported under the label of a terminal ion
    cfr = Canon(fr.node)
    for callee, series in (('_get_terminal_fragments', 'TERMINAL_ION_TYPES'), ('_get_internal_fragments', 'INTERNAL_ION_TYPES')):
        calls = [c_ for c_ in walk_own(fr.node) if isinstance(c_, ast.Call) and isinstance(c_.func, ast.Name) and
                 c_.func.id == callee]
        if not calls:
            raise AnalysisError(f'fragment(): call of {callee} not found')
        cf = program.func(f'{FR}:{callee}')
        own = {x.id for x in ast.walk(cf.node) if isinstance(x, ast.Name)}
        self_filter = series in own or (callee == '_get_terminal_fragments' and
                                        {'FORWARD_ION_TYPES', 'BACKWARD_ION_TYPES'} <= own)
        for c_ in calls:
            arg = c_.args[1] if len(c_.args) > 1 else next((kw.value for kw in c_.keywords if kw.arg == 'ion_types'), None)
            txt = cfr.text(arg) if arg is not None else '?'
            ob(rep, 'SIB-series', fr.fq, f'{callee} receives only the ion types of its series', series in txt or self_filter,
               f'filtered by {series}' if series in txt else 'the builder filters by itself',
               f'{callee} is handed `{norm_stmt(arg) if arg is not None else "?"}`, which is not restricted to '
               f'{series}, and does not restrict it itself: spans of this builder are also built for the ion types of '
               f'the other series and reported under their labels', fr.loc(c_), clause)


def series_routing(ctx, rep, clause):
    program = ctx.program
    t = rt.Tables(program)
    add_checks_local(rep, rt.series_partition_checks(t), clause)
    g = program.func(f'{FR}:get_number')
    tests = {}
    for n in walk_own(g.node):
        if isinstance(n, ast.If):
            body_assign = [s for s in n.body if isinstance(s, ast.Assign)]
            if body_assign:
                tests[norm_stmt(n.test)] = norm_stmt(body_assign[0].value)
    want = {'ion_type in FORWARD_ION_TYPES': 'end', 'ion_type in BACKWARD_ION_TYPES': 'len_sequence - start',
            'ion_type in INTERNAL_ION_TYPES': "f'{start}-{end}'", "ion_type == 'i'": 'start'}
    for k, v in want.items():
        ob(rep, 'KIND', g.fq, f'`{k}` -> number = {v}', tests.get(k) == v, 'series numbering',
           f'for `{k}` the number is `{tests.get(k)}`, expected `{v}` (prefix ions count residues up to the end of '
           f'the span, suffix ions from its start to the C-terminus)', g.loc(), clause)
    last = g.node.body[-2] if len(g.node.body) >= 2 else None
    has_raise = any(isinstance(x, ast.Raise) for x in ast.walk(g.node))
    ob(rep, 'EXH', g.fq, 'an unknown ion type raises', has_raise, 'else: raise', 'unknown ion types are numbered '
       'silently', g.loc(), clause)
    fr = program.func(f'{FR}:fragment')
    names = {x.id for x in ast.walk(fr.node) if isinstance(x, ast.Name)}
    ob(rep, 'SIB-series', fr.fq, 'routes ion types through TERMINAL_ION_TYPES / INTERNAL_ION_TYPES / i',
       {'TERMINAL_ION_TYPES', 'INTERNAL_ION_TYPES'} <= names and "'i' in ion_types" in ' '.join(
           norm_stmt(s) for s in fr.node.body), 'same series sets as get_number',
       'fragment() no longer routes on the series sets get_number dispatches on', fr.loc(), clause)
    builder_subsets(ctx, rep, clause)
    tf = program.func(f'{FR}:_get_terminal_fragments')
    ctf = Canon(tf.node)
    txt = ' '.join(ctf.text(s) for s in tf.node.body)
    ok = 'each(ion_types) in FORWARD_ION_TYPES' in txt and 'each(ion_types) in BACKWARD_ION_TYPES' in txt
    ob(rep, 'SIB-series', tf.fq, 'splits terminal types into FORWARD / BACKWARD', ok, 'prefix vs suffix spans',
       'terminal ion types are no longer split on FORWARD/BACKWARD', tf.loc(), clause)
    # forward ions get prefix spans, backward ions suffix spans
    fw = program.func(f'{FR}:_get_forward_fragments')
    bw = program.func(f'{FR}:_get_backward_fragments')
    ok = 'build_left_semi_spans' in ' '.join(norm_stmt(s) for s in fw.node.body) and \
         'build_right_semi_spans' in ' '.join(norm_stmt(s) for s in bw.node.body)
    ob(rep, 'SIB-series', fw.fq, 'forward ions use prefix (left) spans, backward ions suffix (right) spans', ok,
       'a/b/c grow from the N-terminus, x/y/z from the C-terminus', 'span builders are swapped or replaced', fw.loc(),
       clause)


def add_checks_local(rep, checks, clause):
    from .common import add_checks as _a
    _a(rep, checks, clause)


# R-STRIP -----------------------------------------------------------------------------------------------------
def slice_untouched_fields(ctx) -> Set[str]:
    program = ctx.program
    cls = program.cls(f'{PP}:ProFormaAnnotation')
    fields = {n.lstrip('_') for n in cls.field_names()}
    sl = program.func(f'{PP}:ProFormaAnnotation.slice')
    assigned = set()
    for n in walk_own(sl.node):
        if isinstance(n, ast.Assign):
            for t in n.targets:
                if isinstance(t, ast.Attribute) and isinstance(t.value, ast.Name):
                    # self, a copy of self, or an alias that is one or the other
                    assigned.add(t.attr.lstrip('_'))
    return fields - assigned


def strip_rule(ctx, rep, fq: str, clause: str, by_design=('isotope_mods', 'static_mods')):
    """before mass() is summed over one-residue pieces, every whole-peptide field that slicing copies to every
    piece and that mass() reads must be neutralised"""
    an, program = ctx.analyzer, ctx.program
    untouched = slice_untouched_fields(ctx)
    mass_reads = ret_tags(an, 'peptacular.mass_calc:mass')
    need = sorted((untouched & mass_reads) - set(by_design))
    if len(need) < 3:
        raise AnalysisError(f'R-STRIP: computed field set is implausibly small: {need}')
    f = program.func(fq)
    split_line = None
    for n in walk_own(f.node):
        if isinstance(n, ast.Call) and isinstance(n.func, ast.Attribute) and n.func.attr == 'split' and not n.args \
                and not isinstance(n.func.value, ast.Constant):
            split_line = n.order if split_line is None else min(split_line, n.order)
    if split_line is None:
        raise AnalysisError(f'{fq}: the per-residue split() was not found')
    txt_before = []
    popped = set()
    guarded = set()
    for n in walk_own(f.node):
        if isinstance(n, ast.Call) and isinstance(n.func, ast.Attribute) and n.func.attr.startswith('pop_') and \
                getattr(n, 'order', 0) <= split_line:
            popped.add(n.func.attr[len('pop_'):])
        if isinstance(n, ast.If) and getattr(n, 'order', 0) <= split_line and \
                any(isinstance(s, ast.Raise) for s in n.body):
            t = norm_stmt(n.test)
            if 'contains_sequence_ambiguity' in t:
                guarded |= {'unknown_mods', 'intervals'}
            for fld in need:
                if f'has_{fld}' in t or f'.{fld} is not None' in t:
                    guarded.add(fld)
    overridden = set()
    for n in walk_own(f.node):
        if isinstance(n, ast.Call) and isinstance(n.func, ast.Name) and n.func.id == 'mass':
            kws = {kw.arg: kw.value for kw in n.keywords}
            if isinstance(kws.get('charge'), ast.Constant) and kws['charge'].value == 0:
                overridden.add('charge')
            if isinstance(kws.get('ion_type'), ast.Constant) and kws['ion_type'].value != 'p':
                overridden.add('labile_mods')  # mass() counts labile modifications for the precursor only
    for fld in need:
        how = 'popped before the split' if fld in popped else 'guarded by a raise' if fld in guarded else \
            'overridden in the mass() call' if fld in overridden else None
        ob(rep, 'STRIP', fq, f'whole-peptide field {fld} is neutralised before per-residue masses are summed',
           how is not None, how or '',
           f'`{fld}` is copied by slice() to every one-residue piece and read by mass(), but {short(fq)} neither pops '
           f'it before split(), nor overrides it in the mass() call, nor rejects it: it is counted once per residue',
           f.loc(), clause, {'fields_required': need})
    # -- fields that slice() does not copy verbatim but whose content still reaches every piece ----------------------
    mass_f = program.func('peptacular.mass_calc:mass')
    sl = program.func(f'{PP}:ProFormaAnnotation.slice')
    before_split = [n for n in walk_own(f.node) if isinstance(n, ast.Call) and isinstance(n.func, ast.Attribute) and
                    getattr(n, 'order', 0) <= split_line]
    called = {n.func.attr for n in before_split}
    # (i) static rules: per-residue targets are right on every piece, but mass() applies the N-Term / C-Term targets
    #     to whatever annotation it is given -- i.e. to every one-residue piece
    terminal_targets = {c.args[0].value for c in walk_own(mass_f.node) if isinstance(c, ast.Call) and
                        isinstance(c.func, ast.Attribute) and c.func.attr == 'get' and c.args and
                        isinstance(c.args[0], ast.Constant) and c.args[0].value in ('N-Term', 'C-Term')}
    if 'static_mods' in untouched and terminal_targets:
        how = 'condensed into explicit modifications before the split' if 'condense_static_mods' in called else \
            'popped before the split' if 'pop_static_mods' in called else \
            'guarded by a raise' if 'static_mods' in guarded else None
        ob(rep, 'STRIP', fq, 'terminal targets of static rules are made explicit before per-residue masses are summed',
           how is not None, how or '',
           f'slice() copies static_mods to every one-residue piece and mass() applies the {sorted(terminal_targets)} '
           f'targets to any annotation it is given, but {short(fq)} neither condenses nor pops the static rules before '
           f'split(): a terminal static rule is counted once per residue (`<[10]@N-Term>PEPTIDE`: +10 on every piece)',
           f.loc(), clause)
    # (ii) interval modifications: slice() re-creates an interval, with the modifications of the source interval,
    #      in every piece that intersects it; mass() adds them for every interval it sees
    replicated = False
    for loop in walk_own(sl.node):
        if isinstance(loop, ast.For) and norm_stmt(loop.iter) in ('self.intervals', 'self._intervals'):
            for c in ast.walk(loop):
                if isinstance(c, ast.Call) and isinstance(c.func, ast.Name) and c.func.id == 'Interval':
                    kws = {kw.arg: kw.value for kw in c.keywords}
                    if 'mods' in kws and any(isinstance(x, ast.Attribute) and x.attr == 'mods' for x in ast.walk(kws['mods'])):
                        replicated = True
    if replicated and 'intervals' in mass_reads:
        site_ok = 'pop_intervals' in called or 'intervals' in guarded
        how = 'popped before the split' if 'pop_intervals' in called else 'guarded by a raise' if 'intervals' in guarded \
            else None
        if how is None:
            # the guard may sit in the callers: every caller rejects ambiguous sequences before the components are used
            callers = [g for g in program.all_functions() if g.fq != fq and any(
                isinstance(n, ast.Call) and isinstance(n.func, ast.Name) and n.func.id == f.name for n in walk_own(g.node))]

            def rejects(g):
                return any(isinstance(n, ast.If) and ('contains_sequence_ambiguity' in norm_stmt(n.test) or
                                                      'has_intervals' in norm_stmt(n.test)) and
                           any(isinstance(s_, ast.Raise) for s_ in n.body) for n in walk_own(g.node))

            def delegates(g):
                # a constructor that only caches the components: every other public method of the class hands them to
                # a function that rejects
                if g.cls is None or g.name != '__init__':
                    return False
                others = [m for n_, m in g.cls.methods.items() if not n_.startswith('_')]
                return bool(others) and all(any(isinstance(n, ast.Call) and isinstance(n.func, ast.Name) and
                                                program.find_func(f'{f.module.name}:{n.func.id}') is not None and
                                                rejects(program.find_func(f'{f.module.name}:{n.func.id}'))
                                                for n in walk_own(m.node)) for m in others)
            if callers and all(rejects(g) or delegates(g) for g in callers):
                how = f'rejected by every caller ({", ".join(sorted(short(g.fq) for g in callers))})'
        ob(rep, 'STRIP', fq, 'interval modifications are neutralised before per-residue masses are summed',
           how is not None, how or '',
           f'slice() gives every one-residue piece inside an interval a copy of the interval with its modifications and '
           f'mass() adds them, but {short(fq)} neither pops the intervals before split() nor rejects them: an interval '
           f'modification is counted once per residue of the interval (`PE(PT)[Phospho]IDE`: two phosphates)',
           f.loc(), clause)
    # (iii) isotope labels: mass(piece) for a whole-peptide ion type adds the terminal groups (water for 'p') to every
    #       piece, and a global label relabels them on every piece; only ion_type='n' has no terminal group
    if 'isotope_mods' in untouched:
        ion_types = []
        for n in walk_own(f.node):
            if isinstance(n, ast.Call) and isinstance(n.func, ast.Name) and n.func.id == 'mass':
                kws = {kw.arg: kw.value for kw in n.keywords}
                it = kws.get('ion_type')
                ion_types.append(it.value if isinstance(it, ast.Constant) else 'p' if it is None else '?')
        neutral = bool(ion_types) and all(t == 'n' for t in ion_types)
        how = "per-piece masses are taken with ion_type='n' (no terminal group)" if neutral else \
            'popped before the split' if 'pop_isotope_mods' in called else None
        ob(rep, 'STRIP', fq, 'a global isotope label cannot reach terminal groups once per residue', how is not None,
           how or '', f'{short(fq)} sums mass(piece) with ion type(s) {sorted(set(ion_types))} while the isotope label '
           f'stays on every piece: the labelled terminal group (water for a precursor) is counted once per residue '
           f'instead of once per peptide (`<18O>PEPTIDE`: seven labelled waters)', f.loc(), clause)
    return need


ALL_MOD_FIELDS = ('isotope_mods', 'static_mods', 'labile_mods', 'unknown_mods', 'nterm_mods', 'cterm_mods',
                  'internal_mods', 'intervals', 'charge', 'charge_adducts')


def shortcut_rule(ctx, rep, fq: str, clause: str):
    """a return of the per-residue component function that does not go through mass() ignores every modification; it
    is sound only under guards that exclude every modification field still present on the object (fields popped
    before are gone; has_mods() covers all)"""
    from ..guards import dominating_tests, preceding_exits
    program = ctx.program
    f = program.func(fq)
    n = 0
    for ret in [x for x in walk_own(f.node) if isinstance(x, ast.Return) and x.value is not None]:
        if any(isinstance(c, ast.Call) and isinstance(c.func, ast.Name) and c.func.id == 'mass' for c in ast.walk(ret.value)):
            continue
        cvals = Canon(f.node)
        rv = cvals.resolve(ret.value)
        if any(isinstance(c, ast.Call) and isinstance(c.func, ast.Name) and c.func.id == 'mass' for c in ast.walk(rv)):
            continue
        n += 1
        popped = {c.func.attr[len('pop_'):] for c in walk_own(f.node) if isinstance(c, ast.Call) and
                  isinstance(c.func, ast.Attribute) and c.func.attr.startswith('pop_') and c.order < ret.order}
        popped = {('charge' if p == 'charge' else p) for p in popped}
        remain = [fld for fld in ALL_MOD_FIELDS if fld not in popped]
        tests = list(dominating_tests(f.node, ret)) + [(t, False) for t in preceding_exits(f.node.body, ret)]
        mentioned = set()
        for t, _pol in tests:
            for x in ast.walk(cvals.resolve(t)):
                name = x.attr if isinstance(x, ast.Attribute) else None
                if name is None:
                    continue
                if name == 'has_mods':
                    mentioned |= set(ALL_MOD_FIELDS)
                for fld in ALL_MOD_FIELDS:
                    if name in (fld, '_' + fld, 'has_' + fld, 'has_' + fld.rstrip('s')):
                        mentioned.add(fld)
        missing = [fld for fld in remain if fld not in mentioned]
        ob(rep, 'STRIP', fq, f'shortcut `{norm_stmt(ret)[:60]}` is taken only when no modification is left', not missing,
           f'guards mention {sorted(mentioned)}',
           f'`{norm_stmt(ret)[:80]}` returns plain residue masses without consulting {missing}: a peptide carrying '
           f'such modifications gets fragment masses that ignore them (the general path weighs them through mass())',
           f.loc(ret), clause)
    return n


def label_aware_offsets(ctx, rep, clause):
    """the per-residue components keep a global isotope label (their atoms are relabelled by mass()), but the ion-type
    offset (-CO for a, +NH3 for c, +H2O for y, ...) is added afterwards by adjust_mass from the unlabelled tables: for
    a labelled peptide the atoms gained or lost at the cleavage carry the label too, so the fragmenter must either
    take label-aware offsets or refuse labels"""
    program = ctx.program
    t = rt.Tables(program)
    comp = t['NEUTRAL_FRAGMENT_COMPOSITION_ADJUSTMENTS']
    labelable = sorted({el for row in comp.values() for el, cnt in row.items() if cnt and el in ('C', 'N', 'O', 'H', 'S')})
    site = program.func(f'{FR}:_get_mass_components')
    keeps_label = not any(isinstance(n, ast.Call) and isinstance(n.func, ast.Attribute) and
                          n.func.attr == 'pop_isotope_mods' for n in walk_own(site.node))
    aware = False
    for f in program.all_functions():
        if f.module.name != FR:
            continue
        for n in walk_own(f.node):
            if isinstance(n, ast.Attribute) and n.attr in ('isotope_mods', 'has_isotope_mods', '_isotope_mods'):
                aware = True
    ob(rep, 'STRIP', BUILD, 'ion-type offsets of a labelled peptide are label-aware', aware or not keeps_label or
       not labelable, 'the fragmenter looks at the isotope label',
       f'the mass components keep the global isotope label, but the ion-type offsets (which gain or lose '
       f'{labelable}) are added from the unlabelled tables and nothing in fragmentation.py looks at the label: '
       f'fragment("<13C>PEPTIDE", "a", 1) is 1.00335 heavier than mass() of the same ion, c/z differ for <15N>, '
       f'y for <18O>', program.func(BUILD).loc(), clause)


def short(fq):
    return fq.split(':')[1]


def _fragment_anchor(ctx):
    """fragment() itself (after reading helpers through) calls the three series builders: every rule below that speaks
    about fragment() reads them there.  When the calls sit in a worker that could not be read through, those rules have
    nothing to judge -- not read, rather than a string of verdicts about an empty function."""
    fr = ctx.program.func(f'{FR}:fragment')
    called = {n.func.id for n in walk_own(fr.node) if isinstance(n, ast.Call) and isinstance(n.func, ast.Name)}
    missing = {'_get_terminal_fragments', '_get_internal_fragments', '_get_immonium_fragments'} - called
    if missing:
        raise AnalysisError(f'fragment(): call of {sorted(missing)[0]} not found (the series builders are not called from '
                            f'fragment() in a form that is read)')


def check(ctx, rep):
    rep.explanation = EXPLANATION
    an, program = ctx.analyzer, ctx.program
    _fragment_anchor(ctx)
    projections(ctx, rep, 'C04a')
    loss_combinations(ctx, rep, 'C04a')
    loss_sequence(ctx, rep, 'C04a')
    exhaustive(ctx, rep, 'C04b')
    fragmenter_projection(ctx, rep, 'C04c')
    callers = {f.fq for f in program.all_functions() if f.module.name == FR}
    n = add_fwd(rep, forwarding(an, program, ['monoisotopic', 'return_type', 'max_losses', 'losses', 'isotopes',
                                              'charges', 'ion_types', 'water_loss', 'ammonia_loss'],
                                callers=callers), 'C04c')
    rep.floor('FWD', 'forwarding sites in fragmentation.py', n, 40)
    add_ret(rep, param_reaches_returns(an, program, 'peptacular.mass_calc:mass',
                                       ['loss', 'isotope', 'charge', 'ion_type']), 'C04d')
    from . import C05
    C05.build_fragments_bindings(ctx, rep, 'C04d')
    n2 = add_fwd(rep, forwarding(an, program, ['isotope', 'loss', 'charge', 'ion_type', 'charge_adducts'],
                                 callers={'peptacular.mass_calc:mass', 'peptacular.mass_calc:mz'}), 'C04d')
    rep.floor('FWD', 'forwarding sites from mass()/mz() into adjust_mass', n2, 4)
    series_routing(ctx, rep, 'C04e')
    from . import C20 as _c20
    _c20.has_mods_coverage(ctx, rep, 'C04f')
    # R-STRIP applies to whichever function sums mass() over split() pieces
    sites = [f for f in program.all_functions() if f.module.name == FR and
             any(isinstance(n, ast.Call) and isinstance(n.func, ast.Attribute) and n.func.attr == 'split' and not n.args
                 for n in walk_own(f.node)) and
             any(isinstance(n, ast.Call) and isinstance(n.func, ast.Name) and n.func.id == 'mass'
                 for n in walk_own(f.node))]
    rep.floor('STRIP', 'functions summing mass() over split() pieces in fragmentation.py', len(sites), 1)
    for f in sites:
        strip_rule(ctx, rep, f.fq, 'C04f')
        shortcut_rule(ctx, rep, f.fq, 'C04f')
    label_aware_offsets(ctx, rep, 'C04f')
    from .common import memo_rule
    memo_rule(ctx, rep, 'C04g', ('peptacular.fragmentation', 'peptacular.mass_calc'))
