"""C17 -- spectrum matching pairs each fragment with exactly the peaks in tolerance (structural conditions)."""
import ast

from ..loader import AnalysisError, norm_stmt, walk_own
from ..rules_flow import forwarding
from .common import add_fwd
from .common import check as ob
from ..canon import Canon, localise, each, unpacked

EXPLANATION = (
    'Decides: (a) every attribute read on a Fragment/FragmentMatch (or any repository class) in score.py resolves '
    'to a field, property or method of that class -- necessary for the matched-intensity clause to produce a value '
    'at all; (b) match_spectra handles exactly the three modes it validates, get_fragment_matches validates the '
    'same set, and tolerance_type is validated against the two values the window computation distinguishes; '
    '(c) tolerance_value, tolerance_type, mode, intensity_spectra are forwarded get_fragment_matches -> '
    'match_spectra -> get_matched_indices and binomial_score -> get_matched_indices; the peaks are re-ordered '
    'together with their intensities; (d) the caller\'s fragment list is not reordered (C08). Not decided: '
    'correctness of the two-pointer sweep, tie handling, inclusiveness of bounds, fraction in [0,1] (value-level).')

SC = 'peptacular.score'


def attribute_resolution(ctx, rep, clause, modules=(SC,)):
    an, program = ctx.analyzer, ctx.program
    n_reads = 0
    bad = {}
    for (fq, spec), evs in an.events.items():
        if spec != ():
            continue
        f = program.find_func(fq)
        if f is None or f.module.name not in modules:
            continue
        for ev in evs:
            if ev[0] == 'unknown_attr':
                _k, clsfq, attr, node = ev
                bad[(fq, clsfq, attr, getattr(node, 'lineno', 0))] = (f, node)
    # count typed attribute reads for the floor
    for f in program.all_functions():
        if f.module.name in modules:
            for node in walk_own(f.node):
                if isinstance(node, ast.Attribute) and isinstance(node.ctx, ast.Load):
                    n_reads += 1
    for (fq, clsfq, attr, _ln), (f, node) in sorted(bad.items(), key=lambda kv: kv[0]):
        ob(rep, 'CALL-attr', fq, f'attribute `.{attr}` on a {clsfq.split(":")[1]}', False, '',
           f'`{norm_stmt(node)}`: {clsfq.split(":")[1]} has no field, property or method `{attr}` -- any execution of '
           f'this expression raises AttributeError', f.loc(node), clause)
    if not bad:
        rep.ob('CALL-attr', f'{",".join(modules)}: {n_reads} attribute reads', '', True,
               'every attribute read on a value of a repository class resolves to a member of that class', True, clause)
    rep.floor('CALL-attr', f'attribute reads in {",".join(modules)}', n_reads, 60)


def _const_list(e):
    if isinstance(e, (ast.List, ast.Tuple, ast.Set)) and all(isinstance(x, ast.Constant) for x in e.elts):
        return [x.value for x in e.elts]
    return None


def validated_values(f, param: str):
    """values v in `if <param> not in [v...]: raise`"""
    for node in walk_own(f.node):
        if isinstance(node, ast.If) and isinstance(node.test, ast.Compare) and len(node.test.ops) == 1 and \
                isinstance(node.test.ops[0], ast.NotIn) and norm_stmt(node.test.left) == param and \
                any(isinstance(s, ast.Raise) for s in node.body):
            vals = _const_list(node.test.comparators[0])
            if vals is not None:
                return set(vals), node
    return None, None


def handled_values(f, param: str, program=None):
    out = set()
    nodes = list(walk_own(f.node))
    if program is not None:   # the private helpers of the module that f calls take part in the dispatch
        for x in list(nodes):
            if isinstance(x, ast.Call) and isinstance(x.func, ast.Name) and x.func.id.startswith('_'):
                g = program.find_func(f'{f.module.name}:{x.func.id}')
                if g is not None and g.fq != f.fq:
                    nodes += list(walk_own(g.node))
    for node in nodes:
        # a dispatch table indexed by the parameter: {'a': .., 'b': ..}[param] / .get(param)
        tbl = None
        if isinstance(node, ast.Subscript) and norm_stmt(node.slice) == param:
            tbl = node.value
        if isinstance(node, ast.Call) and isinstance(node.func, ast.Attribute) and node.func.attr == 'get' and node.args \
                and norm_stmt(node.args[0]) == param:
            tbl = node.func.value
        if isinstance(tbl, ast.Dict):
            out |= {k.value for k in tbl.keys if isinstance(k, ast.Constant)}
        t = node.test if isinstance(node, (ast.If, ast.IfExp)) else None
        if isinstance(t, ast.Compare) and len(t.ops) == 1 and isinstance(t.ops[0], ast.Eq) and \
                norm_stmt(t.left) == param and isinstance(t.comparators[0], ast.Constant):
            out.add(t.comparators[0].value)
    return out


def mode_exhaustive(ctx, rep, clause):
    program = ctx.program
    ms = program.func(f'{SC}:match_spectra')
    gf = program.func(f'{SC}:get_fragment_matches')
    gi = program.func(f'{SC}:get_matched_indices')
    v_ms, n1 = validated_values(ms, 'mode')
    v_gf, n2 = validated_values(gf, 'mode')
    h_ms = handled_values(ms, 'mode')
    if v_ms is None or v_gf is None:
        raise AnalysisError('mode validation not found in match_spectra / get_fragment_matches')
    if not h_ms:
        raise AnalysisError('match_spectra: no test of `mode` against a literal (and no table keyed by it) was found: the '
                            'dispatch on the mode is written in a form the rule does not read')
    ob(rep, 'EXH', ms.fq, f'match_spectra handles exactly the modes it validates {sorted(v_ms)}', h_ms == v_ms,
       'one branch per validated mode', f'validates {sorted(v_ms)} but handles {sorted(h_ms)}: a validated mode '
       f'without a branch silently produces no matches', ms.loc(n1), clause)
    ob(rep, 'EXH', gf.fq, 'get_fragment_matches validates the same set of modes', v_gf == v_ms, f'{sorted(v_gf)}',
       f'{sorted(v_gf)} vs {sorted(v_ms)}', gf.loc(n2), clause)
    for f in (ms, gi):
        v, node = validated_values(f, 'tolerance_type')
        if v is None:
            raise AnalysisError(f'{f.fq}: tolerance_type validation not found')
        ob(rep, 'EXH', f.fq, 'tolerance_type is validated against {ppm, th}', v == {'ppm', 'th'}, f'{sorted(v)}',
           f'validates {sorted(v)}', f.loc(node), clause)
    h = handled_values(gi, 'tolerance_type', program)
    ob(rep, 'EXH', gi.fq, 'the window computation distinguishes one of the two validated types, the other is the '
       'default', len(h) == 1 and h <= {'ppm', 'th'}, f'{sorted(h)}', f'distinguishes {sorted(h)}', gi.loc(), clause)
    # peaks are re-ordered together with their intensities
    cgf = Canon(gf.node)
    txt = ' '.join(cgf.text(s) for s in gf.node.body)
    ok = 'zip(*sorted(zip(mz_spectra, intensity_spectra), key=lambda arg0: arg0[0]))' in txt
    if not ok:
        # the same sort written on copies of the two parameters
        def origin(e):
            seen = set()
            while isinstance(e, ast.Name) and e.id not in ('mz_spectra', 'intensity_spectra') and e.id not in seen:
                seen.add(e.id)
                firsts = [a for a in walk_own(gf.node) if isinstance(a, ast.Assign) and isinstance(a.targets[0], ast.Name)
                          and a.targets[0].id == e.id]
                if not firsts:
                    break
                e = min(firsts, key=lambda a: a.order).value
            return e.id if isinstance(e, ast.Name) else None
        for n in walk_own(gf.node):
            if isinstance(n, ast.Call) and norm_stmt(n.func) == 'zip' and len(n.args) == 1 and \
                    isinstance(n.args[0], ast.Starred) and isinstance(n.args[0].value, ast.Call) and \
                    norm_stmt(n.args[0].value.func) == 'sorted' and n.args[0].value.args:
                srt = n.args[0].value
                inner = srt.args[0]
                key = next((kw.value for kw in srt.keywords if kw.arg == 'key'), None)
                by_first = key is None or (isinstance(key, ast.Lambda) and isinstance(key.body, ast.Subscript) and
                                           isinstance(key.body.slice, ast.Constant) and key.body.slice.value == 0)
                if isinstance(inner, ast.Call) and norm_stmt(inner.func) == 'zip' and len(inner.args) == 2 and by_first and \
                        [origin(a) for a in inner.args] == ['mz_spectra', 'intensity_spectra']:
                    ok = True
    ob(rep, 'SIB-order', gf.fq, 'peaks and intensities are sorted together by m/z', ok,
       'one sort over (mz, intensity) pairs', 'peaks are no longer sorted together with their intensities: matched '
       'intensities would belong to other peaks', gf.loc(), clause)


def match_indexing(ctx, rep, clause):
    """match indices refer to positions of the m/z list handed to match_spectra: every FragmentMatch must take its
    fragment from the list that m/z list was derived from (the sorted one), on every branch"""
    program = ctx.program
    f = program.func(f'{SC}:get_fragment_matches')
    src = None
    for n in walk_own(f.node):
        if isinstance(n, ast.Assign) and isinstance(n.value, ast.ListComp) and '.mz' in norm_stmt(n.value.elt) and \
                isinstance(n.targets[0], ast.Name):
            spectrum_var = n.targets[0].id
            src = norm_stmt(n.value.generators[0].iter)
    if src is None:
        # ... or the list is built in place as the `fragments` argument of match_spectra
        c0 = Canon(f.node)
        for n in walk_own(f.node):
            if isinstance(n, ast.Call) and norm_stmt(n.func) == 'match_spectra':
                arg = n.args[0] if n.args else next((kw.value for kw in n.keywords if kw.arg == 'fragments'), None)
                arg = c0.resolve(arg) if arg is not None else None
                if isinstance(arg, (ast.ListComp, ast.GeneratorExp)) and '.mz' in norm_stmt(arg.elt):
                    src = norm_stmt(arg.generators[0].iter)
    if src is None:
        raise AnalysisError('get_fragment_matches: theoretical m/z list not found')
    k = 0
    cfm = Canon(f.node)
    for n in walk_own(f.node):
        if isinstance(n, ast.Call) and norm_stmt(n.func) == 'FragmentMatch' and n.args:
            k += 1
            a = n.args[0]
            base = norm_stmt(a.value) if isinstance(a, ast.Subscript) else '?'
            if isinstance(a, ast.Name):
                # a loop variable drawn from zip(<list>, <match indices>): the element of <list> at the index's position
                for kind, payload in cfm.bindings.get(a.id, []):
                    it = payload[0] if kind == 'each' else None
                    if isinstance(it, ast.Call) and norm_stmt(it.func) == 'zip' and tuple(payload[1]) == (0,) and it.args:
                        base = norm_stmt(it.args[0])
            ob(rep, 'SIB-index', f.fq, f'`{norm_stmt(n)[:70]}` indexes the list the m/z values were taken from',
               base == src, f'{base}', f'the match index refers to positions of `{src}` but the fragment is taken from '
               f'`{base}`: peaks are attached to the wrong fragments whenever the two lists are ordered differently',
               f.loc(n), clause)
    rep.floor('SIB-index', 'FragmentMatch constructions', k, 1)
    srt = [n for n in walk_own(f.node) if isinstance(n, ast.Assign) and norm_stmt(n.targets[0]) == src and
           isinstance(n.value, ast.Call) and norm_stmt(n.value.func) == 'sorted' and 'arg0.mz' in Canon(f.node).text(n.value)]
    ob(rep, 'SIB-index', f.fq, f'`{src}` is the list sorted by m/z', len(srt) == 1, 'sorted(..., key=lambda x: x.mz)',
       'the list the theoretical m/z values come from is not sorted by m/z (get_matched_indices needs sorted input)',
       f.loc(), clause)


def closest_metric(ctx, rep, clause):
    """in 'closest' mode the minimised quantity is the absolute m/z distance |theoretical - observed| of each
    candidate, computed once (a per-candidate rescaling changes which peak is the closest)"""
    program = ctx.program
    f = localise(program.func(f'{SC}:match_spectra'),
                 {'i': each(lambda t: t.startswith('enumerate(get_matched_indices('), (0,)),
                  'indexes': each(lambda t: t.startswith('enumerate(get_matched_indices('), (1,))})
    blk = None
    for n in walk_own(f.node):
        if isinstance(n, ast.If) and norm_stmt(n.test) == "mode == 'closest'":
            blk = n
    if blk is None:
        raise AnalysisError("match_spectra: branch for mode == 'closest' not found")
    mins = [c for st in blk.body for c in ast.walk(st) if isinstance(c, ast.Call) and norm_stmt(c.func) == 'min' and c.args]
    if not mins or not isinstance(mins[0].args[0], ast.Name):
        raise AnalysisError("match_spectra: min(<distance list>) not found in the 'closest' branch")
    var = mins[0].args[0].id
    assigns = [st for st in ast.walk(blk) if isinstance(st, ast.Assign) and norm_stmt(st.targets[0]) == var]
    ok = False
    why = f'{len(assigns)} assignment(s) to {var}'
    if len(assigns) == 1 and isinstance(assigns[0].value, ast.ListComp):
        lc = assigns[0].value
        idx = norm_stmt(lc.generators[0].target)
        e = lc.elt
        if isinstance(e, ast.Call) and norm_stmt(e.func) == 'abs' and isinstance(e.args[0], ast.BinOp) and \
                isinstance(e.args[0].op, ast.Sub):
            ops = {norm_stmt(e.args[0].left), norm_stmt(e.args[0].right)}
            ok = ops == {'fragments[i]', f'mz_spectra[{idx}]'}
            why = norm_stmt(e)
    ob(rep, 'SIB-metric', f.fq, "'closest' minimises |fragment m/z - peak m/z| computed once per candidate", ok, why,
       f"the list minimised in 'closest' mode is not simply abs(fragments[i] - mz_spectra[idx]) ({why}): a rescaling that "
       f"differs per candidate can make a farther peak win", f.loc(blk), clause)
    lg = None
    for n in walk_own(f.node):
        if isinstance(n, ast.If) and norm_stmt(n.test) == "mode == 'largest'":
            lg = n
    cl = Canon(f.node)
    maxes = [norm_stmt(cl.resolve(c_.args[0])) for s_ in (lg.body if lg is not None else []) for c_ in ast.walk(s_)
             if isinstance(c_, ast.Call) and norm_stmt(c_.func) == 'max' and c_.args]
    # the position of the chosen peak is found *inside the window* and re-based by the window start: an index taken in
    # the whole list finds the first equal value anywhere (ties outside the window)
    for mode_name, blk_ in (('closest', blk), ('largest', lg)):
        apps = [c_ for s_ in (blk_.body if blk_ is not None else []) for c_ in ast.walk(s_)
                if isinstance(c_, ast.Call) and isinstance(c_.func, ast.Attribute) and c_.func.attr == 'append' and c_.args]
        ok_idx = False
        shown = ''
        if len(apps) == 1:
            v = cl.resolve(apps[0].args[0])
            shown = norm_stmt(v)[:110]
            if isinstance(v, ast.BinOp) and isinstance(v.op, ast.Add):
                for a_, b_ in ((v.left, v.right), (v.right, v.left)):
                    if norm_stmt(a_) == 'indexes[0]' and isinstance(b_, ast.Call) and isinstance(b_.func, ast.Attribute) \
                            and b_.func.attr == 'index' and b_.args:
                        recv = norm_stmt(b_.func.value)
                        inner = b_.args[0]
                        # <window list>.index(min|max(<same window list>))
                        if isinstance(inner, ast.Call) and norm_stmt(inner.func) in ('min', 'max') and inner.args and \
                                norm_stmt(inner.args[0]) == recv and 'indexes[0]' in recv and 'indexes[1]' in recv:
                            ok_idx = True
        ob(rep, 'SIB-metric', f.fq, f"'{mode_name}' locates the chosen peak inside the window and re-bases it by the window "
           f"start", ok_idx, 'indexes[0] + <window>.index(best(<window>))',
           f"in mode '{mode_name}' the reported index is `{shown}`: it is not the position inside the window plus the "
           f"window start, so a peak outside the tolerance window (an equal value elsewhere in the list) can be returned",
           f.loc(blk_) if blk_ is not None else f.loc(), clause)
    ob(rep, 'SIB-metric', f.fq, "'largest' takes the maximum intensity inside the window",
       maxes == ['intensity_spectra[indexes[0]:indexes[1]]'], 'max over the window slice',
       "the 'largest' branch no longer maximises the intensities of exactly the window", f.loc(lg) if lg is not None
       else f.loc(), clause)


def window_bounds(ctx, rep, clause):
    """the tolerance window of a theoretical value is the closed interval [mz - off, mz + off]: an observed peak is
    skipped only when strictly below the lower bound and taken while less than or equal to the upper bound; two
    closed windows are disjoint only when one lower bound is strictly greater than the other upper bound.  Every
    comparison in get_matched_indices that involves a window bound is classified by the roles of its operands
    (lower bound / upper bound / observed peak), roles being propagated through plain copies"""
    program = ctx.program
    f = program.func(f'{SC}:get_matched_indices')
    from ..canon import helper_inliner
    c = Canon(f.node, inliner=helper_inliner(program, SC))
    role = {}
    offset_names = set()
    changed = True
    rounds = 0
    while changed and rounds < 6:
        changed = False
        rounds += 1
        for name in c.order:
            if not c.is_local(name):
                continue
            for kind, payload in c.bindings[name]:
                if kind == 'unpack' and len(payload[1]) == 1 and isinstance(payload[1][0], int):
                    v = c.resolve(ast.Name(id=name, ctx=ast.Load()))   # lower, upper = helper(...)
                elif kind == 'assign':
                    v = payload
                else:
                    continue
                r = None
                if isinstance(v, ast.BinOp) and isinstance(v.op, (ast.Sub, ast.Add)) and \
                        ('tolerance' in norm_stmt(c.resolve(v.right))):
                    r = 'lower' if isinstance(v.op, ast.Sub) else 'upper'
                elif isinstance(v, ast.Name) and v.id in role:
                    r = role[v.id]
                if r is not None and role.get(name) != r:
                    role[name] = r
                    changed = True
    if set(role.values()) != {'lower', 'upper'}:
        raise AnalysisError('get_matched_indices: lower / upper window bounds (mz -/+ tolerance offset) not recognised')

    def kind_of(e):
        if isinstance(e, ast.Name) and e.id in role:
            return role[e.id]
        if isinstance(e, ast.Subscript) and norm_stmt(e.value) in ('mz_spectrum2', 'mz_spectrum1'):
            return 'peak'
        return None
    flip = {ast.Lt: ast.Gt, ast.Gt: ast.Lt, ast.LtE: ast.GtE, ast.GtE: ast.LtE}
    n = 0
    for x in walk_own(f.node):
        if not (isinstance(x, ast.Compare) and len(x.ops) == 1 and type(x.ops[0]) in flip):
            continue
        a, b, op = kind_of(x.left), kind_of(x.comparators[0]), type(x.ops[0])
        if a is None or b is None:
            continue
        if (a, b) in (('lower', 'peak'), ('upper', 'peak'), ('upper', 'lower')):
            a, b, op = b, a, flip[op]
        n += 1
        if (a, b) == ('peak', 'lower'):
            ok, want = op in (ast.Lt, ast.GtE), 'peak < lower (skip) / peak >= lower (inside)'
        elif (a, b) == ('peak', 'upper'):
            ok, want = op in (ast.LtE, ast.Gt), 'peak <= upper (inside) / peak > upper (past)'
        elif (a, b) == ('lower', 'upper'):
            ok, want = op in (ast.Gt, ast.LtE), 'lower > other upper (disjoint) / lower <= other upper (touching or overlapping)'
        else:
            n -= 1
            continue
        sym = {ast.Lt: '<', ast.Gt: '>', ast.LtE: '<=', ast.GtE: '>='}[op]
        ob(rep, 'KIND', f.fq, f'comparison #{n} `{a} {sym} {b}` keeps the window bounds inclusive', ok, want,
           f'`{norm_stmt(x)}` puts equality on the wrong side of a closed window ({want}): a peak or a neighbouring '
           f'window that sits exactly on the bound is treated as outside', f.loc(x), clause)
    rep.floor('KIND', 'comparisons against window bounds in get_matched_indices', n, 2)


def peak_identity(ctx, rep, clause):
    """get_matched_intensity_percentage counts every matched *peak* once: matches are grouped by a field of the
    observed peak (FragmentMatch.mz), never by something derived from the theoretical fragment (several fragments can
    match one peak, one fragment several peaks)"""
    program = ctx.program
    f = program.func(f'{SC}:get_matched_intensity_percentage')
    fm = program.cls(f'{SC}:FragmentMatch')
    fields = set(fm.field_names())
    comps = [x for x in walk_own(f.node) if isinstance(x, ast.DictComp) and norm_stmt(x.generators[0].iter) == 'fragment_matches']
    if len(comps) != 1:
        raise AnalysisError('get_matched_intensity_percentage: the grouping of the matches was not found')
    key = comps[0].key
    reads = set()
    if isinstance(key, ast.Attribute):
        attr = key.attr
        if attr in fields:
            reads = {attr}
        elif attr in fm.methods:
            reads = {y.attr for y in ast.walk(fm.methods[attr].node) if isinstance(y, ast.Attribute) and
                     norm_stmt(y.value) == 'self'}
    ob(rep, 'SIB-index', f.fq, 'matched peaks are identified by the observed m/z', reads == {'mz'}, f'key reads {sorted(reads)}',
       f'matches are grouped by `{norm_stmt(key)}`, which reads {sorted(reads) or "?"} of the match: grouping by anything '
       f'of the theoretical fragment counts a peak matched by two fragments twice (fraction > 1) and drops peaks '
       f'matched by the same fragment', f.loc(comps[0]), clause)


def check(ctx, rep):
    rep.explanation = EXPLANATION
    an, program = ctx.analyzer, ctx.program
    # generic per-function rules first: they have a verdict even where a shape-reading rule below says 'not read'
    from .common import shared_rows_rule, value_keyed_table_rule
    shared_rows_rule(ctx, rep, 'C17d', (SC,))
    value_keyed_table_rule(ctx, rep, 'C17d', (SC,))
    attribute_resolution(ctx, rep, 'C17a')
    mode_exhaustive(ctx, rep, 'C17b')
    match_indexing(ctx, rep, 'C17c')
    closest_metric(ctx, rep, 'C17b')
    window_bounds(ctx, rep, 'C17a')
    peak_identity(ctx, rep, 'C17d')
    callers = {f.fq for f in program.all_functions() if f.module.name == SC}
    n = add_fwd(rep, forwarding(an, program, ['tolerance_value', 'tolerance_type', 'mode', 'intensity_spectra'],
                                callers=callers), 'C17c')
    rep.floor('FWD', 'forwarding sites in score.py', n, 8)
    s = an.summaries.get((f'{SC}:get_fragment_matches', ()))
    ob(rep, 'EFF-mutates-argument', f'{SC}:get_fragment_matches', 'the caller\'s lists are not reordered',
       not s.mutates, 'sorted copies', f'writes parameter index(es) {sorted(s.mutates)}',
       program.func(f'{SC}:get_fragment_matches').loc(), 'C17d')
