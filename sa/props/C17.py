"""C17 -- spectrum matching pairs each fragment with exactly the peaks in tolerance (structural conditions)."""
import ast

from ..loader import AnalysisError, norm_stmt, walk_own
from ..rules_flow import forwarding
from .common import add_fwd
from .common import check as ob

EXPLANATION = (
    'Decides: (a) every attribute read on a Fragment/FragmentMatch (or any repository class) in score.py resolves '
    'to a field, property or method of that class -- necessary for the matched-intensity clause to produce a value '
    'at all; (b) match_spectra handles exactly the three modes it validates, get_fragment_matches validates the '
    'same set, and tolerance_type is validated against the two values the window computation distinguishes; '
    '(c) tolerance_value, tolerance_type, mode, intensity_spectra are forwarded get_fragment_matches -> '
    'match_spectra -> get_matched_indices and binomial_score -> get_matched_indices; the peaks are re-ordered '
    'together with their intensities; (d) the caller\'s fragment list is not reordered (C08). Not decided: '
    'correctness of the two-pointer sweep, tie handling, inclusiveness of bounds, fraction in [0,1] (value-level).')

SC = 'peptacular.score'


def attribute_resolution(ctx, rep, clause, modules=(SC,)):
    an, program = ctx.analyzer, ctx.program
    n_reads = 0
    bad = {}
    for (fq, spec), evs in an.events.items():
        if spec != ():
            continue
        f = program.find_func(fq)
        if f is None or f.module.name not in modules:
            continue
        for ev in evs:
            if ev[0] == 'unknown_attr':
                _k, clsfq, attr, node = ev
                bad[(fq, clsfq, attr, getattr(node, 'lineno', 0))] = (f, node)
    # count typed attribute reads for the floor
    for f in program.all_functions():
        if f.module.name in modules:
            for node in walk_own(f.node):
                if isinstance(node, ast.Attribute) and isinstance(node.ctx, ast.Load):
                    n_reads += 1
    for (fq, clsfq, attr, _ln), (f, node) in sorted(bad.items(), key=lambda kv: kv[0]):
        ob(rep, 'CALL-attr', fq, f'attribute `.{attr}` on a {clsfq.split(":")[1]}', False, '',
           f'`{norm_stmt(node)}`: {clsfq.split(":")[1]} has no field, property or method `{attr}` -- any execution of '
           f'this expression raises AttributeError', f.loc(node), clause)
    if not bad:
        rep.ob('CALL-attr', f'{",".join(modules)}: {n_reads} attribute reads', '', True,
               'every attribute read on a value of a repository class resolves to a member of that class', True, clause)
    rep.floor('CALL-attr', f'attribute reads in {",".join(modules)}', n_reads, 60)


def _const_list(e):
    if isinstance(e, (ast.List, ast.Tuple, ast.Set)) and all(isinstance(x, ast.Constant) for x in e.elts):
        return [x.value for x in e.elts]
    return None


def validated_values(f, param: str):
    """values v in `if <param> not in [v...]: raise`"""
    for node in walk_own(f.node):
        if isinstance(node, ast.If) and isinstance(node.test, ast.Compare) and len(node.test.ops) == 1 and \
                isinstance(node.test.ops[0], ast.NotIn) and norm_stmt(node.test.left) == param and \
                any(isinstance(s, ast.Raise) for s in node.body):
            vals = _const_list(node.test.comparators[0])
            if vals is not None:
                return set(vals), node
    return None, None


def handled_values(f, param: str):
    out = set()
    for node in walk_own(f.node):
        t = node.test if isinstance(node, (ast.If, ast.IfExp)) else None
        if isinstance(t, ast.Compare) and len(t.ops) == 1 and isinstance(t.ops[0], ast.Eq) and \
                norm_stmt(t.left) == param and isinstance(t.comparators[0], ast.Constant):
            out.add(t.comparators[0].value)
    return out


def mode_exhaustive(ctx, rep, clause):
    program = ctx.program
    ms = program.func(f'{SC}:match_spectra')
    gf = program.func(f'{SC}:get_fragment_matches')
    gi = program.func(f'{SC}:get_matched_indices')
    v_ms, n1 = validated_values(ms, 'mode')
    v_gf, n2 = validated_values(gf, 'mode')
    h_ms = handled_values(ms, 'mode')
    if v_ms is None or v_gf is None:
        raise AnalysisError('mode validation not found in match_spectra / get_fragment_matches')
    ob(rep, 'EXH', ms.fq, f'match_spectra handles exactly the modes it validates {sorted(v_ms)}', h_ms == v_ms,
       'one branch per validated mode', f'validates {sorted(v_ms)} but handles {sorted(h_ms)}: a validated mode '
       f'without a branch silently produces no matches', ms.loc(n1), clause)
    ob(rep, 'EXH', gf.fq, 'get_fragment_matches validates the same set of modes', v_gf == v_ms, f'{sorted(v_gf)}',
       f'{sorted(v_gf)} vs {sorted(v_ms)}', gf.loc(n2), clause)
    for f in (ms, gi):
        v, node = validated_values(f, 'tolerance_type')
        if v is None:
            raise AnalysisError(f'{f.fq}: tolerance_type validation not found')
        ob(rep, 'EXH', f.fq, 'tolerance_type is validated against {ppm, th}', v == {'ppm', 'th'}, f'{sorted(v)}',
           f'validates {sorted(v)}', f.loc(node), clause)
    h = handled_values(gi, 'tolerance_type')
    ob(rep, 'EXH', gi.fq, 'the window computation distinguishes one of the two validated types, the other is the '
       'default', len(h) == 1 and h <= {'ppm', 'th'}, f'{sorted(h)}', f'distinguishes {sorted(h)}', gi.loc(), clause)
    # peaks are re-ordered together with their intensities
    txt = ' '.join(norm_stmt(s) for s in gf.node.body)
    ok = 'zip(*sorted(zip(mz_spectra, intensity_spectra), key=lambda x: x[0]))' in txt
    ob(rep, 'SIB-order', gf.fq, 'peaks and intensities are sorted together by m/z', ok,
       'one sort over (mz, intensity) pairs', 'peaks are no longer sorted together with their intensities: matched '
       'intensities would belong to other peaks', gf.loc(), clause)


def check(ctx, rep):
    rep.explanation = EXPLANATION
    an, program = ctx.analyzer, ctx.program
    attribute_resolution(ctx, rep, 'C17a')
    mode_exhaustive(ctx, rep, 'C17b')
    callers = {f.fq for f in program.all_functions() if f.module.name == SC}
    n = add_fwd(rep, forwarding(an, program, ['tolerance_value', 'tolerance_type', 'mode', 'intensity_spectra'],
                                callers=callers), 'C17c')
    rep.floor('FWD', 'forwarding sites in score.py', n, 8)
    s = an.summaries.get((f'{SC}:get_fragment_matches', ()))
    ob(rep, 'EFF-mutates-argument', f'{SC}:get_fragment_matches', 'the caller\'s lists are not reordered',
       not s.mutates, 'sorted copies', f'writes parameter index(es) {sorted(s.mutates)}',
       program.func(f'{SC}:get_fragment_matches').loc(), 'C17d')
