"""C13 -- static and variable modification builders produce exactly the intended forms (structural conditions)."""
import ast
from typing import Dict, List, Optional

from ..loader import AnalysisError, norm_stmt, walk_own
from ..rules_flow import forwarding
from .common import add_fwd, calls_in
from .common import check as ob
from ..canon import Canon, localise, each, custom
from ..guards import GuardEval

EXPLANATION = (
    'Decides: (a) in each of the four dispatch chains on `mode` (residue, N-terminal, C-terminal rules of '
    'apply_static_mods; the recursion of the variable builder) overwrite calls the adder with append=False, append '
    'with append=True, skip leaves the site alone, an unmodified site is always appended to, and the chain ends in '
    'raise ValueError; the handled set equals the ModMode literal and MOD_MODE_VALUES; (b) all four site '
    'computations use get_regex_match_indices(annotation.sequence, rule, offset=-1) and the terminal rules test the '
    'index against 0 / len(sequence) - 1; (c) apply_static_mods edits only a copy and the variable builder yields '
    'only copies (C08); (d) mode, return_type, max_mods are forwarded through the builder chain. Not decided: that '
    'the recursion enumerates every eligible subset exactly once, max_mods accounting, idempotence of skip mode.')

MB = 'peptacular.sequence.mod_builder'


def _mode_chain(node: ast.If) -> Optional[Dict[str, List[ast.stmt]]]:
    """if mode == 'a': ... elif mode == 'b': ... else: ...  -> {'a': body, 'b': body, '<else>': body}"""
    out = {}
    cur = node
    while True:
        t = cur.test
        if not (isinstance(t, ast.Compare) and norm_stmt(t.left) == 'mode' and len(t.ops) == 1 and
                isinstance(t.ops[0], ast.Eq) and isinstance(t.comparators[0], ast.Constant)):
            return None
        out[t.comparators[0].value] = cur.body
        if len(cur.orelse) == 1 and isinstance(cur.orelse[0], ast.If) and \
                isinstance(cur.orelse[0].test, ast.Compare) and norm_stmt(cur.orelse[0].test.left) == 'mode':
            cur = cur.orelse[0]
            continue
        out['<else>'] = cur.orelse
        return out


def _adder_call(block) -> Optional[ast.Call]:
    for st in block:
        for n in ast.walk(st):
            if isinstance(n, ast.Call) and isinstance(n.func, ast.Attribute) and n.func.attr.startswith('add_'):
                return n
    return None


def _append_flag(call: ast.Call):
    for kw in call.keywords:
        if kw.arg == 'append' and isinstance(kw.value, ast.Constant):
            return kw.value.value
    if call.args and isinstance(call.args[-1], ast.Constant) and isinstance(call.args[-1].value, bool):
        return call.args[-1].value
    return None


def _site_of(name: str) -> Optional[str]:
    for site in ('nterm', 'cterm', 'internal', 'labile', 'unknown', 'static', 'isotope'):
        if site in name:
            return site
    return None


def _roles(f):
    """mod_builder functions with the site index and the searched annotation spelled `mod_index` / `annotation`"""
    def searched(c, fnode):
        for n in ast.walk(fnode):
            if isinstance(n, ast.Call) and isinstance(n.func, ast.Name) and n.func.id == 'get_regex_match_indices' and \
                    n.args and isinstance(n.args[0], ast.Attribute) and isinstance(n.args[0].value, ast.Name) and \
                    c.is_local(n.args[0].value.id):
                return n.args[0].value.id
        return None
    return localise(f, {'mod_index': each(lambda t: t.startswith('get_regex_match_indices(')),
                        'annotation': custom(searched)}, strict=False)


from ..guards import HelperRaises as _Raises


def _helper_hook(program, module_name):
    """GuardEval call hook: the decided result of a small private helper (constant returns under decided branches)"""
    from ..guards import first_exit, GuardEval as GE, UNK as U

    def hook(call, ge):
        if not isinstance(call.func, ast.Name):
            return U
        g = program.find_func(f'{module_name}:{call.func.id}')
        if g is None or not call.func.id.startswith('_'):
            return U
        env = dict(ge.env)
        names = [p_.name for p_ in g.params]
        for i, a in enumerate(call.args):
            if i < len(names):
                v = ge.eval(a)
                if v is not U:
                    env[names[i]] = v
        for kw in call.keywords:
            if kw.arg in names:
                v = ge.eval(kw.value)
                if v is not U:
                    env[kw.arg] = v
        sub = GE(env, Canon(g.node).aliases(), hook)
        exits = first_exit(g.node.body, sub)
        if len(exits) == 1 and isinstance(exits[0][0], ast.Raise):
            raise _Raises()
        if len(exits) == 1 and isinstance(exits[0][0], ast.Return):
            r = exits[0][0].value
            return None if r is None else GE(env, Canon(g.node).aliases(), hook).eval(r)
        return U
    return hook


def site_decisions(ctx, rep, clause):
    """what happens at a matched site, as a decision table read off the code: for every adder call of a builder the
    body of its loop is specialised under (mode, site already modified?) -- chains of elifs, guard clauses and a helper
    that turns the mode into the append flag are read alike.  Expected: an unmodified site is appended to; a modified
    one is overwritten (append=False) / appended to (append=True) / left alone, according to the mode; any other mode
    raises ValueError."""
    from ..guards import specialise, UNK as U
    program = ctx.program
    mod = program.module(MB)
    lit = mod.assigns.get('ModMode')
    members = {x.value for x in lit.slice.elts} if isinstance(lit, ast.Subscript) and isinstance(lit.slice, ast.Tuple) \
        else set()
    vals = mod.assigns.get('MOD_MODE_VALUES')
    listed = {x.value for x in vals.elts} if isinstance(vals, (ast.List, ast.Tuple)) else set()
    ob(rep, 'EXH', MB, 'ModMode literal == MOD_MODE_VALUES', members == listed == {'skip', 'append', 'overwrite'},
       f'{sorted(members)}', f'literal {sorted(members)} vs list {sorted(listed)}', mod.relpath, clause)
    hook = _helper_hook(program, MB)
    want = {('skip', True): ('none', None), ('append', True): ('add', True), ('overwrite', True): ('add', False),
            ('skip', False): ('add', True), ('append', False): ('add', True), ('overwrite', False): ('add', True),
            ('bogus', True): ('raise', None)}
    n_sites = 0
    for fname in ('apply_static_mods', '_apply_variable_mods_rec'):
        f = program.func(f'{MB}:{fname}')
        c = Canon(f.node)
        # the blocks that decide about one site: innermost loop (or the function body) around each group of adder calls
        adders = [x for x in walk_own(f.node) if isinstance(x, ast.Call) and isinstance(x.func, ast.Attribute) and
                  x.func.attr.startswith('add_') and _site_of(x.func.attr) in ('internal', 'nterm', 'cterm')]
        blocks = {}
        for a_ in adders:
            loops = [l for l in walk_own(f.node) if isinstance(l, ast.For) and any(y is a_ for y in ast.walk(l))]
            inner = min(loops, key=lambda l: sum(1 for _ in ast.walk(l))) if loops else f.node
            blocks.setdefault(id(inner), (inner, []))[1].append(a_)
        for inner, calls in blocks.values():
            site = _site_of(calls[0].func.attr)
            n_sites += 1
            # the "already modified?" questions of this block: has_* calls inside it, and has_* calls that a local read
            # inside it stands for (the question hoisted out of the loop)
            scope = list(ast.walk(inner))
            for y in list(scope):
                if isinstance(y, ast.Name) and isinstance(y.ctx, ast.Load):
                    v_ = c.single_value(y.id)
                    if v_ is not None:
                        scope += list(ast.walk(v_))
            has_calls = {norm_stmt(x) for x in scope if isinstance(x, ast.Call) and isinstance(x.func, ast.Attribute)
                         and x.func.attr.startswith('has_') and _site_of(x.func.attr) == site}
            asked = {_site_of(x.func.attr) for x in scope if isinstance(x, ast.Call) and
                     isinstance(x.func, ast.Attribute) and x.func.attr.startswith('has_') and
                     _site_of(x.func.attr) in ('internal', 'nterm', 'cterm')}
            ob(rep, 'SIB-mode', f.fq, f'{site} sites: "already modified?" is asked about the site that is edited',
               asked == {site}, f'has_{site}* decides about add_{site}*',
               f'the block that edits {site} sites asks about {sorted(asked)}: the mode is applied according to the '
               f'state of another site', f.loc(calls[0]), clause)
            if fname == 'apply_static_mods':
                edited = {norm_stmt(x.func.value) for x in calls}
                asked_obj = {norm_stmt(x.func.value) for x in scope if isinstance(x, ast.Call) and
                             isinstance(x.func, ast.Attribute) and x.func.attr.startswith('has_') and
                             _site_of(x.func.attr) == site}
                ob(rep, 'SIB-mode', f.fq, f'{site} sites: the conflict test looks at the input, not at the copy being edited',
                   bool(asked_obj) and not (asked_obj & edited), f'asks {sorted(asked_obj)}, edits {sorted(edited)}',
                   f'"already modified?" is asked of {sorted(asked_obj & edited)}, the object the rules are written to: a '
                   f'residue matched by two rules is unmodified in the input but counts as modified for the second '
                   f'rule, so skip drops it and overwrite replaces the first rule\'s modification', f.loc(calls[0]), clause)
            body = inner.body if isinstance(inner, ast.For) else inner.body
            for (mode, am), (kind, flag) in want.items():
                env = {'mode': mode}
                for h in has_calls:
                    env[h] = am
                # the index tests of the terminal rules hold for the site under consideration
                for x in ast.walk(inner):
                    if isinstance(x, ast.Compare) and len(x.ops) == 1 and isinstance(x.ops[0], (ast.Eq, ast.NotEq)) and \
                            any(isinstance(y, ast.Name) and any(k_ == 'each' for k_, _p in c.bindings.get(y.id, []))
                                for y in ast.walk(x.left)) and 'mode' not in norm_stmt(x):
                        env[norm_stmt(x)] = isinstance(x.ops[0], ast.Eq)
                got = None
                try:
                    # module-level literal constants (the list of valid modes, ...) are known values
                    al = dict(c.aliases())
                    for nm_, v_ in f.module.assigns.items():
                        if nm_ not in al and not c.is_local(nm_) and isinstance(v_, (ast.List, ast.Tuple, ast.Set, ast.Constant)):
                            al[nm_] = v_
                    ge = GuardEval(env, al, hook)
                    marks = {}
                    for st in specialise(body, ge, marks):
                        if isinstance(st, ast.Raise):
                            if not marks.get(id(st)):
                                raise AnalysisError(f'{f.fq}: a raise under a test that is not decided for mode '
                                                    f'{mode!r} (form not read)')
                            got = ('raise', None)
                            break
                        if isinstance(st, (ast.Continue, ast.Return)) and marks.get(id(st)):
                            break
                        hit = [x for x in ast.walk(st) if any(x is a_ for a_ in calls)]
                        if hit and got is None:
                            call = hit[0]
                            fl = call.args[-1] if call.args else None
                            for kw in call.keywords:
                                if kw.arg == 'append':
                                    fl = kw.value
                            v = ge.eval(fl) if fl is not None else U
                            got = ('add', v if v is not U else '?')
                            if marks.get(id(st)):
                                break
                except _Raises:
                    got = ('raise', None)
                got = got or ('none', None)
                ob(rep, 'SIB-mode', f.fq, f"{site} sites: mode '{mode}' on a{'n already modified' if am else 'n unmodified'} site",
                   got == (kind, flag), f'{got[0]}' + (f' with append={got[1]}' if got[0] == 'add' else ''),
                   f"for mode '{mode}' and a site that is {'already' if am else 'not yet'} modified the builder does: "
                   f"{got[0]}" + (f' with append={got[1]}' if got[0] == 'add' else '') + f"; expected: {kind}" +
                   (f' with append={flag}' if kind == 'add' else ''), f.loc(calls[0]), clause)
    rep.floor('SIB-mode', 'site blocks in the builders', n_sites, 4)


def site_computation(ctx, rep, clause):
    an, program = ctx.analyzer, ctx.program
    n = 0
    for fname in ('apply_static_mods', '_variable_mods_builder'):
        f = program.func(f'{MB}:{fname}')
        for r in calls_in(an, f.fq):
            if r.callee is None or r.callee.name != 'get_regex_match_indices':
                continue
            n += 1
            off = r.binding.get('offset')
            src = r.binding.get('input_str')
            ok = isinstance(off, ast.UnaryOp) and isinstance(off.op, ast.USub) and \
                isinstance(off.operand, ast.Constant) and off.operand.value == 1
            site_txt = Canon(f.node).text(r.node)
            ob(rep, 'SIB-site', f.fq, f'`{site_txt}`: match end is shifted to the residue index (offset=-1)',
               ok, 'offset=-1', f'offset is `{norm_stmt(off) if off is not None else "default 0"}`: every '
               f'modification lands one residue to the right of the matched one', f.loc(r.node), clause)
            ob(rep, 'SIB-site', f.fq, f'`{site_txt}`: sites are searched in the residues of the annotation',
               src is not None and isinstance(src, ast.Attribute) and src.attr == 'sequence' and
               isinstance(src.value, ast.Name), '<annotation>.sequence',
               f'searched in `{norm_stmt(src) if src is not None else "?"}`', f.loc(r.node), clause)
    rep.floor('SIB-site', 'site computations in mod_builder.py', n, 4)
    # terminal rules act on the first / last residue only, residue rules on every matched index: for each block the
    # adder call is reached for exactly those values of the matched index (decided for indices 0..4 of a 5-residue peptide)
    from ..guards import specialise
    f = program.func(f'{MB}:apply_static_mods')
    c = Canon(f.node)
    hook = _helper_hook(program, MB)
    for loop in [l for l in walk_own(f.node) if isinstance(l, ast.For) and isinstance(l.target, ast.Name) and
                 c.text(l.iter).startswith('get_regex_match_indices(')]:
        calls = [x for x in ast.walk(loop) if isinstance(x, ast.Call) and isinstance(x.func, ast.Attribute) and
                 x.func.attr.startswith('add_') and _site_of(x.func.attr) in ('internal', 'nterm', 'cterm')]
        if not calls:
            continue
        site = _site_of(calls[0].func.attr)
        reached = set()
        for v in range(5):
            env = {loop.target.id: v, 'mode': 'append'}
            for x in ast.walk(loop):
                if isinstance(x, ast.Call) and norm_stmt(x.func) == 'len' and norm_stmt(x).endswith('.sequence)'):
                    env[norm_stmt(x)] = 5
                if isinstance(x, ast.Call) and isinstance(x.func, ast.Attribute) and x.func.attr.startswith('has_'):
                    env[norm_stmt(x)] = False
            marks = {}
            try:
                for st in specialise(loop.body, GuardEval(env, c.aliases(), hook), marks):
                    if isinstance(st, (ast.Continue, ast.Break, ast.Return)) and marks.get(id(st)):
                        break
                    if any(any(y is a_ for a_ in calls) for y in ast.walk(st)):
                        reached.add(v)
                        break
            except _Raises:
                pass
        want = {'nterm': {0}, 'cterm': {4}, 'internal': {0, 1, 2, 3, 4}}[site]
        ob(rep, 'SIB-site', f.fq, f'{site} rules act on ' + {'nterm': 'index 0 only', 'cterm': 'the last index only',
                                                              'internal': 'every matched index'}[site],
           reached == want, f'adder reached for indices {sorted(reached)} of 0..4',
           f'the {site} adder is reached for matched indices {sorted(reached)} of a 5-residue peptide, expected '
           f'{sorted(want)}', f.loc(calls[0]), clause)


def site_index_offset(ctx, rep, clause):
    """get_regex_match_indices: on every path the yielded index is <match start> + offset (+1 for a consuming match):
    the builders pass offset=-1 to turn "one past the matched residue" into the residue index, for consuming and for
    zero-width (look-around) targets alike"""
    from ..poly import PathEval, fmt
    program = ctx.program
    f = program.func('peptacular.util:get_regex_match_indices')
    import re as _re
    cz = Canon(f.node)
    paths = PathEval(f.node, {}).run()
    if not paths:
        raise AnalysisError('get_regex_match_indices: no yielded value found')
    seen = set()
    for cond, p in paths:
        # locals that stand for match.start() / match.end() are read through; conditions that do not concern a match
        # (how the pattern was given) are not part of the decision
        def thru(t):
            try:
                return norm_stmt(cz.resolve(ast.parse(t, mode='eval').body))
            except SyntaxError:
                return t
        cond = tuple((thru(t), v) for t, v in cond)
        cond = tuple((t, v) for t, v in cond if '.start()' in t or '.end()' in t or ' is None' in t)
        key = (cond, fmt(p))
        if key in seen:
            continue
        seen.add(key)
        coeff = p.get((('offset', 1),), 0)
        consts = p.get((), 0)
        others = [m for m in p if m not in ((('offset', 1),), ())]
        ok = coeff == 1 and consts in (0, 1) and len(others) == 1 and p[others[0]] == 1
        ctext = ' and '.join(f'{"" if v else "not "}({t})' for t, v in cond) or 'always'
        ob(rep, 'SIB-site', f.fq, f'the index yielded under [{_anon_names(ctext)}] is <match start> + offset (+1)', ok,
           fmt(p), f'on the path [{ctext}] the yielded index is {fmt(p)}: `offset` is not applied (exactly once) there, so '
           f'the builders (offset=-1) place modifications for such targets one residue off', f.loc(), clause)
        # the +1 of a consuming match is decided on the match whose index is yielded, not on another one
        who = _re.match(r'(\w+)\.start\(\)', str(others[0][0][0])) if others else None
        tested = {m_.group(1) for t, _v in cond for m_ in [_re.match(r'(\w+)\.start\(\) != \1\.end\(\)', t)] if m_} | \
            {m_.group(1) for t, _v in cond for m_ in [_re.match(r'(\w+)\.end\(\) != \1\.start\(\)', t)] if m_}
        if who is not None:
            same = tested <= {who.group(1)} and bool(tested)
            ob(rep, 'SIB-site', f.fq, f'the shift of the index yielded under [{_anon_names(ctext)}] is decided on the match '
               f'it belongs to', same, 'zero-width or consuming is a property of each match',
               f'the index of `{who.group(1)}` is shifted according to a test of {sorted(tested) or "no match at all"}: a '
               f'pattern whose alternatives are partly zero-width and partly consuming (`([KR])|(?=D)`) gets the shift of '
               f'one kind applied to the matches of the other', f.loc(), clause)
    rep.floor('SIB-site', 'yield paths of get_regex_match_indices', len(seen), 2)


def _anon_names(t: str) -> str:
    import re as _re
    return _re.sub(r'\b[a-z_][a-z0-9_]*(?=\.)', '_', t)


def counter_sibling(ctx, rep, clause):
    """the budget max_mods is added to a starting count; the recursion stops on a count: both must count the same
    thing (modified residues), otherwise residues carrying several modifications inflate the budget"""
    program = ctx.program
    b = program.func(f'{MB}:_variable_mods_builder')
    r = program.func(f'{MB}:_apply_variable_mods_rec')

    def counters(f):
        return sorted({n.func.attr for n in walk_own(f.node) if isinstance(n, ast.Call) and
                       isinstance(n.func, ast.Attribute) and n.func.attr.startswith('count_')})
    cb, cr = counters(b), counters(r)
    ob(rep, 'SIB-counter', b.fq, f'budget baseline {cb} and recursion stop test {cr} use the same counter',
       cb == cr and len(cb) == 1, f'{cb}', f'the baseline added to max_mods is {cb} but the recursion stops on {cr}: '
       f'with a pre-modified residue carrying two modifications more than max_mods new sites are produced', b.loc(),
       clause)
    cb_ = Canon(b.node)
    txt = ' '.join(cb_.text(s) for s in ast.walk(b.node) if isinstance(s, ast.Call) and
                   norm_stmt(s.func) == '_apply_variable_mods_rec')
    import re as _re
    ob(rep, 'SIB-counter', b.fq, 'the recursion is started with max_mods + starting count',
       bool(_re.search(r'max_mods \+ \w+\.count_\w+\(\)|\w+\.count_\w+\(\) \+ max_mods', txt)), 'budget = max_mods + baseline',
       'the recursion budget is not max_mods plus the starting count', b.loc(), clause)


def site_map_accumulates(ctx, rep, clause):
    """_variable_mods_builder files the offered modification groups per site; a site matched by two rules is offered
    the groups of both, so the per-site store has to accumulate (setdefault/append, extend, or get-and-add)"""
    program = ctx.program
    f = program.func(f'{MB}:_variable_mods_builder')
    c = Canon(f.node)
    site_loops = [x for x in walk_own(f.node) if isinstance(x, ast.For) and
                  c.text(x.iter).startswith('get_regex_match_indices(')]
    if not site_loops:
        raise AnalysisError('_variable_mods_builder: the loop over the matched sites was not found')
    k = 0
    for lp in site_loops:
        for x in ast.walk(lp):
            if isinstance(x, ast.Assign) and isinstance(x.targets[0], ast.Subscript):
                k += 1
                d = norm_stmt(x.targets[0].value)
                acc = any(isinstance(y, ast.Call) and isinstance(y.func, ast.Attribute) and y.func.attr == 'get' and
                          norm_stmt(y.func.value) == d for y in ast.walk(x.value))
                ob(rep, 'ACC', f.fq, 'the per-site store keeps the groups offered by earlier rules', acc,
                   'get-and-add', f'`{c.text(x)[:80]}` replaces what an earlier rule filed for the same site: with two '
                   f'rules matching one residue only the last rule\'s groups are offered and forms are missing',
                   f.loc(x), clause)
            if isinstance(x, ast.Call) and isinstance(x.func, ast.Attribute) and x.func.attr in ('append', 'extend') and \
                    isinstance(x.func.value, ast.Call) and isinstance(x.func.value.func, ast.Attribute) and \
                    x.func.value.func.attr == 'setdefault':
                k += 1
                rep.ob('ACC', f'{f.fq} :: per-site store accumulates via setdefault', f.loc(x), True,
                       'groups of every matching rule are kept', True, clause)
    rep.floor('ACC', 'per-site stores in _variable_mods_builder', k, 1)


def single_expansion(ctx, rep, clause):
    """every form is produced by expanding a *base* annotation once: a value that came out of the variable builder
    must not be fed into it again (its variable modifications would count as pre-existing, so up to max_mods more are
    added, and the same form is reached along two routes)"""
    program = ctx.program
    f = program.func(f'{MB}:apply_variable_mods')
    builder = '_variable_mods_builder'

    def has_builder(e):
        return any(isinstance(x, ast.Call) and isinstance(x.func, ast.Name) and x.func.id == builder for x in ast.walk(e))
    tainted = set()
    changed = True
    while changed:
        changed = False
        for n in walk_own(f.node):
            new = None
            if isinstance(n, ast.Call) and isinstance(n.func, ast.Attribute) and n.func.attr in ('extend', 'append') and \
                    isinstance(n.func.value, ast.Name) and n.args:
                if has_builder(n.args[0]) or any(isinstance(x, ast.Name) and x.id in tainted for x in ast.walk(n.args[0])):
                    new = n.func.value.id
            elif isinstance(n, ast.Assign) and isinstance(n.targets[0], ast.Name):
                if has_builder(n.value) or any(isinstance(x, ast.Name) and x.id in tainted for x in ast.walk(n.value)):
                    new = n.targets[0].id
            elif isinstance(n, (ast.For, ast.comprehension)) and isinstance(n.target, ast.Name):
                if any(isinstance(x, ast.Name) and x.id in tainted for x in ast.walk(n.iter)):
                    new = n.target.id
            if new is not None and new not in tainted:
                tainted.add(new)
                changed = True
    k = 0
    cx = Canon(f.node)
    for n in sorted((x for x in walk_own(f.node) if isinstance(x, ast.Call)), key=lambda x: x.order):
        if isinstance(n, ast.Call) and isinstance(n.func, ast.Name) and n.func.id == builder and n.args:
            k += 1
            # a name bound more than once means what its nearest preceding binding gave it
            arg = n.args[0]
            if isinstance(arg, ast.Name):
                binds = [a for a in walk_own(f.node) if isinstance(a, ast.Assign) and isinstance(a.targets[0], ast.Name)
                         and a.targets[0].id == arg.id and a.order < n.order]
                if binds:
                    arg = max(binds, key=lambda a: a.order).value
            again = sorted({x.id for x in ast.walk(arg) if isinstance(x, ast.Name) and x.id in tainted} |
                           ({builder} if has_builder(arg) else set()))
            kwnames = {kw.arg for c_ in ast.walk(arg) if isinstance(c_, ast.Call) for kw in c_.keywords}
            site = 'N-terminal' if 'nterm_mods' in kwnames else 'C-terminal' if 'cterm_mods' in kwnames else 'residue-only'
            looped = any(isinstance(x, ast.Name) and any(kind == 'each' for kind, _pl in cx.bindings.get(x.id, []))
                         for x in ast.walk(arg))
            ob(rep, 'SIB-expand', f.fq, f'{site} expansion' + (' over the N-terminal forms' if looped else '') +
               ' starts from a base annotation, not from an already expanded form',
               not again, 'argument does not derive from a result of the builder',
               f'`{norm_stmt(n)[:80]}` expands a value that derives from an earlier result of {builder} (through '
               f'{again}): the variable modifications already added count as pre-existing, so forms with more than '
               f'max_mods new sites and duplicate forms are returned (N-terminal + C-terminal + residue rules together)',
               f.loc(n), clause)
    rep.floor('SIB-expand', 'calls of the variable builder in apply_variable_mods', k, 3)
    # a terminal form is expanded only when the terminal rule changed something: the form made from BASE by
    # apply_static_mods is compared with BASE itself (a test that the form *has* a terminal modification is also true
    # for a terminus that was already modified and left alone -- the unchanged form would be expanded a second time)
    from ..guards import dominating_tests
    j = 0
    for n in walk_own(f.node):
        if not (isinstance(n, ast.Call) and isinstance(n.func, ast.Name) and n.func.id == builder and n.args and
                isinstance(n.args[0], ast.Name)):
            continue
        x = n.args[0].id
        # the chain of plain copies the argument came through (`form = made if made != base else None`), down to the
        # call of apply_static_mods that made it
        names, anchors, src = [x], [n], None
        cur = x
        for _ in range(3):
            binds = [a for a in walk_own(f.node) if isinstance(a, ast.Assign) and isinstance(a.targets[0], ast.Name)
                     and a.targets[0].id == cur and a.order < n.order and
                     not (isinstance(a.value, ast.Constant) and a.value.value is None)]
            if not binds:
                break
            last = max(binds, key=lambda a: a.order)
            anchors.append(last)
            if isinstance(last.value, ast.Call) and norm_stmt(last.value.func) == 'apply_static_mods' and last.value.args:
                src = last.value
                break
            if isinstance(last.value, ast.Name):
                cur = last.value.id
                names.append(cur)
                continue
            break
        if src is None:
            continue
        base = norm_stmt(src.args[0])
        j += 1
        tests = [tp for a_ in anchors for tp in dominating_tests(f.node, a_)]
        cmp_ok = False
        for t, pol in tests:
            for y in ast.walk(t):
                if isinstance(y, ast.Compare) and len(y.ops) == 1 and isinstance(y.ops[0], (ast.NotEq, ast.Eq)) and \
                        base in (norm_stmt(y.left), norm_stmt(y.comparators[0])) and \
                        ({norm_stmt(y.left), norm_stmt(y.comparators[0])} - {base}) <= set(names):
                    cmp_ok = True
        ob(rep, 'SIB-expand', f.fq, f'the form `{x}` made from `{base}` is expanded only if it differs from `{base}`',
           cmp_ok, f'{x} != {base}',
           f'`{norm_stmt(n)[:70]}` is not guarded by a comparison of `{x}` with the annotation it was made from '
           f'(guards: {[norm_stmt(t)[:40] for t, _p in tests][-2:]}): with a terminus that is already modified and a '
           f'rule that leaves it alone (skip mode) the unchanged form is expanded again and every form is returned twice',
           f.loc(n), clause)
    rep.floor('SIB-expand', 'terminal forms guarded before expansion', j, 2)


def check(ctx, rep):
    rep.explanation = EXPLANATION
    an, program = ctx.analyzer, ctx.program
    site_decisions(ctx, rep, 'C13a')
    site_computation(ctx, rep, 'C13b')
    site_index_offset(ctx, rep, 'C13b')
    counter_sibling(ctx, rep, 'C13a')
    single_expansion(ctx, rep, 'C13a')
    site_map_accumulates(ctx, rep, 'C13a')
    for fname in ('apply_static_mods', 'apply_variable_mods', '_variable_mods_builder', '_apply_variable_mods_rec'):
        fq = f'{MB}:{fname}'
        s = an.summaries.get((fq, ()))
        f = program.func(fq)
        ann_idx = [p.index for p in f.params if p.name in ('sequence', 'annotation')]
        wr = [i for i in ann_idx if i in s.mutates]
        alias = [o for o in s.ret if o[0] in ('P', 'I') and o[1] in ann_idx] + \
                [o for o in s.ret_inner_known if o[0] in ('P', 'I') and o[1] in ann_idx]
        if fname == '_apply_variable_mods_rec':
            alias = []  # the private recursion yields its (already copied) starting object by design
        ob(rep, 'EFF', fq, 'edits only copies and hands out only copies', not wr and not alias, 'copy-on-entry',
           f'writes argument {wr} / result aliases {alias}', f.loc(), 'C13c')
    callers = {f.fq for f in program.all_functions() if f.module.name == MB}
    n = add_fwd(rep, forwarding(an, program, ['mode', 'return_type', 'max_mods'], callers=callers), 'C13d')
    rep.floor('FWD', 'forwarding sites in mod_builder.py', n, 12)
    from .common import memo_rule
    memo_rule(ctx, rep, 'C13e', ('peptacular.sequence.mod_builder',))
    from .common import repeat_alias_rule
    repeat_alias_rule(ctx, rep, 'C13c', ('peptacular.sequence.mod_builder', 'peptacular.proforma.input_convert'))
