"""C10 -- a modification means the same thing however it is spelled (structural necessary conditions)."""
import ast
import os
from typing import Dict, List, Set, Tuple

from ..rules_flow import forwarding
from ..loader import walk_own, norm_stmt, AnalysisError
from .common import add_fwd, calls_in, ret_deps_by_node
from .common import check as ob
from ..canon import Canon

EXPLANATION = (
    'Decides: (a) per vocabulary, the prefix set recognised by is_X_str equals the set stripped by _strip_X_str, and '
    'their union is the set listed in the delta-mass parser; (b) a prefix stripper returns the whole remainder after '
    'the first colon whenever the vocabulary\'s own name table contains a colon (data fact recomputed from the '
    'bundled OBO on every run); (c) the mass resolver and the composition resolver test a spelling in the same order '
    '(localisation tag, number, PSI-MOD, Unimod) over the same set of vocabulary tests, and both take the first '
    'resolvable `|` alternative; (d) look-ups go id -> name (-> synonym) in both resolvers; (e) the monoisotopic '
    'switch is forwarded through the vocabulary resolvers. Not decided: that each of the ~4600 rows resolves to the '
    'same number through each spelling; numeric self-consistency of tabulated mass vs composition.')

MOD_DB = 'peptacular.mods.mod_db'
VOCABS = {
    'unimod': ('is_unimod_str', '_strip_unimod_str', 'unimod.obo'),
    'psi-mod': ('is_psi_mod_str', '_strip_psi_str', 'psi-mod.obo'),
    'xlmod': ('is_xlmod_str', '_strip_xlmod_str', 'xlmod.obo'),
    'resid': ('is_resid_str', '_strip_resid_str', None),
    'gno': ('is_gno_str', '_strip_gno_str', None),
}


def startswith_literals(fnode) -> Set[str]:
    """every literal prefix the function tests with startswith: a string, a tuple of strings, or a local / module-level
    name bound once to either"""
    from ..canon import Canon
    c = Canon(fnode) if isinstance(fnode, (ast.FunctionDef, ast.AsyncFunctionDef)) else None
    out = set()
    for n in ast.walk(fnode):
        if isinstance(n, ast.Call) and isinstance(n.func, ast.Attribute) and n.func.attr == 'startswith' and n.args:
            a = n.args[0]
            if c is not None and isinstance(a, ast.Name):
                a = c.resolve(a)
            elts = a.elts if isinstance(a, (ast.Tuple, ast.List)) else [a]
            for e in elts:
                if isinstance(e, ast.Constant) and isinstance(e.value, str):
                    out.add(e.value)
    return out


def obo_names_with_colon(path: str) -> Tuple[int, int, List[str]]:
    """(number of non-obsolete terms, how many names contain ':', examples) -- own minimal OBO reader"""
    if not os.path.exists(path):
        raise AnalysisError(f'bundled vocabulary missing: {path}')
    total = with_colon = 0
    examples = []
    in_term = False
    name = None
    obsolete = False

    def flush():
        nonlocal total, with_colon
        if in_term and name is not None and not obsolete:
            total += 1
            if ':' in name:
                with_colon += 1
                if len(examples) < 3:
                    examples.append(name)

    with open(path, encoding='utf-8', errors='replace') as fh:
        for line in fh:
            line = line.rstrip('\n')
            if line.startswith('['):
                flush()
                in_term = line.startswith('[Term]')
                name, obsolete = None, False
            elif in_term and line.startswith('name: '):
                if name is None:
                    name = line[len('name: '):]
            elif in_term and line.startswith('is_obsolete: true'):
                obsolete = True
    flush()
    return total, with_colon, examples


def strip_idiom(fnode) -> List[Tuple[str, ast.AST]]:
    """classify every non-identity return of a stripper: 'whole' keeps everything after the first colon,
    'truncating' keeps only up to the second colon, 'deleting' drops later colons, 'unknown'"""
    out = []
    params = [a.arg for a in fnode.args.args]
    for n in ast.walk(fnode):
        if not isinstance(n, ast.Return) or n.value is None:
            continue
        def arms(e):
            if isinstance(e, ast.IfExp):      # `return cut if <has prefix> else text`: the arms are the returns
                return arms(e.body) + arms(e.orelse)
            return [e]
        for v in arms(n.value):
            if isinstance(v, ast.Name) and v.id in params:
                continue  # identity: no prefix present
            r = n if v is n.value else ast.copy_location(ast.Return(value=v), n)
            out.append((_classify_strip(v), r))
    return out


def _classify_strip(v) -> str:
    # x.split(':', 1)[1]  /  x.split(':')[1]
    if isinstance(v, ast.Subscript) and isinstance(v.value, ast.Call) and isinstance(v.value.func, ast.Attribute):
        c = v.value
        if c.func.attr == 'split' and c.args and isinstance(c.args[0], ast.Constant) and c.args[0].value == ':':
            idx = v.slice
            maxsplit = None
            if len(c.args) > 1 and isinstance(c.args[1], ast.Constant):
                maxsplit = c.args[1].value
            for kw in c.keywords:
                if kw.arg == 'maxsplit' and isinstance(kw.value, ast.Constant):
                    maxsplit = kw.value.value
            if isinstance(idx, ast.Constant) and idx.value == 1:
                return 'whole' if maxsplit == 1 else 'truncating'
            if isinstance(idx, ast.Constant) and idx.value == -1 and maxsplit == 1:
                return 'whole'
        if c.func.attr == 'partition' and c.args and isinstance(c.args[0], ast.Constant) and c.args[0].value == ':':
            if isinstance(v.slice, ast.Constant) and v.slice.value in (2, -1):
                return 'whole'
    # ':'.join(x.split(':')[1:])  (whole)   ''.join(x.split(':')[1:])  (deleting)
    if isinstance(v, ast.Call) and isinstance(v.func, ast.Attribute) and v.func.attr == 'join' and \
            isinstance(v.func.value, ast.Constant) and v.args:
        a = v.args[0]
        if isinstance(a, ast.Subscript) and isinstance(a.slice, ast.Slice) and isinstance(a.value, ast.Call) and \
                isinstance(a.value.func, ast.Attribute) and a.value.func.attr == 'split':
            return 'whole' if v.func.value.value == ':' else 'deleting'
    # x[len(prefix):] / x[x.index(':') + 1:]
    if isinstance(v, ast.Subscript) and isinstance(v.slice, ast.Slice) and v.slice.upper is None and \
            v.slice.lower is not None:
        return 'whole'
    # x.removeprefix(...)
    if isinstance(v, ast.Call) and isinstance(v.func, ast.Attribute) and v.func.attr == 'removeprefix':
        return 'whole'
    return 'unknown'


def prefix_tables(ctx, rep, clause):
    program = ctx.program
    m = program.module(MOD_DB)
    union = set()
    for vocab, (isf, stripf, _obo) in VOCABS.items():
        fi, fs = program.func(f'{MOD_DB}:{isf}'), program.func(f'{MOD_DB}:{stripf}')
        a, b = startswith_literals(fi.node), startswith_literals(fs.node)
        union |= a
        ob(rep, 'TOK-prefix', fi.fq, f'{vocab}: prefixes recognised {sorted(a)} == prefixes stripped {sorted(b)}',
           a == b and len(a) > 0, 'the recogniser and the stripper agree',
           f'recognised {sorted(a)} but stripped {sorted(b)}: a spelling with prefix {sorted(a ^ b)} is classified as '
           f'{vocab} and then looked up with its prefix still attached (or the reverse)', fi.loc(), clause)
        for name, f in ((isf, fi), (stripf, fs)):
            lowered = _tests_on_lowercase(f.node)
            ob(rep, 'TOK-prefix', f.fq, f'{name}: prefix tests are case-folded', lowered,
               'startswith is applied to the lower-cased string', 'a prefix test is applied to the raw string: '
               'case variants of the prefix resolve differently', f.loc(), clause)
    g = program.func('peptacular.chem.chem_calc:_parse_mod_delta_mass')
    listed = startswith_literals(g.node) - {'obs:', '+', '-'}
    ob(rep, 'TOK-prefix', g.fq, f'delta-mass parser lists exactly the vocabulary prefixes', listed == union,
       f'{len(union)} prefixes', f'differs from the vocabulary prefix sets by {sorted(listed ^ union)}: a prefixed '
       f'signed number with that prefix is (not) treated as a mass shift', g.loc(), clause)


def _tests_on_lowercase(fnode) -> bool:
    lowered = set()
    for n in ast.walk(fnode):
        if isinstance(n, ast.Assign) and isinstance(n.value, ast.Call) and isinstance(n.value.func, ast.Attribute) \
                and n.value.func.attr in ('lower', 'casefold'):
            for t in n.targets:
                if isinstance(t, ast.Name):
                    lowered.add(t.id)
    for n in ast.walk(fnode):
        if isinstance(n, ast.Call) and isinstance(n.func, ast.Attribute) and n.func.attr == 'startswith' and \
                n.args and isinstance(n.args[0], ast.Constant) and ':' in str(n.args[0].value):
            r = n.func.value
            if isinstance(r, ast.Name) and r.id in lowered:
                continue
            if isinstance(r, ast.Call) and isinstance(r.func, ast.Attribute) and r.func.attr in ('lower', 'casefold'):
                continue
            return False
    return True


def strip_rule(ctx, rep, clause):
    program = ctx.program
    data_dir = os.path.join(program.pkg_dir, 'data')
    for vocab, (isf, stripf, obo) in VOCABS.items():
        f = program.func(f'{MOD_DB}:{stripf}')
        if obo is not None:
            total, with_colon, ex = obo_names_with_colon(os.path.join(data_dir, obo))
        else:
            total, with_colon, ex = 0, 0, []  # database not loaded in this build (empty name table)
        idioms = strip_idiom(f.node)
        if not idioms:
            raise AnalysisError(f'{stripf}: no prefix-stripping return found')
        # the remainder is looked up case-sensitively: it has to be cut from the caller's text, not from the
        # case-folded copy the prefix test uses (data fact: how many bundled names contain a capital letter)
        with_upper = 0
        if obo is not None:
            with open(os.path.join(data_dir, obo), encoding='utf-8', errors='replace') as fh:
                with_upper = sum(1 for line in fh if line.startswith('name: ') and line[6:].strip() != line[6:].strip().lower())
        cs = Canon(f.node)
        for kind, node in idioms:
            folded = [c for c in ast.walk(cs.resolve(node.value)) if isinstance(c, ast.Call) and
                      isinstance(c.func, ast.Attribute) and c.func.attr in ('lower', 'casefold', 'upper')]
            ob(rep, 'CALL-strip', f.fq, f'{vocab}: the remainder is cut from the text as the caller wrote it',
               not folded or with_upper == 0, f'{with_upper} bundled {vocab} names contain a capital letter',
               f'`{norm_stmt(node)}` returns a case-folded remainder, but {with_upper} bundled {vocab} names contain a '
               f'capital letter and names are looked up as written: the prefixed name spelling of such an entry '
               f'resolves to "unknown modification" (or to a different entry) while the accession resolves', f.loc(node),
               clause)
        for kind, node in idioms:
            if kind == 'unknown':
                raise AnalysisError(f'{stripf}: stripping idiom not understood: {norm_stmt(node)}')
            ok = kind == 'whole' or with_colon == 0
            ob(rep, 'CALL-strip', f.fq, f'{vocab}: `{norm_stmt(node)}` keeps the whole remainder', ok,
               f'idiom is {kind}; {with_colon} of {total} bundled {vocab} names contain a colon',
               f'idiom is {kind} but {with_colon} of {total} bundled {vocab} names contain a colon (e.g. {ex}): '
               f'the prefixed spelling of such a name is cut at its second colon and resolves to "unknown '
               f'modification" while the bare name resolves', f.loc(node), clause)


def resolver_tokens(fnode) -> List[str]:
    """ordered vocabulary tests of a resolver (top-level statements only; a dispatch table of (predicate, handler) rows
    is read as the if-chain it stands for)"""
    from ..unroll import unroll
    fnode = unroll(fnode)
    toks = []

    def chain(stmts):
        """top-level statements, an if / elif / else chain read as the sequence of its tests"""
        for st_ in stmts:
            yield st_
            if isinstance(st_, ast.If) and st_.orelse and st_.body and isinstance(st_.body[-1], (ast.Return, ast.Raise)):
                yield from chain(st_.orelse)
    for st in chain(fnode.body):
        if isinstance(st, ast.Assign) and isinstance(st.value, ast.Call) and isinstance(st.value.func, ast.Name) and \
                st.value.func.id == 'convert_type':
            toks.append('convert')
        # the localisation tag: `if '#' in mod: ...`, or the cut written as an assignment (`mod = mod.split('#')[0] if
        # '#' in mod else mod`, `mod = mod.partition('#')[0]`)
        if isinstance(st, ast.Assign) and any(
                isinstance(x, ast.Call) and isinstance(x.func, ast.Attribute) and x.func.attr in ('split', 'partition')
                and x.args and isinstance(x.args[0], ast.Constant) and x.args[0].value == '#' for x in ast.walk(st.value)):
            toks.append('hash')
            continue
        if not isinstance(st, ast.If):
            continue
        t = st.test
        txt = norm_stmt(t)
        if "'#' in" in txt or ".startswith('#')" in txt:
            toks.append('hash')
            continue
        found = False
        for n in ast.walk(t):
            if isinstance(n, ast.Call) and isinstance(n.func, ast.Name) and n.func.id == 'isinstance' and \
                    len(n.args) == 2 and ('int' in norm_stmt(n.args[1]) or 'float' in norm_stmt(n.args[1])):
                toks.append('number')
                found = True
                break
            if isinstance(n, ast.Call) and isinstance(n.func, ast.Attribute) and n.func.attr == 'startswith' and \
                    n.args and isinstance(n.args[0], ast.Constant):
                toks.append(f'prefix:{n.args[0].value}')
                found = True
                break
            if isinstance(n, ast.Call) and isinstance(n.func, ast.Name) and n.func.id.startswith('is_') and \
                    n.func.id.endswith('_str'):
                toks.append(f'vocab:{n.func.id}')
                found = True
                break
    # collapse repeated number tests and the convert marker
    out = []
    for t in toks:
        if t == 'convert':
            continue
        if out and out[-1] == t:
            continue
        out.append(t)
    return out


def dispatch_parity(ctx, rep, clause):
    program = ctx.program
    fm = program.func('peptacular.mass_calc:_parse_mod_mass')
    fc = program.func('peptacular.chem.chem_calc:_parse_mod_comp')
    tm, tc = resolver_tokens(fm.node), resolver_tokens(fc.node)
    if len(tm) < 8 or len(tc) < 8:
        raise AnalysisError(f'resolver dispatch chains not understood: {tm} / {tc}')
    sm, sc = set(tm), set(tc)
    ob(rep, 'SIB-dispatch', fc.fq, 'mass and composition resolvers test the same vocabularies', sm == sc,
       f'{len(sm)} tests in both', f'only one resolver tests {sorted(sm ^ sc)}: such a spelling resolves for mass and '
       f'not for composition (or the reverse)', fc.loc(), clause)
    key = ['hash', 'number', 'vocab:is_psi_mod_str', 'vocab:is_unimod_str']
    om = [t for t in tm if t in key]
    oc = [t for t in tc if t in key]
    # first occurrence order
    def first_order(seq):
        seen, out = set(), []
        for t in seq:
            if t not in seen:
                seen.add(t)
                out.append(t)
        return out
    om, oc = first_order(om), first_order(oc)
    ob(rep, 'SIB-dispatch', fc.fq, f'order of the non-prefix tests (tag strip, number, PSI-MOD, Unimod) is the same',
       om == oc, ' < '.join(om),
       f'mass resolver tests {om}, composition resolver tests {oc}: a value such as `42#g1` is a mass shift for '
       f'one calculator and a Unimod accession for the other', fc.loc(), clause)
    # alternatives: first resolvable `|` alternative, in both front ends
    for fq, callee in (('peptacular.mass_calc:mod_mass', '_parse_mod_mass'),
                       ('peptacular.chem.chem_calc:mod_comp', '_parse_mod_comp')):
        f = program.func(fq)
        ok = first_resolvable(f, callee)
        ob(rep, 'SIB-dispatch', fq, "takes the first resolvable '|' alternative", ok,
           'alternatives are tried in written order and the first non-None result is returned',
           "the loop over '|' alternatives no longer returns the first resolvable one", f.loc(), clause)


def first_resolvable(f, callee: str) -> bool:
    """the front end tries the '|' alternatives in written order and hands back the first result that is not None:
    either a loop over <text>.split('|') that returns from inside an `is not None` test on the callee's result, or
    next(<results that are not None>, <default>) over a generator of the callee's results in split order"""
    from ..canon import Canon
    c = Canon(f.node)

    def over_split(it) -> bool:
        return "split('|')" in norm_stmt(c.resolve(it))

    for n in walk_own(f.node):
        if isinstance(n, ast.For) and over_split(n.iter):
            txt = ' ; '.join(norm_stmt(s) for s in n.body)
            if callee + '(' in txt and 'is not None' in txt and any(
                    isinstance(s, ast.If) and any(isinstance(x, ast.Return) for x in s.body) for s in n.body):
                return True
        if isinstance(n, ast.Call) and isinstance(n.func, ast.Name) and n.func.id == 'next' and n.args:
            g = c.resolve(n.args[0])
            if not isinstance(g, (ast.GeneratorExp, ast.ListComp)) or len(g.generators) != 1:
                continue
            gen = g.generators[0]
            tests = ' ; '.join(norm_stmt(t) for t in gen.ifs)
            src = c.resolve(gen.iter)
            # results filtered for `is not None`, drawn in order from callee(...) over the split alternatives
            direct = over_split(gen.iter) and callee + '(' in (norm_stmt(g.elt) + tests)
            staged = isinstance(src, (ast.GeneratorExp, ast.ListComp)) and len(src.generators) == 1 and \
                over_split(src.generators[0].iter) and callee + '(' in norm_stmt(src.elt)
            if 'is not None' in tests and (direct or staged):
                return True
    return False


def _assigned_expr(f, name: str):
    for n in walk_own(f.node):
        if isinstance(n, ast.Assign) and any(isinstance(t, ast.Name) and t.id == name for t in n.targets):
            return norm_stmt(n.value)
    return None


def lookup_order(ctx, rep, clause):
    program = ctx.program

    def order_of(fq, names, depth=0):
        f = program.func(fq)
        seq = []
        for n in ast.walk(f.node):
            if isinstance(n, ast.Call) and isinstance(n.func, ast.Attribute) and n.func.attr in names:
                seq.append((n.order, 0, [n.func.attr]))
            elif isinstance(n, ast.Call) and isinstance(n.func, ast.Name) and n.func.id.startswith('_') and depth < 2:
                # a private helper of the same module: its look-ups happen where it is called
                g = program.find_func(f'{f.module.name}:{n.func.id}')
                if g is not None and g.fq != f.fq:
                    seq.append((n.order, 0, order_of(g.fq, names, depth + 1)[1]))
        seq.sort(key=lambda t: (t[0], t[1]))
        out = []
        for _, _, attrs in seq:
            for a in attrs:
                if a not in out:
                    out.append(a)
        return f, out

    for fq in (f'{MOD_DB}:_get_mass', f'{MOD_DB}:_get_comp'):
        f, o = order_of(fq, ('contains_id', 'contains_name'))
        ob(rep, 'SIB-lookup', fq, 'look-up order is id, then name', o == ['contains_id', 'contains_name'],
           'id first, then name', f'order is {o}: an accession that is also a name of another entry resolves '
           f'differently for mass and for composition', f.loc(), clause)
    for fq in ('peptacular.mass_calc:_parse_glycan_mass_from_proforma_str', 'peptacular.chem.chem_calc:_parse_glycan_comp'):
        f, o = order_of(fq, ('contains_id', 'contains_name', 'contains_synonym'))
        ob(rep, 'SIB-lookup', fq, 'glycan look-up order is id, name, synonym',
           o == ['contains_id', 'contains_name', 'contains_synonym'], 'id, name, synonym', f'order is {o}', f.loc(),
           clause)
    for fq in ('peptacular.mass_calc:glycan_mass', 'peptacular.mods.mod_db_setup:_glycan_comp'):
        f, o = order_of(fq, ('contains_name', 'contains_synonym'))
        ob(rep, 'SIB-lookup', fq, 'monosaccharide look-up order is name, synonym',
           o == ['contains_name', 'contains_synonym'], 'name, synonym', f'order is {o}', f.loc(), clause)


def ambiguous_tokens(ctx, rep, clause):
    """Unimod delta_composition tokens that are both an element symbol of the bundled table and a substituent
    name/synonym of the monosaccharide table.  Which reading Unimod means is a data fact recomputed each run from the
    entry's own tabulated monoisotopic mass (own readers of the three data files, nothing of the package is run):
    a token for which only the substituent reading reproduces the tabulated mass must be special-cased by the
    Unimod reader, which otherwise prefers the element reading."""
    import re as _re
    from .. import rules_tab as rt
    program = ctx.program
    data = os.path.join(program.pkg_dir, 'data')
    iso = rt.read_chem_txt(program)
    best = {}
    for (sym, a), (m, ab) in iso.items():
        if sym not in best or ab > best[sym][1]:
            best[sym] = (m, ab)
    mono = {k: v[0] for k, v in best.items()}
    by_label = {f'{a}{sym}': m for (sym, a), (m, ab) in iso.items()}
    by_label.update({'2H': iso.get(('D', 2), (0,))[0], '3H': iso.get(('T', 3), (0,))[0]})
    subs = {}
    cur_names, cur_formula = [], None

    def flush():
        if cur_formula:
            for nm in cur_names:
                subs.setdefault(nm, cur_formula)
    with open(os.path.join(data, 'monosaccharides_updated.obo')) as fh:
        for line in fh:
            if line.startswith('[Term]'):
                flush()
                cur_names, cur_formula = [], None
            elif line.startswith('name: '):
                cur_names.append(line[len('name: '):].strip())
            elif line.startswith('synonym: '):
                m = _re.search(r'"([^"]+)"', line)
                if m:
                    cur_names.append(m.group(1))
            elif line.startswith('property_value: has_chemical_formula'):
                m = _re.search(r'"([^"]+)"', line)
                if m:
                    cur_formula = m.group(1)
    flush()

    def formula_mass(f):
        tot = 0.0
        for el, cnt in _re.findall(r'([A-Z][a-z]?)(-?\d*)', f):
            if el not in mono:
                return None
            tot += mono[el] * (int(cnt) if cnt not in ('', '-') else 1)
        return tot

    def token_mass(t, as_sub):
        if as_sub and t in subs:
            return formula_mass(subs[t])
        if t in mono:
            return mono[t]
        if t in by_label:
            return by_label[t]
        if t in subs:
            return formula_mass(subs[t])
        return None

    need_sub, need_elem = {}, {}
    n_terms = 0
    comp, tab = None, None

    def judge():
        nonlocal n_terms
        if comp is None or tab is None:
            return
        toks = []
        for t in comp.split():
            m = _re.match(r'^([A-Za-z0-9]+)(?:\((-?\d+)\))?$', t)
            if not m:
                return
            toks.append((m.group(1), int(m.group(2)) if m.group(2) else 1))
        amb = [t for t, _ in toks if t in mono and t in subs]
        if not amb:
            return
        n_terms += 1
        for a in set(amb):
            def total(sub_for_a):
                tot = 0.0
                for t, c in toks:
                    mt = token_mass(t, as_sub=(t == a and sub_for_a))
                    if mt is None:
                        return None
                    tot += mt * c
                return tot
            me, ms = total(False), total(True)
            if me is None or ms is None:
                continue
            if abs(ms - tab) < 0.01 < abs(me - tab):
                need_sub[a] = need_sub.get(a, 0) + 1
            elif abs(me - tab) < 0.01 < abs(ms - tab):
                need_elem[a] = need_elem.get(a, 0) + 1
    with open(os.path.join(data, 'unimod.obo'), encoding='utf-8', errors='replace') as fh:
        for line in fh:
            if line.startswith('[Term]'):
                judge()
                comp, tab = None, None
            elif line.startswith('xref: delta_composition'):
                m = _re.search(r'"([^"]*)"', line)
                comp = m.group(1) if m else None
            elif line.startswith('xref: delta_mono_mass'):
                m = _re.search(r'"([^"]*)"', line)
                try:
                    tab = float(m.group(1)) if m else None
                except ValueError:
                    tab = None
    judge()
    f = program.func('peptacular.mods.mod_db_setup:_get_unimod_entries')
    special = set()
    for n in walk_own(f.node):
        if isinstance(n, ast.If) and '_glycan_comp(' in ' '.join(norm_stmt(s) for s in n.body):
            for c in ast.walk(n.test):
                if isinstance(c, ast.Compare) and len(c.ops) == 1 and isinstance(c.ops[0], ast.Eq) and \
                        isinstance(c.comparators[0], ast.Constant):
                    special.add(c.comparators[0].value)
    rep.coverage_extra['unimod_terms_with_ambiguous_tokens'] = n_terms
    rep.coverage_extra['tokens_needing_substituent_reading'] = need_sub
    rep.coverage_extra['tokens_needing_element_reading'] = need_elem
    if n_terms < 50:
        raise AnalysisError(f'unimod.obo: only {n_terms} terms with ambiguous tokens read')
    for t, k in sorted(need_sub.items()):
        ob(rep, 'TOK-ambiguous', f.fq, f"Unimod composition token '{t}' is read as a substituent ({k} entries need it)",
           t in special, f'special-cased: {sorted(special)}',
           f"'{t}' is an element symbol of the bundled table, but {k} Unimod entries reproduce their own tabulated mass "
           f"only when it is read as the substituent '{subs.get(t)}'; the Unimod reader does not special-case it, so the "
           f"tabulated composition of those entries contains the element and no longer matches the tabulated mass",
           f.loc(), clause)
    for t, k in sorted(need_elem.items()):
        ob(rep, 'TOK-ambiguous', f.fq, f"Unimod composition token '{t}' is read as an element ({k} entries need it)",
           t not in special, 'element reading (default)', f"'{t}' is special-cased as a substituent but {k} entries "
           f"need the element", f.loc(), clause)


def check(ctx, rep):
    rep.explanation = EXPLANATION
    an, program = ctx.analyzer, ctx.program
    prefix_tables(ctx, rep, 'C10a')
    strip_rule(ctx, rep, 'C10b')
    dispatch_parity(ctx, rep, 'C10c')
    lookup_order(ctx, rep, 'C10d')
    ambiguous_tokens(ctx, rep, 'C10f')
    from . import C15 as _c15
    _c15.predicates(ctx, rep, 'C10d')
    from .common import value_preserving_rule, self_accumulation_rule
    value_preserving_rule(ctx, rep, 'C10d', ('peptacular.chem.chem_calc', 'peptacular.chem.chem_util', 'peptacular.glycan', 'peptacular.mods.mod_db', 'peptacular.mods.mod_db_setup', 'peptacular.mass_calc'))
    self_accumulation_rule(ctx, rep, 'C10f', ('peptacular.mods.mod_db_setup', 'peptacular.chem.chem_calc', 'peptacular.glycan'))
    callers = {f.fq for f in program.all_functions() if f.module.name in (MOD_DB, 'peptacular.mass_calc',
                                                                          'peptacular.glycan')}
    n = add_fwd(rep, forwarding(an, program, ['monoisotopic'], callers=callers), 'C10e')
    rep.floor('FWD', 'monoisotopic forwarding sites in the resolvers', n, 25)
    from . import C03
    C03.multiplier_parity(ctx, rep, 'C10c')
    from .common import memo_rule
    memo_rule(ctx, rep, 'C10g', ('peptacular.mods.mod_db', 'peptacular.mass_calc', 'peptacular.chem.chem_calc', 'peptacular.glycan'))
